"""C11 Every exchange is recorded once, in order and byte-exact, in the scan database (DESIGN.md section 3)."""

from __future__ import annotations

import asyncio
import collections.abc
import contextvars
import json
import logging
import random
import shutil
import sqlite3
import time
from datetime import UTC, datetime
from pathlib import Path
from typing import Any

from vf import dbharness as dh
from vf import gen_uds
from vf import iso14229 as iso

PROPERTY = "C11"
LEVEL = "exploration"
ENGINE = "ecu-groundtruth"
TECHNIQUE = (
    "runtime monitoring of the real ECU client with a real DBHandler (aiosqlite, real event loop) on a scripted transport: the "
    "transport's wire log (bytes written, raw bytes/faults delivered, order) is compared offline with the scan_result rows read "
    "back with the sqlite3 module after DBHandler.disconnect(), together with gallia's 'Could not log messages to database' warnings; "
    "fault injection into the writer task (seeded 'database is locked' failures of INSERTs via a wrapper around the aiosqlite "
    "connection's execute); runs of a harness UDSScanner through the real entry_point()/setup()/teardown() against an in-process ECU; "
    "systematic cancellation: every task of a clock-free multi-task history (callers and the real cyclic tester present worker on one ECU object) "
    "is driven through a coroutine wrapper that counts its suspension points, and the history is re-run with one task cancelled at each of them; "
    "environment variation: a second sqlite connection holds a real write transaction on the database file while the handler is closed; "
    "usage variation: one DBHandler object is connected, used and disconnected several times, in one event loop and in successive event loops; "
    "environment variation: the database file exists already - a committed fixture written once by the unchanged DBHandler of /repo (schema 4.0, one run "
    "with eight rows; tools/make_c11_fixture.py) - and the run is appended to a copy of it; usage variation: the caller re-assigns the public attributes of "
    "the request / response object (and the pdu of the raw kinds) right after request() came back, while the row may still be queued or retried; "
    "bursts of several hundred to a few thousand exchanges whose rows all wait behind a foreign write transaction, with the driving task watched "
    "through a coroutine wrapper and cancelled the moment it is found suspended behind its own exchange (request written, client not inside a transport call); "
    "environment variation: the pre-existing database has collected further runs (discovery runs, scans of the same and of other ECUs, the coming run's target "
    "already known as an address), appended to the copy of the fixture with the sqlite3 module before the handler connects; which scan_run row is the run's own "
    "is told from the file (the one row that was not there before) and every row of the run must be filed under it; usage variation: the client's view of the "
    "ECU is reset between two exchanges without a reply being involved, through the client's own API - ECU.refresh_state(reset_state=True), and ECU.power_cycle() "
    "of a client that was given a power supply (a harness object with PowerSupply's power_cycle() contract) - and the exchanges the client starts on its own "
    "meanwhile (read of the session, ping) are observed through a request() override of a harness subclass"
)
LEVEL_TEXT = (
    "Exploration: generated histories of 1..25 exchanges (every request kind of the codec generators, raw requests, replies of every "
    "response kind, negative replies, pending chains, busy, timeouts, mismatching and malformed replies, connection errors on read and "
    "write, end of stream, failures below the UDS layer; max_retry 0..2) with implicit logging toggled mid-history, ANALYZE and other "
    "tags, and the driving task cancelled or failing between exchanges and while a request awaits its reply; then disconnect() as "
    "entry_point's finally does. A second family lets several tasks share one client. A third (writer faults) makes the INSERT of chosen "
    "rows - in particular the last one - fail 1..3 times in a row with 'database is locked' while disconnect() follows the last request "
    "immediately, after a few scheduling points, or after the writer has drained. A fourth runs a UDSScanner subclass that switches implicit "
    "logging off (twin: leaves it on) in its constructor through entry_point() with setup-phase traffic (ping, ECUReset, properties "
    "requests), toggles logging in main() and compares scan_result with the transport's log of what was on the wire under which "
    "setting. A fifth (concurrent users with cancellation, no clock involved) lets 2..4 tasks - callers and, in half of the histories, the real "
    "cyclic tester present worker with interval 0 - use one ECU object with exchanges of different durations (writes and reads that take 0..3 "
    "scheduling points, ResponsePending chains, negative replies, silence, session changes, inserts that take 0..2 scheduling points after the "
    "row was accepted); after a reference run the history is repeated once per suspension point of one task, which is cancelled exactly there: "
    "while it is queued behind another task's exchange, woken by the task that finished its exchange but not yet run (cancelled by that task within "
    "the same step, also by ECU.stop_cyclic_tester_present() right after a caller's request returned, as UDSScanner.teardown does), during its write, "
    "between write and read, while it awaits the reply, between ResponsePending replies, during the insert, between requests. Rows of every run must "
    "be exactly the requests the transport saw, in that order, and none for a request that never reached the transport. "
    "A sixth (foreign write transaction) runs histories of the first family on a database that another sqlite connection write-locks (BEGIN IMMEDIATE) "
    "from a chosen exchange on, for 3 % .. 80 % (thorough: also 115 %) of the busy timeout the handler configured for itself (read back with PRAGMA "
    "busy_timeout; real seconds, the histories of a wave run side by side), so that two or more rows are waiting behind that transaction when "
    "disconnect() is called after a normal end, a cancellation or a failure. A seventh (handler used again) drives ONE DBHandler object through 2..3 "
    "sessions - connect, a history of the first family (ending normally, cancelled or failing), disconnect - where a later session runs in the same "
    "event loop as the one before or in a fresh one (a synchronous driver calling asyncio.run() per session; connect and disconnect of a session always "
    "in the same loop) and goes on with the scan run or starts a new one; every session is judged on the rows that came with it, and the rows of "
    "earlier sessions must stay. "
    "Three dimensions run through these families. (a) Pre-existing database: 30 % of the histories of the first, third, sixth and seventh family open a copy "
    "of fixtures/c11-schema-4.0.sqlite - the file an earlier run of the released code left behind - instead of creating a new file: the eight rows of the "
    "earlier run must be unchanged afterwards and the history is judged on the rows that came with it. (b) Caller edits: after 36 % of the exchanges the "
    "caller re-assigns every public attribute of the response object it was handed (also the one carried by the exception), of the request object, or of "
    "both, immediately after request() returned or raised - the row may still be in the queue, or (third family) be retried by the writer afterwards; the "
    "stored bytes must be the bytes on the wire. (c) Bursts (sixth family): 4 (thorough: 16) histories of 200..3200 (thorough: ..6500) quick exchanges while "
    "the foreign write transaction lasts until 0.3 s after disconnect() was called, so that the rows of the whole burst are waiting when the run ends "
    "normally, is cancelled between two exchanges or while the last request awaits its reply; in the sixth family the driving task is cancelled at once if it "
    "is ever found waiting for something while it is inside request(), its request has been written and the client is not inside a transport call - a "
    "request cancelled there after the transport had delivered its final reply was a complete exchange and must have its row. "
    "(a', further runs in the database) three quarters of the pre-existing databases have grown since the fixture's run: 0..3 discovery runs with 1..5 addresses each, 0..5 further "
    "scan runs of the fixture's ECU and of other ECUs with 0..8 rows each, and the target of the coming run already known (discovered, or scanned before) or not - so that the "
    "address, run_meta and scan_run tables hold different numbers of rows; every row of the run must be filed under the scan_run row that came with the run. "
    "(d) View reset without a reply (first, sixth and seventh family): in half of the histories whose scripted replies take the client into a non-default session or security "
    "level (7 % of the others) the caller, between two exchanges - preferably after an exchange that was recorded in that non-default view -, calls "
    "ECU.refresh_state(reset_state=True) (view reset, then 22 F1 86 with any outcome of the generators) or ECU.power_cycle() on a client constructed with a power supply "
    "(supply off/on, wait_for_ecu() pings after 0.5 s of real time, answered positively or negatively, then the view is reset); the rows of the client's own exchanges and of "
    "all exchanges after the reset must hold the view as it was when request() was entered, and the shadow goes to the default session at the reset. "
    "Held = every row set read back matched its wire log."
)
LEVEL_NOTE = (
    "Trusted: scripted transport vf/dbharness.py (wire log), request generators vf/gen_uds.py, response generators vf/checks/c02.py / "
    "vf/iso14229.py, state shadow (20 lines below). Thread scheduling inside aiosqlite is not controlled."
)
RULE = (
    "cases = histories (seeded: request kinds x reply/fault scripts x max_retry x tags x implicit-logging toggles x crash point and kind); "
    "non-trivial = at least one exchange was logged and the history has a fault, a toggle, a tag or a crash point; distinct = distinct "
    "history seeds; distinct_traces = distinct (outcome class, logging, tag, crash) sequences; evaluations = rows compared. Writer-fault "
    "histories: the same generators without crash point x fault plan (rows x failures in a row x scheduling points before the failure) x "
    "pacing x how soon disconnect() follows. Scanner runs: seeded options (ping / ECUReset / properties requests / background tester present) "
    "x main() scripts with logging toggles, each run twice (logging off / on from the constructor); non-trivial = logging toggled between requests. "
    "Concurrent users with cancellation: seeded histories (tasks x requests x durations x insert duration x worker on/off) x every suspension point of "
    "the chosen task (cancelled while suspended there, and - where another task's step ends the wait - by that task within that step) x, for the worker, "
    "every caller request after which stop_cyclic_tester_present() is called; non-trivial = at least one cancellation run. "
    "Foreign write transaction: histories of the first family (crash points included) x exchange before which the other connection begins its write "
    "transaction (at least two logged exchanges complete after it) x duration of that transaction as a fraction of the handler's own busy timeout "
    "(every fraction of the list is required with several rows waiting). Handler used again: 2..3 sessions per handler object x history per session x "
    "same / fresh event loop x same / new scan run x how the session before ended (normally, cancelled, failed: all three required). "
    "Pre-existing database: a flag per history (own generator, 30 %), required with all three ways a run can end; caller edits: a choice per exchange (own "
    "generator: response 18 %, both 12 %, request 6 %), rows compared after an edit are counted, also those the writer had to retry after the edit; bursts: "
    "size class x way the run ends, required with more than 1000 and more than 2000 rows waiting and cancelled with more than 1000 rows waiting; "
    "further runs in the pre-existing database: a plan per history (own generator: discovery runs x addresses x scan runs x rows x target seen before), rows compared are "
    "required for databases whose address and scan_run tables differ in size with a new target, and whose run_meta and scan_run tables differ in size with a known target; "
    "view reset without a reply: kind (refresh_state(reset_state=True) 36 % / power_cycle() 14 % of the histories that reach a non-default view) x place x script of the client's "
    "own exchange; required: rows compared after a reset of a non-default view in which rows had been recorded, for both kinds, and rows of the client's own exchanges"
)
ASSUMPTIONS = [
    "a request() whose write was attempted counts as put on the wire; retries belong to their exchange (one row, final outcome)",
    "the exchange interrupted by cancellation is not 'completed': its row is optional (if present it must be the last one and carry the request bytes); "
    "a request() cancelled after the transport had handed its final reply (not ResponsePending, not busy) to the client was a complete exchange: its row is "
    "required (presence and position are judged, its other columns are not - the caller never saw an outcome)",
    "client back-off sleeps are set to zero (ECU.retry_wait = 0) and read timeouts are immediate: the monitor runs on a real event loop",
    "the exception column is compared with repr() of the exception request() raised",
    "a reply that is recorded (response_pdu not NULL) is expected to carry a receive time",
    "writer faults: the injected failure is aiosqlite.OperationalError('database is locked') raised after at least one scheduling point (sqlite "
    "reports a lock only after its busy timeout); a row the writer had to retry may get a later id than rows sent after it (the unchanged "
    "writer re-queues it at the end: counted as writer-fault.order-changed), so with retried rows transmission order is judged on request_time, "
    "and on ids only among rows that were not retried",
    "a disconnect() that does not return within 60 s wall clock is reported as a harness error (INCONCLUSIVE), not as a violation - unless there is "
    "evidence that waiting cannot help: the handler's writer task has ended (5 s grace), or the writer has attempted more than 8 x rows + 64 INSERTs "
    "(counted at the connection object) for the rows of the history while no fault is injected; the connection is then closed by force and the file judged as it is",
    "pre-existing database: the fixture is a file the unchanged tree of /repo wrote (same schema version as the tree under test announces); a tree whose "
    "connect() refuses the file with an error is not judged on it (counted; the reach requirements of the dimension then fail)",
    "caller edits: re-assigning public attributes of request / response objects and the pdu of RawRequest / RawResponse objects (which has a setter) is "
    "legal use of objects the caller owns; the edit happens before the caller reaches its next suspension point; repr() of the exception for the exception "
    "column is taken when request() raises, before the edit",
    "bursts: PRAGMA synchronous=OFF on the handler's connection (as for the concurrent-cancel family); the foreign transaction of a burst is not timed, it ends "
    "0.3 s after disconnect() was called; if the run takes longer than the handler's busy timeout the writer may have to retry (then judged as under writer faults)",
    "writer faults: a row is followed through its retries by the identity of the parameter tuple handed to the connection, and - for a writer that builds the "
    "tuple anew - by equal content, failing that by equal run, send time and request bytes",
    "scanner runs: gallia.plugins.plugin.load_transport and gallia.command.uds.load_ecu are replaced by harness loaders (in-process transport; "
    "ECU subclass whose properties() sends ReadDataByIdentifier requests); whether logging was wanted for a request is the harness scanner's "
    "own note at the time the transport saw the write and the read; a request in flight while the preference changes may or may not have a row; "
    "rows being in transmission order, a surplus row is attributed to an exchange sent while logging was off only if the transport saw such an exchange "
    "between the recorded exchanges around it, otherwise it is a row for a request that was not on the wire there",
    "concurrent users with cancellation: the transport logs a request when write() is entered (first assumption); a request whose caller was cancelled "
    "before that was never put on the wire and must have no row; a request that was written and then cancelled was put on the wire and has its row "
    "(here the run goes on, only one user is cancelled), with NULL reply when no final reply had been delivered; its exception column is not judged",
    "concurrent users with cancellation: the cyclic tester present worker runs with interval 0 (its sleep is a bare scheduling point) so that no clock "
    "decides the interleaving; the scheduling points of an insert come after DBHandler.insert_scan_result has returned (wrapper on the handler "
    "instance); PRAGMA synchronous=OFF on the handler's connection (durability across power loss is not judged); session-changing requests only in "
    "histories whose inserts take no scheduling point; the state column is compared with ECU.state as it was when the transport saw the write",
    "foreign write transaction: the other user of the database is a second sqlite3 connection of the harness process (BEGIN IMMEDIATE issued from a helper "
    "thread, ROLLBACK from a timer of the event loop) that touches no table; its duration is a real-time wait. If the handler's writer reported a retry "
    "(the transaction outlasted the busy timeout) transmission order is judged on request_time, as for writer faults. Warnings are attributed to the "
    "history in whose task context (contextvars) they were logged, since the histories of a wave share the loop",
    "further runs in the pre-existing database: written by the harness with the sqlite3 module into the copy of the fixture before the handler connects, in the shape the "
    "released code writes them (schema of the file itself, run_meta and scan_result values copied from the fixture's rows); the run's own scan_run row is the one row of that "
    "table that was not there before the handler connected (for a handler used again: before the session that started the scan run) and it must name the run's target; if the "
    "file does not tell (no such row, several) the rows are only judged against DBHandler.scan_run (counted: own-scan-run.not-told-from-the-file)",
    "view reset without a reply: the power supply is a harness object with the power_cycle(sleep, callback) contract of gallia.power_supply.PowerSupply (it calls the callback, "
    "i.e. ECU.wait_for_ecu(), whose 0.5 s sleep is real time); after ECU.power_cycle() returned True and when ECU.refresh_state(reset_state=True) sends its request the ECU is "
    "taken to be in the default session without security access (what a power cycle does to an ECU; what reset_state=True asks for); the client's own exchanges are seen by a "
    "request() override in a harness subclass of ECU (only in histories with such a reset), which takes the view before the request when request() is entered; exceptions of "
    "refresh_state() are the caller's to handle and are dropped; no such reset in writer-fault histories, bursts and the concurrent families",
    "handler used again: a new ECU object and transport per session (the client's view of the ECU state starts at the default session again); the handler "
    "object is created outside any event loop; a disconnect() that has not returned 5 s (wall clock) after the handler's writer task "
    "(DBHandler._executor_task) ended is given up, the connection closed by force and the file judged as it is - a writer task that has ended can "
    "never write the rows still queued; the handler's remaining sessions are then skipped and the shard stops after two such handlers",
]
EXHAUSTIVE = {"quick": False, "thorough": False}
EXHAUSTIVE_NOTE = ""

DISCONNECT_GUARD_S = 60.0  # wall-clock guard around DBHandler.disconnect()
NRCS = [0x10, 0x11, 0x12, 0x13, 0x14, 0x22, 0x24, 0x25, 0x26, 0x31, 0x33, 0x35, 0x36, 0x37, 0x70, 0x71, 0x72, 0x73, 0x7E, 0x7F, 0x92]
DTC_DICT_SF = iso.DTC_LIST_SF


def shards(tier: str, seed: int) -> list[dict[str, Any]]:
    if tier == "quick":
        return ([{"mode": "hist", "base": f"q{seed}-{i}", "n": 260} for i in range(12)] + [{"mode": "conc", "base": f"qc{seed}-{i}", "n": 60} for i in range(2)]
                + [{"mode": "wf", "base": f"qw{seed}-{i}", "n": 100} for i in range(4)] + [{"mode": "scan", "base": f"qs{seed}-{i}", "n": 12} for i in range(2)]
                + [{"mode": "cc", "base": f"qx{seed}-{i}", "n": 50} for i in range(2)]
                + [{"mode": "lock", "base": f"ql{seed}-{i}", "n": 24, "wave": 24, "burst": 4} for i in range(1)]
                + [{"mode": "reuse", "base": f"qr{seed}-{i}", "n": 80} for i in range(2)])
    return ([{"mode": "hist", "base": f"t{seed}-{i}", "n": 3000} for i in range(14)] + [{"mode": "conc", "base": f"tc{seed}-{i}", "n": 1000} for i in range(2)]
            + [{"mode": "wf", "base": f"tw{seed}-{i}", "n": 3000} for i in range(4)] + [{"mode": "scan", "base": f"ts{seed}-{i}", "n": 160} for i in range(2)]
            + [{"mode": "cc", "base": f"tx{seed}-{i}", "n": 600} for i in range(4)]
            + [{"mode": "lock", "base": f"tl{seed}-{i}", "n": 84, "wave": 28, "burst": 8} for i in range(2)]
            + [{"mode": "reuse", "base": f"tr{seed}-{i}", "n": 800} for i in range(2)])


def required_reach(tier: str) -> dict[str, int]:
    k = 1 if tier == "quick" else 10
    return {
        "rows.compared": 2000 * k, "histories.closed-normally": 100 * k,
        "outcome.positive": 300 * k, "outcome.negative": 100 * k, "outcome.timeout": 50 * k, "outcome.mismatch": 50 * k,
        "outcome.malformed": 50 * k, "outcome.connection-error.no-retry": 20 * k, "outcome.connection-error.retried": 20 * k,
        "outcome.transport-error": 10 * k, "outcome.recovered-by-retry": 20 * k, "shape.pending-chain": 50 * k, "shape.busy": 10 * k,
        "max_retry.0": 50 * k, "max_retry.1": 50 * k, "max_retry.2": 50 * k,
        "logging.exchange-while-off": 200 * k, "logging.toggled-mid-history": 100 * k, "tag.ANALYZE": 200 * k, "tag.other": 50 * k,
        "crash.cancel-mid": 100 * k, "crash.cancel-between": 50 * k, "crash.raise-between": 50 * k, "crash.raise-mid": 20 * k,
        "#crash.index:": 22, "#crash.mid-index:": 18, "crash.cancel-mid.after-retry-or-pending": 5 * k,
        "#reqcls:": 40, "#respcls:": 30 if tier == "quick" else 34, "state.non-default-row": 200 * k, "state.level-row": 30 * k,
        "concurrent.histories": 50 * k, "concurrent.rows": 500 * k, "disconnect.queue-not-empty": 20 * k,
        # writer faults
        "writer-fault.histories": 200 * k, "writer-fault.insert-failed": 300 * k, "#writer-fault.failures-in-a-row:": 3,
        "writer-fault.last-row-failed.disconnect-immediately": 60 * k,
        "writer-fault.failed-twice-in-a-row-as-last-outstanding-row-while-disconnect-waits": 30 * k,
        "writer-fault.order-changed": 5 * k, "writer-fault.rows-compared": 300 * k,
        # scanner runs
        "scanner.runs": 24 * k, "scanner.started-with-logging-off": 12 * k, "scanner.started-with-logging-on": 12 * k,
        "scanner.setup-requests.while-logging-off": 12 * k, "scanner.setup-request-recorded.logging-on-from-the-start": 12 * k,
        "scanner.logging-toggled-between-requests": 30 * k, "scanner.main-requests.while-logging-on": 30 * k,
        "scanner.main-requests.while-logging-off": 30 * k, "scanner.rows-compared": 100 * k, "#scanner.setup-source:": 3,
        # concurrent users of one ECU object, one cancelled at every suspension point
        "conc-cancel.histories": 60 * k, "conc-cancel.runs": 1000 * k, "conc-cancel.rows-compared": 5000 * k, "#conc-cancel.tasks:": 3,
        "conc-cancel.histories-with-tester-present-worker": 20 * k, "conc-cancel.request-never-transmitted": 100 * k,
        "conc-cancel.interrupted-exchange-recorded": 200 * k,
        "cancel.while-queued": 60 * k, "cancel.woken-not-run": 60 * k, "cancel.issued-by-the-task-that-woke-the-victim-within-the-same-step": 50 * k,
        "cancel.mid-exchange": 200 * k, "cancel.mid-exchange.during-write": 50 * k, "cancel.mid-exchange.between-write-and-read": 50 * k,
        "cancel.mid-exchange.awaiting-reply": 40 * k, "cancel.mid-exchange.pending-read": 40 * k, "cancel.during-db-insert": 40 * k,
        "cancel.between-requests": 50 * k, "cancel.worker.while-queued": 30 * k, "cancel.worker.woken-not-run": 25 * k,
        "cancel.worker.stopped-by-a-user-right-after-its-request.woken-not-run": 8 * k,
        # another connection holds a write transaction on the database while the handler is closed
        "foreign-lock.histories": 18 * k if tier == "quick" else 120, "#foreign-lock.hold:": len(lock_fractions(tier)),
        "#foreign-lock.several-rows-behind.hold:": len(lock_fractions(tier)), "foreign-lock.rows-behind-the-lock": 60 * k if tier == "quick" else 400,
        "foreign-lock.disconnect-had-to-wait-for-the-foreign-transaction": 12 * k if tier == "quick" else 80, "foreign-lock.rows-compared": 80 * k if tier == "quick" else 500,
        "#foreign-lock.session-": 3,
        # one handler object: connect / exchanges / disconnect, and again (same event loop, or a fresh one)
        "reuse.handlers": 120 * k, "reuse.later-session.fresh-event-loop": 80 * k, "reuse.later-session.same-event-loop": 25 * k,
        "#reuse.later-session.after:": 3, "reuse.later-session.continue-scan-run": 40 * k, "reuse.later-session.new-scan-run": 20 * k,
        "reuse.later-session.rows-compared.fresh-event-loop": 300 * k, "reuse.later-session.rows-compared.same-event-loop": 80 * k,
        "reuse.third-session": 15 * k,
        # the database file exists already: written by an earlier run of the released code (fixtures/c11-schema-4.0.sqlite), the run is appended
        "pre-existing-database.histories": 500 * k, "pre-existing-database.rows-compared": 1500 * k, "pre-existing-database.rows-of-the-earlier-run-kept": 2000 * k,
        "#pre-existing-database.session-": 3,
        # the caller re-assigns attributes of the request / response object right after request() came back
        "caller-edit.rows-compared": 1500 * k, "caller-edit.rows-compared.response-object-edited": 800 * k, "caller-edit.rows-compared.request-object-edited": 500 * k,
        "caller-edit.rows-compared.row-retried-by-the-writer-after-the-edit": 30 * k,
        # bursts that outrun the writer (rows of the whole burst waiting behind a foreign write transaction when the run ends)
        "foreign-lock.burst.histories": 3 if tier == "quick" else 12, "foreign-lock.burst.more-than-1000-rows-waiting-when-the-run-ended": 2 if tier == "quick" else 8,
        "foreign-lock.burst.more-than-2000-rows-waiting-when-the-run-ended": 1 if tier == "quick" else 3,
        "foreign-lock.burst.cancelled-with-more-than-1000-rows-waiting": 2 if tier == "quick" else 6,
        # the pre-existing database has collected further runs: its address / run_meta / scan_run tables differ in size (target of the run new / known)
        "pre-existing-database.holds-further-runs.histories": 300 * k,
        "pre-existing-database.holds-further-runs.target-not-seen-before.number-of-addresses-differs-from-number-of-scan-runs.rows-compared": 400 * k,
        "pre-existing-database.holds-further-runs.target-seen-before.more-runs-than-scan-runs.rows-compared": 400 * k,
        # the client's view of the ECU is reset between two exchanges without a reply (refresh_state(reset_state=True), power_cycle() with a power supply)
        "view-reset.reset.of-a-non-default-view-with-rows-recorded-in-it.rows-compared-afterwards": 150 * k,
        "view-reset.power-cycle.of-a-non-default-view-with-rows-recorded-in-it.rows-compared-afterwards": 40 * k,
        "view-reset.exchange-started-by-the-client-during-reset.rows-compared": 80 * k,
        "view-reset.exchange-started-by-the-client-during-power-cycle.rows-compared": 25 * k,
    }


def lock_fractions(tier: str) -> list[float]:
    """how long the foreign write transaction lasts, as a fraction of the busy timeout the handler configured for itself"""
    return [0.03, 0.12, 0.3, 0.45, 0.62, 0.8] + ([] if tier == "quick" else [1.15])


# ---- generation ------------------------------------------------------------------------------------
class Ex:
    __slots__ = ("req", "cls", "events", "tag", "implicit", "cfg_retry", "edit", "before", "side")

    def __init__(self, req: Any, cls: str, events: list[tuple[Any, ...]], tag: str | None, implicit: bool, cfg_retry: int | None):
        self.req, self.cls, self.events, self.tag, self.implicit, self.cfg_retry = req, cls, events, tag, implicit, cfg_retry
        self.edit = ""  # what the caller does with its objects right after request() came back: "" | "response" | "request" | "both"
        self.before = ""  # what the caller does with the client right before this exchange: "" | "reset" (refresh_state(reset_state=True)) | "power-cycle"
        self.side: list[tuple[Any, ...]] = []  # script of the exchange the client itself starts during that (read of the session / ping)


# ---- usage variation: the caller goes on working with the objects of an exchange that is over --------------------------------
def other_value(v: Any) -> Any:
    """another value of the same type (what a caller does: strips padding, appends, flips a flag, clears a record)"""
    import enum

    if isinstance(v, (bytes, bytearray)):
        return bytes(v[:-1]) if len(v) > 1 else bytes(v) + b"\x55"
    if isinstance(v, bool):
        return not v
    if isinstance(v, enum.Enum):
        members = list(type(v))
        return members[(members.index(v) + 1) % len(members)]
    if isinstance(v, int):
        return v ^ 1
    if isinstance(v, str):
        return v + "x"
    if isinstance(v, list):
        return v[:-1] if len(v) > 1 else v + v
    if isinstance(v, dict) and v:
        return {}
    return v


def scribble(obj: Any) -> int:
    """Re-assigns every public attribute of a request / response object the caller owns (and the pdu of the raw kinds, which has a
    setter) to another value of the same type.  -> number of assignments that took effect"""
    from gallia.services.uds.core import service

    n = 0
    if isinstance(obj, (service.RawRequest, service.RawResponse)):
        p = bytes(obj.pdu)
        new_pdu = p.rstrip(p[-1:]) + b"\xee" if len(p) > 1 else p + b"\xee"
        obj.pdu = new_pdu if new_pdu != p else p + b"\xee"
        n += 1
    for k, v in list(vars(obj).items()):
        if k.startswith("_") or k == "trigger_request":
            continue
        new = other_value(v)
        if new is v or (type(new) is type(v) and new == v):
            continue
        try:
            setattr(obj, k, new)
            n += 1
        except Exception:  # noqa: BLE001  (an attribute without setter: nothing the caller can do to it)
            pass
    return n


def plan_edits(exs: list[Ex], hseed: str) -> None:
    """which exchanges of a history are followed by such an edit (a generator of its own: the histories themselves stay as they were)"""
    rng = random.Random("edit/" + hseed)
    for ex in exs:
        k = rng.random()
        ex.edit = "response" if k < 0.18 else "both" if k < 0.30 else "request" if k < 0.36 else ""


# ---- environment variation: the database file exists already, an earlier run of the released code created it -----------------
FIXTURE = Path(__file__).resolve().parent.parent.parent / "fixtures" / "c11-schema-4.0.sqlite"  # built once by tools/make_c11_fixture.py from /repo
_fixture_rows: list[list[dict[str, Any]]] = []


def fixture_rows() -> list[dict[str, Any]]:
    if not _fixture_rows:
        if not FIXTURE.exists():
            raise RuntimeError(f"{FIXTURE} is missing (tools/make_c11_fixture.py builds it from the unchanged tree)")
        _fixture_rows.append(dh.read_rows(FIXTURE))
    return _fixture_rows[0]


def wants_fixture(hseed: str) -> bool:
    return random.Random("pre/" + hseed).random() < 0.3


# ---- ... and it has collected further runs meanwhile (one database per project: discovery runs, scans of several ECUs) ---------
def age_plan(hseed: str) -> dict[str, Any] | None:
    """what else the project database holds besides the fixture's run (own generator; None: nothing else)"""
    rng = random.Random("aged/" + hseed)
    if rng.random() < 0.25:
        return None
    return {"discovery_runs": rng.choice([0, 1, 1, 2, 3]), "addresses_per_discovery_run": rng.choice([1, 2, 3, 5]),
            "scan_runs": rng.choice([0, 1, 2, 3, 5]), "rows_per_scan_run": rng.choice([0, 1, 3, 8]), "scan_targets": rng.choice([1, 1, 2]),
            "target_seen_before": rng.choice(["no", "no", "discovered", "scanned"])}


def age_database(path: Any, plan: dict[str, Any], target: str) -> None:
    """Appends earlier runs to the copy of the fixture with the sqlite3 module, in the shape the released code writes them (the schema is
    the file's own; the run_meta / scan_result values are copies of the fixture's rows): discovery runs (run_meta, discovery_run, address
    and discovery_result rows), further scan runs of the fixture's ECU and of other ECUs (run_meta, scan_run, scan_result rows), and - if
    wanted - the target of the coming run as an address that was discovered or scanned before.  Never touches the tree under test."""
    con = sqlite3.connect(str(path), timeout=30.0)
    try:
        con.execute("PRAGMA foreign_keys = 1")
        n = [0]

        def run_meta(script: str) -> int:
            n[0] += 1
            cur = con.execute(
                "INSERT INTO run_meta(script, config, start_time, start_timezone, end_time, end_timezone, exit_code, path, exclude) "
                "SELECT ?, config, start_time + ?, start_timezone, end_time + ?, end_timezone, exit_code, path, exclude FROM run_meta ORDER BY id LIMIT 1",
                (script, 60.0 * n[0], 60.0 * n[0]))
            assert cur.lastrowid is not None
            return cur.lastrowid

        def address(url: str) -> None:
            con.execute("INSERT OR IGNORE INTO address(url) VALUES(?)", (url,))

        def scan_run(url: str, rows: int) -> None:
            address(url)
            meta = run_meta("vf.c11.earlier-scan")
            cur = con.execute("INSERT INTO scan_run(address, meta) VALUES((SELECT id FROM address WHERE url = ?), ?)", (url, meta))
            con.execute(
                "INSERT INTO scan_result(run, log_mode, state, request_pdu, request_time, request_timezone, request_data, response_pdu, response_time, "
                "response_timezone, response_data, exception) SELECT ?, log_mode, state, request_pdu, request_time, request_timezone, request_data, response_pdu, "
                "response_time, response_timezone, response_data, exception FROM scan_result WHERE run = (SELECT min(id) FROM scan_run) ORDER BY id LIMIT ?",
                (cur.lastrowid, rows))

        first = con.execute("SELECT url FROM address ORDER BY id LIMIT 1").fetchone()[0]
        for d in range(plan["discovery_runs"]):
            meta = run_meta("vf.c11.earlier-discovery")
            cur = con.execute("INSERT INTO discovery_run(protocol, meta) VALUES('vf', ?)", (meta,))
            for a in range(plan["addresses_per_discovery_run"]):
                url = f"vf://c11/discovered/{d}/{a}"
                address(url)
                con.execute("INSERT INTO discovery_result(run, address) VALUES(?, (SELECT id FROM address WHERE url = ?))", (cur.lastrowid, url))
            if d == 0 and plan["target_seen_before"] == "discovered":
                address(target)
                con.execute("INSERT INTO discovery_result(run, address) VALUES(?, (SELECT id FROM address WHERE url = ?))", (cur.lastrowid, target))
        for k in range(plan["scan_runs"]):
            j = k % plan["scan_targets"]
            scan_run(first if j == 0 else f"vf://c11/other-ecu/{j}", plan["rows_per_scan_run"])
        if plan["target_seen_before"] == "scanned":
            scan_run(target, plan["rows_per_scan_run"])
        elif plan["target_seen_before"] == "discovered":
            address(target)  # (no discovery run in the plan: the address is known from an import)
        con.commit()
    finally:
        con.close()


def read_scan_runs(path: Any) -> list[tuple[int, str | None, int | None]]:
    """(id, url of its address, run_meta id) of every scan_run row, with the sqlite3 module"""
    con = sqlite3.connect(f"file:{path}?mode=ro", uri=True)
    try:
        return [tuple(r) for r in con.execute("SELECT sr.id, a.url, sr.meta FROM scan_run sr LEFT JOIN address a ON a.id = sr.address ORDER BY sr.id")]
    finally:
        con.close()


def plant_database(path: Any, hseed: str, target: str) -> dict[str, Any]:
    """the history's database file starts as a copy of the earlier run's file, grown by what age_plan(hseed) says;
    -> what is in it before the handler under test connects"""
    shutil.copyfile(FIXTURE, path)
    plan = age_plan(hseed)
    if plan is None:
        rows = fixture_rows()
    else:
        age_database(path, plan, target)
        rows = dh.read_rows(path)
    con = sqlite3.connect(f"file:{path}?mode=ro", uri=True)
    try:
        counts = {t: con.execute(f"SELECT count(*) FROM {t}").fetchone()[0] for t in ("address", "run_meta", "scan_run")}
        seen = con.execute("SELECT count(*) FROM address WHERE url = ?", (target,)).fetchone()[0] > 0
    finally:
        con.close()
    return {"rows": rows, "plan": plan, "counts": counts, "target_seen_before": seen, "scan_runs": [r[0] for r in read_scan_runs(path)]}


def own_scan_run(spec: dict[str, Any], path: Any, before: list[int], target: str) -> None:
    """Which scan_run row is this run's own, told from the file alone: the one row that was not there before the handler was connected;
    it must name the run's target.  (If that cannot be told - no such row, several - the rows are judged against the handler's word only.)"""
    runs = read_scan_runs(path)
    new = [r for r in runs if r[0] not in set(before)]
    if len(new) == 1 and new[0][1] == target:
        spec["own_run"] = {"id": new[0][0], "scan_runs_before": sorted(before)}
    else:
        spec["own_run"] = {"id": None, "new_scan_run_rows": [list(r) for r in new][:6]}


# ---- usage variation: the client's view of the ECU changes between two exchanges without a reply being involved --------------
DEFAULT_VIEW: dict[str, Any] = {"session": 1, "security_access_level": None}


class BenchSupply:
    """Stands in for gallia.power_supply.PowerSupply (same power_cycle() contract: off, wait, on, then the callback); no device."""

    def __init__(self) -> None:
        self.cycles = 0

    async def power_cycle(self, sleep: float = 2.0, callback: Any = None) -> None:
        self.cycles += 1
        await asyncio.sleep(0)
        if callback is not None:
            await callback()


def make_ecu11(transport: Any, handler: Any, max_retry: int) -> Any:
    """dh.make_ecu with a power supply, as a subclass whose request() tells the harness about the exchanges the client starts on its
    own while the caller is inside ECU.power_cycle() / ECU.refresh_state() (`side`, set by the driver for the time of that call)"""
    from gallia.services.uds.ecu import ECU

    class ECU11(ECU):
        side: Any = None

        async def request(self, request: Any, config: Any = None) -> Any:  # type: ignore[override]
            if self.side is None:
                return await super().request(request, config)
            return await self.side(super().request, request, config)

    ecu = ECU11(transport, timeout=0.05, max_retry=max_retry, power_supply=BenchSupply())  # type: ignore[arg-type]
    ecu.retry_wait = 0.0
    ecu.db_handler = handler
    return ecu


def plan_view_ops(exs: list[Ex], hseed: str, max_retry: int, crash: tuple[Any, ...]) -> None:
    """In some histories the caller, between two exchanges, resets the client's view of the ECU through the client's own API: ECU.refresh_state(
    reset_state=True) (the view is reset, then the session is read: an exchange 22 F1 86 with any outcome) or - the client was given a power
    supply - ECU.power_cycle() (ECU switched off and on, a ping until it answers, then the view is reset).  Own generator; the place is
    preferably one where the replies scripted so far leave the client in a non-default session."""
    rng = random.Random("view/" + hseed)
    n = len(exs)
    last = n - 1 if crash[0] == "none" else crash[1] - 1 if crash[0] in ("cancel-between", "raise-between") else crash[1]
    if last < 1:
        return
    # places where the replies scripted so far leave the client in a non-default view (cand), and where moreover the exchange before was
    # made in that very view with logging on (strong): a bias of the generator, nothing the oracle relies on
    shadow, views = dict(DEFAULT_VIEW), []
    for ex in exs[: last + 1]:
        views.append(shadow)
        try:
            fin = ex.events[-1] if ex.events and ex.events[-1][0] == "reply" else None
            if fin is not None and fin[1][0] == (ex.req.pdu[0] + 0x40) & 0xFF:
                shadow = shadow_apply(shadow, fin[1])
        except Exception:  # noqa: BLE001
            pass
    cand = [i for i in range(1, last + 1) if views[i] != DEFAULT_VIEW]
    strong = [i for i in cand if views[i - 1] == views[i] and exs[i - 1].implicit]
    k = rng.random()
    if cand:
        kind = "power-cycle" if k < 0.14 else "reset" if k < 0.5 else ""
    else:
        kind = "power-cycle" if k < 0.01 else "reset" if k < 0.07 else ""
    if not kind:
        return
    at = rng.choice(strong) if strong and rng.random() < 0.8 else rng.choice(cand) if cand and rng.random() < 0.85 else rng.randint(1, last)
    ex = exs[at]
    ex.before = kind
    if kind == "power-cycle":
        ex.side = [("reply", b"\x7e\x00")] if rng.random() < 0.75 else [("reply", bytes([0x7F, 0x3E, rng.choice(NRCS)]))]
    else:
        sess = rng.choice([1, 1, 1, 3, rng.randrange(1, 128)])
        ex.side = build_events(rng, b"\x22\xf1\x86", bytes([0x62, 0xF1, 0x86, sess]), max_retry)


def build_request(rng: random.Random) -> tuple[Any, str, bytes, bytes | None]:
    """-> (request object, kind name, expected bytes, forced final reply or None)"""
    from gallia.services.uds.core import service
    from vf.checks import c02

    k = rng.random()
    if k < 0.22:
        # requests whose genuine replies move the client's view of the ECU state
        j = rng.randrange(5)
        if j == 0:
            lvl = rng.choice([1, 2, 3, 0x40, 0x7F, rng.randrange(1, 128)])
            r = service.DiagnosticSessionControlRequest(lvl)
            return r, "DiagnosticSessionControlRequest", r.pdu, None
        if j == 1:
            lvl = rng.choice([2, 4, 0x12, 0x62, rng.randrange(1, 63) * 2])
            r = service.SendKeyRequest(lvl, rng.randbytes(rng.randint(1, 6)))
            return r, "SendKeyRequest", r.pdu, bytes([0x67, lvl])
        if j == 2:
            r = service.ECUResetRequest(rng.choice([1, 2, 3]))
            return r, "ECUResetRequest", r.pdu, None
        if j == 3:
            r = service.ReadDataByIdentifierRequest(0xF186)
            return r, "ReadDataByIdentifierRequest", r.pdu, bytes([0x62, 0xF1, 0x86, rng.choice([1, 2, 3, 0x40, rng.randrange(1, 128)])])
        lvl = rng.choice([1, 3, 0x11, 0x61])
        r = service.RequestSeedRequest(lvl)
        return r, "RequestSeedRequest", r.pdu, bytes([0x67, lvl]) + rng.randbytes(rng.randint(1, 8))
    if k < 0.62:
        for _ in range(20):
            c = gen_uds.any_valid_request(rng)
            if c.expect is None:
                continue
            r = getattr(service, c.cls)(*c.args, **c.kwargs)
            return r, c.cls, c.expect, None
    if k < 0.75:
        n = rng.choice([1, 1, 2, 3, 4, 8, 16])
        b = rng.choice([bytes([rng.randrange(256)]) + rng.randbytes(n - 1), bytes([rng.choice(iso.REQUEST_SIDS)]) + rng.randbytes(n - 1)])
        return service.RawRequest(b), "RawRequest", b, None
    # reply first: a valid response of any kind, asked for by a raw request of the matching service
    rep = c02.gen_valid(rng)
    sid = rep[1] if rep[0] == 0x7F else rep[0] - 0x40
    if rep[0] == 0x7F and rep[2] in (0x78, 0x21):
        rep = rep[:2] + b"\x31"
    b = bytes([sid])
    return service.RawRequest(b), "RawRequest", b, rep


def malformed_reply(rng: random.Random, q: bytes, genuine: bytes | None) -> bytes:
    j = rng.randrange(6)
    if j == 0 and genuine is not None and len(genuine) > 1:
        return genuine[: rng.randint(1, len(genuine) - 1)]
    if j == 1:
        return bytes([0x7F, q[0]])
    if j == 2:
        return bytes([(q[0] + 0x40) & 0xFF])
    if j == 3:
        return bytes([0x7F, q[0], rng.choice(NRCS), 0x00])
    if j == 4:
        return b"\x7f"
    return bytes([(q[0] + 0x40) & 0xFF]) + rng.randbytes(rng.choice([1, 2]))


def final_events(rng: random.Random, q: bytes, forced: bytes | None, allow_silence: bool = True) -> list[tuple[Any, ...]]:
    from vf.checks import c02

    genuine = forced if forced is not None else (iso.genuine_positive(q) if iso.request_wellformed(q) else None)
    k = rng.random()
    if k < 0.42:
        if genuine is not None:
            return [("reply", genuine)]
        return [("reply", bytes([0x7F, q[0], rng.choice(NRCS)]))]
    if k < 0.57:
        return [("reply", bytes([0x7F, q[0], rng.choice(NRCS + [rng.randrange(256)])]))]
    if k < 0.67:
        r = c02.gen_valid(rng)
        if rng.random() < 0.3:
            r = bytes([0x7F, (q[0] + 1 + rng.randrange(254)) & 0xFF, rng.choice(NRCS)])
        return [("reply", r)]
    if k < 0.77:
        return [("reply", malformed_reply(rng, q, genuine))]
    if k < 0.80:
        return [("X",)]
    if not allow_silence:
        return [("reply", bytes([0x7F, q[0], 0x31]))]
    return []  # silence / faults are put in front by the caller


def build_events(rng: random.Random, q: bytes, forced: bytes | None, max_retry: int) -> list[tuple[Any, ...]]:
    pending = ("reply", bytes([0x7F, q[0], 0x78]))
    busy = ("reply", bytes([0x7F, q[0], 0x21]))
    ev: list[tuple[Any, ...]] = []
    # faults that consume attempts
    nfault = rng.choice([0, 0, 0, 0, 1, 1, 2, 3])
    for _ in range(nfault):
        ev.append(rng.choice([("T",), ("T",), ("C",), ("C",), ("E",), ("W",), busy]))
    k = rng.random()
    if k < 0.18:
        ev += [pending] * rng.choice([1, 1, 2, 3, 5])
        if rng.random() < 0.3:
            ev += [("T",)] * rng.choice([1, 2, 5])
            if rng.random() < 0.5:
                ev += [pending]
        j = rng.random()
        if j < 0.1:
            return ev + [("T",)] * 45  # silence after pending until the client gives up
        if j < 0.2:
            return ev + [("C",)]
        return ev + final_events(rng, q, forced, allow_silence=False)
    fin = final_events(rng, q, forced)
    if not fin:
        # nothing but faults for every attempt
        f = rng.choice(["T", "T", "C", "E", "W", "mix"])
        for _ in range(max_retry + 1):
            ev.append((rng.choice(["T", "C", "E", "W"]),) if f == "mix" else (f,))
        return ev
    return ev + fin


def gen_history(hseed: str) -> dict[str, Any]:
    from gallia.services.uds.core.client import UDSRequestConfig  # noqa: F401

    rng = random.Random(hseed)
    n = rng.choice([1, 1, 2, 3, 25, rng.randint(1, 25), rng.randint(1, 25), rng.randint(4, 25)])
    max_retry = rng.randrange(3)
    implicit = rng.random() < 0.85
    exs: list[Ex] = []
    for _ in range(n):
        if rng.random() < 0.12:
            implicit = not implicit
        req, cls, expect, forced = build_request(rng)
        cfg_retry = rng.randrange(3) if rng.random() < 0.15 else None
        mr = cfg_retry if cfg_retry is not None else max_retry
        events = build_events(rng, expect, forced, mr)
        t = rng.random()
        tag = "ANALYZE" if t < 0.25 else "ANALYZE+" if t < 0.30 else "OTHER" if t < 0.38 else "EMPTY" if t < 0.45 else None
        exs.append(Ex(req, cls, events, tag, implicit, cfg_retry))
    c = rng.random()
    crash: tuple[Any, ...]
    if c < 0.40:
        crash = ("none",)
    elif c < 0.52:
        crash = ("cancel-between", rng.randint(0, n))
    elif c < 0.62:
        crash = ("raise-between", rng.randint(0, n))
    elif c < 0.92:
        k = rng.randrange(n)
        evs = exs[k].events
        # before the first read, or after some of the events that keep the exchange going
        lead = 0
        while lead < len(evs) and (evs[lead][0] in ("T", "C", "E") or (evs[lead][0] == "reply" and evs[lead][1][:1] == b"\x7f" and evs[lead][1][2:3] in (b"\x78", b"\x21"))):
            lead += 1
        j = 0 if rng.random() < 0.6 else rng.randint(0, min(lead, 6))
        exs[k].events = evs[:j] + [("G",)] + evs[j:]
        crash = ("cancel-mid", k, j)
    else:
        k = rng.randrange(n)
        exs[k].events = [("X",)]
        crash = ("raise-mid", k)
    plan_edits(exs, hseed)
    plan_view_ops(exs, hseed, max_retry, crash)
    return {"hseed": hseed, "max_retry": max_retry, "ex": exs, "crash": crash, "pre": wants_fixture(hseed)}


def gen_wf_history(hseed: str) -> dict[str, Any]:
    """a history without crash point plus a plan of writer faults: which rows (in transmission order) fail how often in a row with
    'database is locked', how the driver is paced against the writer, and how soon disconnect() follows the last request"""
    rng = random.Random("wf/" + hseed)
    n = rng.choice([1, 1, 2, 2, 3, 4, 6, rng.randint(1, 10)])
    long_run = rng.random() < 0.12
    if long_run:
        n = rng.randint(14, 25)  # a long run in which many rows meet a transient fault once (each followed by successful writes)
    max_retry = rng.randrange(3)
    exs: list[Ex] = []
    for i in range(n):
        req, cls, expect, forced = build_request(rng)
        events = build_events(rng, expect, forced, max_retry)
        t = rng.random()
        tag = "ANALYZE" if t < 0.2 else "OTHER" if t < 0.3 else None
        # the last exchange is always logged: it is the row disconnect() has to wait for
        exs.append(Ex(req, cls, events, tag, i == n - 1 or rng.random() < 0.92, None))
    logged = sum(1 for e in exs if e.implicit)
    plan: dict[str, int] = {}
    k = rng.random()
    if long_run:
        for r in range(logged):
            if rng.random() < 0.75:
                plan[str(r)] = rng.choice([1, 1, 2])
    elif k < 0.55:
        plan[str(logged - 1)] = rng.choice([1, 2, 2, 3, 3])
    elif k < 0.65:
        plan[str(logged - 1)] = rng.choice([2, 3])
        if logged > 1:
            plan[str(rng.randrange(logged - 1))] = rng.choice([1, 2, 3])
    else:
        for _ in range(rng.choice([1, 1, 2, 3])):
            plan[str(rng.randrange(logged))] = rng.choice([1, 2, 3, 3])
    c = rng.random()
    close = "immediately" if c < 0.6 else f"yield-{rng.randint(1, 4)}" if c < 0.85 else "drain"
    pk = rng.random()
    pace = [("none" if pk < 0.5 else "drain" if pk < 0.7 else rng.choice(["none", "drain", "yield-1", "yield-3"])) for _ in range(max(0, n - 1))]
    wf = {"plan": plan, "yields": rng.choice([1, 1, 1, 2, 3]), "pause": rng.choice([0.0, 0.0, 0.0, 0.0, 0.001]), "close": close, "pace": pace}
    plan_edits(exs, "wf/" + hseed)
    return {"hseed": hseed, "max_retry": max_retry, "ex": exs, "crash": ("none",), "wf": wf, "pre": wants_fixture("wf/" + hseed)}


def make_cfg(ex: Ex) -> Any:
    from gallia.services.uds.core.client import UDSRequestConfig

    if ex.tag is None and ex.cfg_retry is None:
        return None
    tags = {"ANALYZE": ["ANALYZE"], "ANALYZE+": ["scan", "ANALYZE", "x"], "OTHER": ["analyze", "OTHER"], "EMPTY": [], None: None}[ex.tag]
    return UDSRequestConfig(tags=tags, max_retry=ex.cfg_retry)


# ---- state shadow (the statement's rule, applied to the final reply of every exchange) -----------------
def shadow_apply(state: dict[str, Any], reply: bytes | None) -> dict[str, Any]:
    if reply is None or iso.decode_response(reply) is None:
        return state
    s = dict(state)
    if reply[0] == 0x50:
        s["session"], s["security_access_level"] = reply[1], None
    elif reply[0] == 0x62 and reply[1:3] == b"\xf1\x86":
        new = int.from_bytes(reply[3:], "big")
        if new != s["session"]:
            s["session"], s["security_access_level"] = new, None
    elif reply[0] == 0x67 and reply[1] % 2 == 0:
        s["security_access_level"] = reply[1] - 1
    elif reply[0] == 0x51:
        s["session"], s["security_access_level"] = 1, None
    return s


def have_reply(o: Any) -> bool:
    """request() handed a response object to the caller (returned it, or raised an exception that carries it)"""
    return o.result is not None and (o.result[0] == "ok" or (o.result[0] == "exc" and getattr(o.result[1], "response", None) is not None))


def final_reply(wire: list[tuple[Any, ...]], q0: int) -> bytes | None:
    """the reply that ended the exchange according to the wire log: the last thing a read delivered, unless that was a
    fault, the end of the stream or a further ResponsePending"""
    reads = [e for e in wire if e[0] == "read"]
    if not reads:
        return None
    last = reads[-1][1]
    if not isinstance(last, bytes) or last == b"" or last == bytes([0x7F, q0, 0x78]):
        return None
    return last


# ---- one history -----------------------------------------------------------------------------------------
class Obs:
    def __init__(self, i: int, ex: Ex, snapshot: dict[str, Any], start: int):
        self.i, self.ex, self.snapshot, self.start = i, ex, snapshot, start
        self.end = start
        self.result: tuple[Any, ...] | None = None
        self.lost: list[str] = []
        self.after: dict[str, Any] = {}
        self.rep = ""  # repr() of what request() returned / raised, taken before the caller touches the objects
        self.edited = 0  # assignments the caller made to the request / response object after request() came back
        self.side = ""  # the client started this exchange on its own while the caller was inside: "" | "reset" | "power-cycle"
        self.reset_before: dict[str, Any] | None = None  # the client's view was reset (without a reply) and this is the first exchange after that


class Boom(Exception):
    pass


class Wire11(dh.WireTransport, scheme="vfwire11"):  # type: ignore[call-arg,misc]
    """the scripted transport, which also says whether the client is inside one of its calls right now"""

    def __init__(self) -> None:
        super().__init__()
        self.inside = 0

    async def write(self, data: bytes, timeout: float | None = None, tags: list[str] | None = None) -> int:
        self.inside += 1
        try:
            return await super().write(data, timeout, tags)
        finally:
            self.inside -= 1

    async def read(self, timeout: float | None = None, tags: list[str] | None = None) -> bytes:
        self.inside += 1
        try:
            return await super().read(timeout, tags)
        finally:
            self.inside -= 1


class Watched(collections.abc.Coroutine):  # type: ignore[type-arg]
    """Stands between a task and its coroutine (as Stepped below, without the bookkeeping): after every step that ends in a
    suspension, `on_suspend(what the task waits for)` is called - a future, or None for a bare scheduling point."""

    def __init__(self, coro: Any, on_suspend: Any) -> None:
        self.coro, self.on_suspend = coro, on_suspend

    def send(self, value: Any) -> Any:
        y = self.coro.send(value)
        self.on_suspend(y)
        return y

    def throw(self, *a: Any) -> Any:
        y = self.coro.throw(*a)
        self.on_suspend(y)
        return y

    def close(self) -> None:
        self.coro.close()

    def __await__(self) -> Any:
        return self.coro.__await__()

    def __getattr__(self, name: str) -> Any:
        return getattr(self.coro, name)


class InsertWatch:
    """Counts the INSERTs into scan_result that reach the handler's sqlite connection (wrapper around the connection object's
    execute, an instance attribute: gallia's code is not touched, nothing is delayed or failed)."""

    def __init__(self) -> None:
        self.attempts = 0

    def install(self, handler: Any) -> None:
        conn = handler.connection
        assert conn is not None
        orig = conn.execute

        def execute(sql: Any, parameters: Any = None) -> Any:
            if isinstance(sql, str) and sql.startswith(dh.WriterFaults.INSERT):
                self.attempts += 1
            return orig(sql, parameters)

        conn.execute = execute


def retry_limit(rows: int) -> int:
    """INSERT attempts after which a disconnect() that still has not returned is given up: far more than any contention the
    harness creates can cause (a foreign transaction that outlasts the busy timeout costs a row one or two retries)"""
    return 8 * rows + 64


class WriterFaults11(dh.WriterFaults):
    """dh.WriterFaults follows a row through its retries by the identity of its parameter tuple.  A writer may as well build the
    tuple anew for every attempt: a tuple that was not seen before is taken for the retry of a row whose last attempt failed if it
    has the same content (failing that: the same run, send time and request bytes), and only otherwise for a new row.  Every tuple
    seen is kept alive, so identities are never reused."""

    def __init__(self, plan: dict[Any, int], yields: int = 1, pause: float = 0.0) -> None:
        super().__init__(plan, yields, pause)
        self._keep: list[Any] = []
        self._awaiting_retry: set[int] = set()
        self.rebuilt = 0

    def install(self, handler: Any) -> None:
        import aiosqlite

        conn = handler.connection
        assert conn is not None
        orig = conn.execute

        async def locked() -> Any:
            for _ in range(self.yields):
                await asyncio.sleep(0)
            if self.pause:
                await asyncio.sleep(self.pause)
            raise aiosqlite.OperationalError("database is locked")

        def key(p: tuple[Any, ...]) -> Any:
            return (p[0], p[3], p[2]) if len(p) > 3 else p

        def ordinal(parameters: tuple[Any, ...]) -> int:
            n = self._ordinal.get(id(parameters))
            if n is not None:
                return n
            self._keep.append(parameters)
            for same in (lambda m: self.rows[m] == parameters, lambda m: key(self.rows[m]) == key(parameters)):
                for m in sorted(self._awaiting_retry):
                    if same(m):
                        self._ordinal[id(parameters)] = m
                        self.rebuilt += 1
                        return m
            n = len(self.rows)
            self.rows.append(parameters)
            self._ordinal[id(parameters)] = n
            return n

        def execute(sql: Any, parameters: Any = None) -> Any:
            if isinstance(sql, str) and sql.startswith(self.INSERT) and isinstance(parameters, tuple):
                n = ordinal(parameters)
                q = handler._execute_queue
                behind = q.qsize() if q is not None else -1
                if self.left.get(n, 0) > 0:
                    self.left[n] -= 1
                    self.attempts.append([n, "fail", self.closing, behind])
                    self._awaiting_retry.add(n)
                    return locked()
                self.attempts.append([n, "pass", self.closing, behind])
                self._awaiting_retry.discard(n)
            return orig(sql, parameters)

        conn.execute = execute


# ---- usage variations: a foreign write transaction while the handler is closed; one handler object used again -------------
_HIST: contextvars.ContextVar[Any] = contextvars.ContextVar("c11_history_view", default=None)
WRITER_ENDED_GRACE_S = 5.0  # wall clock; see close_watching_writer
_writer_ended = [0]  # disconnect() calls of this process that were given up because the writer task had ended


class HistView:
    """what one history (one of several running on the same loop) sees of gallia's warnings: same interface as dh.Catcher.
    The records are attributed through a context variable set in the history's own task (tasks it creates - the handler's
    writer task - inherit it)."""

    def __init__(self) -> None:
        self.lost: list[str] = []
        self.retries = 0

    def take_lost(self) -> list[str]:
        out, self.lost = self.lost, []
        return out


class _SplitHandler(logging.Handler):
    def emit(self, record: logging.LogRecord) -> None:
        view = _HIST.get()
        if view is None:
            return
        try:
            msg = record.getMessage()
        except Exception:  # noqa: BLE001
            msg = str(record.msg)
        if dh.LOST_ROW_MSG in msg:
            view.lost.append(msg)
        elif "Retrying" in msg:
            view.retries += 1  # the writer met an OperationalError and queued the row again (order by id may change)


_split: list[Any] = []


def install_split_handler() -> None:
    if not _split:
        dh.install_catcher()
        _split.append(_SplitHandler(level=logging.WARNING))
        logging.getLogger("gallia").addHandler(_split[0])


class ForeignWriter:
    """Another user of the same database file (a second gallia process, a database browser): its own sqlite3 connection which
    opens a write transaction (BEGIN IMMEDIATE), keeps it for `hold_s` seconds of real time and rolls it back (hold_s None: keeps it
    until end() is called)."""

    def __init__(self, path: Any, hold_s: float | None) -> None:
        self.path, self.hold_s = path, hold_s
        self.con: sqlite3.Connection | None = None
        self.t0: float | None = None
        self.t1: float | None = None
        self.timer: Any = None

    async def begin(self) -> None:
        def work() -> sqlite3.Connection:
            con = sqlite3.connect(str(self.path), timeout=60.0, isolation_level=None, check_same_thread=False)
            try:
                con.execute("BEGIN IMMEDIATE")
            except BaseException:
                con.close()
                raise
            return con

        self.con = await asyncio.to_thread(work)  # may have to wait a moment for the handler's writer: not on the loop's thread
        self.t0 = time.monotonic()
        if self.hold_s is not None:
            self.timer = asyncio.get_running_loop().call_later(self.hold_s, self.end)

    def end(self) -> None:
        if self.timer is not None:
            self.timer.cancel()
        if self.con is not None:
            con, self.con = self.con, None
            try:
                con.rollback()
            finally:
                con.close()
            self.t1 = time.monotonic()


async def busy_timeout_s(handler: Any) -> float:
    """the busy timeout the handler configured on its own connection (read back, not assumed)"""
    cur = await dh.guarded(handler.connection.execute("PRAGMA busy_timeout"), "connection.execute")
    row = await cur.fetchone()
    await cur.close()
    ms = int(row[0]) if row else 0
    return ms / 1000.0 if ms >= 1000 else 10.0


async def reopen(handler: Any, spec: dict[str, Any]) -> None:
    """the next session of a handler object that lives longer than one event loop: connect() again; the first session creates
    the run and the scan run, a later one goes on with the scan run or starts a new one"""
    import gallia.command  # noqa: F401
    from gallia.command.config import GalliaBaseModel

    class _Cfg(GalliaBaseModel):
        pass

    sess = spec["reuse"]
    try:
        await dh.guarded(handler.connect(), "connect")
        if sess["scan_run"] == "first":
            await dh.guarded(handler.insert_run_meta(script="vf.c11.reuse", config=_Cfg(), start_time=datetime.now(UTC).astimezone(), path=None), "insert_run_meta")
        if sess["scan_run"] in ("first", "new"):
            await dh.guarded(handler.insert_scan_run("vf://c11r/" + spec["hseed"]), "insert_scan_run")
    except BaseException:
        await dh.force_close(handler)
        raise


async def close_watching_writer(handler: Any, watch: Any = None, rows: int = 0) -> str | None:
    """disconnect() as entry_point's finally does.  -> the reason if it was given up (else None): the handler's writer task had ended and
    disconnect() still had not returned WRITER_ENDED_GRACE_S later (after the writer has ended, all that is left to do is commit
    and close).  A writer task that has ended cannot write the rows that are still queued, however long one waits, so the file
    is then closed by force and judged as it is.  With a writer that is still alive a count applies: it has attempted more than
    retry_limit(rows) INSERTs for `rows` rows and disconnect() is still waiting - a writer that tries the same rows again and again
    although nobody else holds the database will not finish either (a count, not a time).  Otherwise the wall-clock guard applies as
    elsewhere.  (From the third given-up disconnect() of a process on, the grace after the writer's end is 1 s.)"""
    writer = getattr(handler, "_executor_task", None)
    t = asyncio.ensure_future(handler.disconnect())
    t0 = time.monotonic()
    ended_at: float | None = None
    try:
        while True:
            done, _ = await asyncio.wait({t}, timeout=0.1)
            if done:
                t.result()
                return None
            now = time.monotonic()
            if writer is not None and writer.done():
                ended_at = now if ended_at is None else ended_at
                grace = WRITER_ENDED_GRACE_S if _writer_ended[0] < 2 else 1.0
                if now - ended_at > grace:
                    _writer_ended[0] += 1
                    t.cancel()
                    await asyncio.gather(t, return_exceptions=True)
                    await dh.force_close(handler)
                    return f"disconnect() had not returned {grace:.0f} s after the handler's writer task ended: closed by force"
            if watch is not None and watch.attempts > retry_limit(rows):
                n = watch.attempts
                t.cancel()
                await asyncio.gather(t, return_exceptions=True)
                await dh.force_close(handler)
                return f"disconnect() had not returned after the writer attempted {n} INSERTs for {rows} row(s): closed by force"
            if now - t0 > DISCONNECT_GUARD_S:
                raise TimeoutError(f"disconnect() did not return within {DISCONNECT_GUARD_S}s and the writer task is alive")
    except BaseException:
        if not t.done():
            t.cancel()
            await asyncio.gather(t, return_exceptions=True)
        await dh.force_close(handler)
        raise


async def run_history(ctx: Any, spec: dict[str, Any], path: Any, catch: Any, handler: Any = None, st: dict[str, Any] | None = None) -> str:
    sess: dict[str, Any] | None = spec.get("reuse")
    lockp: dict[str, Any] | None = spec.get("lock")
    burst: dict[str, Any] | None = spec.get("burst")
    earlier: list[dict[str, Any]] = []  # rows that were in the file before this handler was connected
    runs_before: list[int] = []  # scan_run rows that were in it
    target = ("vf://c11r/" if sess is not None else "vf://c11/") + spec["hseed"]
    if handler is None:
        if spec.get("pre"):
            # the run is appended to the database an earlier run of the released code left behind (and which may have collected further runs since)
            planted = plant_database(path, spec["hseed"], target)
            earlier, runs_before = planted["rows"], planted["scan_runs"]
            spec["planted"] = {k: planted[k] for k in ("plan", "counts", "target_seen_before")}
        try:
            handler = await dh.open_handler(path, target)
        except dh.HandlerStep as e:
            if earlier and e.step == "connect" and e.kind == "raises":
                # a tree that refuses the older file outright has no database configured: nothing to judge (and the reach
                # requirements of this dimension then say that the fixture no longer fits the tree)
                ctx.reach("pre-existing-database.refused-by-connect")
                return "refused"
            raise
    else:
        assert st is not None and sess is not None
        runs_before = st.get("scan_runs", [])
        await reopen(handler, spec)
    watch: InsertWatch | None = None
    if spec.get("wf") is None:
        watch = InsertWatch()
        watch.install(handler)
    if burst is not None:
        # harness configuration, as for the concurrent-cancel family: thousands of rows, each committed on its own; no fsync per commit
        await dh.guarded(handler.connection.execute("PRAGMA synchronous = OFF"), "connection.execute")
    fw: ForeignWriter | None = None
    lock_obs: dict[str, Any] = {}

    async def take_lock() -> None:
        nonlocal fw
        if lockp is None or fw is not None:
            return
        busy = await busy_timeout_s(handler)
        fw = ForeignWriter(path, lockp["frac"] * busy if lockp["frac"] is not None else None)
        lock_obs.update({"busy_timeout_s": busy, "hold_s": fw.hold_s, "taken_before_exchange": len(obs)})
        await fw.begin()

    tr = Wire11()
    with_view_op = any(ex.before for ex in spec["ex"])
    ecu = make_ecu11(tr, handler, spec["max_retry"]) if with_view_op else dh.make_ecu(tr, handler, spec["max_retry"])
    obs: list[Obs] = []
    view_reset: list[dict[str, Any]] = []  # a reset of the client's view that the next exchange is the first to follow
    crash = spec["crash"]
    parked = asyncio.Event()
    catch.take_lost()
    wfp: dict[str, Any] | None = spec.get("wf")
    wf: dh.WriterFaults | None = None
    if wfp is not None:
        wf = WriterFaults11(wfp["plan"], wfp["yields"], wfp["pause"])
        wf.install(handler)

    async def writer_idle() -> None:
        """bounded wait until the writer has handed every row it was given to sqlite (harness pacing, not an oracle)"""
        assert wf is not None
        for _ in range(400):
            q = handler._execute_queue
            if q is not None and q.qsize() == 0 and len(wf.passed()) >= len(wf.rows) and wf.attempts and wf.attempts[-1][1] == "pass":
                await asyncio.sleep(0.002)  # the commit that follows the INSERT
                return
            await asyncio.sleep(0.001)

    async def pace(kind: str) -> None:
        if kind == "drain":
            await writer_idle()
        elif kind.startswith("yield-"):
            for _ in range(int(kind[6:])):
                await asyncio.sleep(0)

    async def view_op(ex: Ex) -> None:
        """the caller resets the client's view of the ECU through the client's API; exchanges the client starts meanwhile are observed as the
        caller's own are (view before the request taken when request() is entered)"""

        async def side(call: Any, request: Any, config: Any) -> Any:
            sx = Ex(request, type(request).__name__, list(ex.side), None, ecu.implicit_logging, None)
            o = Obs(len(obs), sx, dict(ecu.state.__dict__), len(tr.log))
            o.side = ex.before
            if view_reset:
                o.reset_before = view_reset.pop()
            obs.append(o)
            tr.arm(sx.events)
            try:
                r = await call(request, config)
                o.result = ("ok", r)
                return r
            except asyncio.CancelledError:
                o.result = ("cancelled",)
                raise
            except Exception as e:  # noqa: BLE001
                o.result = ("exc", e)
                o.rep = repr(e)
                raise
            finally:
                o.end = len(tr.log)
                o.lost = catch.take_lost()
                o.after = dict(ecu.state.__dict__)

        before = dict(ecu.state.__dict__)
        ecu.side = side
        try:
            if ex.before == "power-cycle":
                # ECU.power_cycle(): supply off / on, wait_for_ecu() pings (after 0.5 s of real time) until the ECU answers, then the view is reset
                done = await ecu.power_cycle(sleep=0)
                if done is not True or ecu.power_supply.cycles < 1:
                    raise RuntimeError(f"harness: ECU.power_cycle() returned {done!r} after {ecu.power_supply.cycles} cycle(s) of the supply")
                view_reset.append({"how": "power-cycle", "view_before": before})
            else:
                # ECU.refresh_state(reset_state=True): the view is reset, then the session is read from the ECU
                view_reset.append({"how": "reset", "view_before": before})
                try:
                    await ecu.refresh_state(reset_state=True)
                except asyncio.CancelledError:
                    raise
                except Exception:  # noqa: BLE001  (no reply, a negative or an unusable reply to the read of the session: the caller goes on)
                    pass
        finally:
            ecu.side = None

    async def driver() -> None:
        for i, ex in enumerate(spec["ex"]):
            if wfp is not None and i:
                await pace(wfp["pace"][i - 1])
            if lockp is not None and lockp["at"] == i:
                await take_lock()
            if crash[0] == "cancel-between" and crash[1] == i:
                parked.set()
                await asyncio.get_running_loop().create_future()
            if crash[0] == "raise-between" and crash[1] == i:
                raise Boom()
            ecu.implicit_logging = ex.implicit
            if ex.before:
                await view_op(ex)
            o = Obs(len(obs), ex, dict(ecu.state.__dict__), len(tr.log))
            if view_reset:
                o.reset_before = view_reset.pop()
            obs.append(o)
            tr.arm(ex.events)
            try:
                o.result = ("ok", await ecu.request(ex.req, make_cfg(ex)))
                if ex.edit:
                    o.rep = repr(o.result[1])
            except asyncio.CancelledError:
                o.result = ("cancelled",)
                raise
            except Exception as e:  # noqa: BLE001
                o.result = ("exc", e)
                o.rep = repr(e)
                if crash[0] == "raise-mid" and crash[1] == i:
                    raise
            finally:
                o.end = len(tr.log)
                o.lost = catch.take_lost()
                o.after = dict(ecu.state.__dict__)
                if ex.edit and o.result is not None and o.result[0] != "cancelled":
                    # request() is over (no suspension point since it returned / raised): the caller goes on working with its objects
                    r = o.result[1] if o.result[0] == "ok" else getattr(o.result[1], "response", None)
                    if ex.edit in ("response", "both") and r is not None:
                        o.edited += scribble(r)
                    if ex.edit in ("request", "both"):
                        o.edited += scribble(ex.req)
        if crash[0] in ("cancel-between", "raise-between") and crash[1] == len(spec["ex"]):
            if crash[0] == "raise-between":
                raise Boom()
            parked.set()
            await asyncio.get_running_loop().create_future()

    cut: dict[str, Any] = {}

    def on_suspend(y: Any) -> None:
        """(foreign-lock family) the caller is suspended on a future although it is inside request(), its request was written and
        the client is not inside a transport call: it waits for something behind the exchange - the logging step.  It is cancelled there."""
        if cut or not asyncio.isfuture(y) or not obs or obs[-1].result is not None or tr.inside:
            return
        o = obs[-1]
        if not any(e[0] == "write" for e in tr.log[o.start :]):
            return
        cut.update({"exchange": o.i, "wire_entries_of_the_exchange": len(tr.log) - o.start, "foreign_transaction_open": fw is not None and fw.t1 is None})
        task.cancel()

    task: Any = asyncio.ensure_future(Watched(driver(), on_suspend) if lockp is not None else driver())
    phase = "closed-normally"
    if crash[0] in ("cancel-between", "cancel-mid"):
        waiter = asyncio.ensure_future((parked if crash[0] == "cancel-between" else tr.gate_reached).wait())
        await asyncio.wait([task, waiter], return_when=asyncio.FIRST_COMPLETED)
        if waiter.done() and not task.done():
            task.cancel()
            phase = "after-cancel"
        else:
            waiter.cancel()
    try:
        await task
    except asyncio.CancelledError:
        if cut:
            phase = "after-cancel"
            spec["cut"] = cut
    except Boom:
        phase = "after-failure"
    except Exception:  # noqa: BLE001
        phase = "after-failure"
    if fw is not None:
        lock_obs["foreign_transaction_open_when_the_run_ended"] = fw.t1 is None
    qsize = handler._execute_queue.qsize() if handler._execute_queue is not None else 0
    if qsize:
        ctx.reach("disconnect.queue-not-empty")
    scan_run = handler.scan_run
    if wf is not None and wfp is not None:
        if wfp["close"] != "immediately":
            await pace(wfp["close"])
        wf.closing = True
    # entry_point's finally: the handler is closed whatever happened to the run
    # (a disconnect() that does not return within the guard raises TimeoutError: harness error -> INCONCLUSIVE, to be reproduced by hand)
    if sess is not None:
        assert st is not None
        why = await close_watching_writer(handler, watch, sum(1 for o in obs if o.ex.implicit))
        if why:
            st["given_up"] = st.get("given_up", 0) + 1
            spec["close"] = why
            spec["gave_up"] = why
            ctx.reach("reuse.disconnect-given-up-after-the-writer-task-ended" if "INSERTs" not in why else "reuse.disconnect-given-up-writer-retries-without-end")
    elif lockp is not None:
        try:
            await take_lock()  # a run that ended before the chosen exchange: the foreign transaction starts right before the close
            assert fw is not None
            if fw.hold_s is None:
                # a burst: the foreign transaction lasts as long as the run, however long that takes on this machine, and ends
                # shortly after disconnect() was called (no clock decides how many rows are waiting)
                fw.hold_s = lock_obs["hold_s"] = BURST_RELEASE_S
                fw.timer = asyncio.get_running_loop().call_later(BURST_RELEASE_S, fw.end)
            t_close = time.monotonic()
            gave_up = await close_watching_writer(handler, watch, sum(1 for o in obs if o.ex.implicit))
            if gave_up:
                spec["gave_up"] = gave_up
            lock_obs.update({"disconnect_s": time.monotonic() - t_close, "returned_before_the_foreign_transaction_ended": fw.t1 is None,
                             "writer_retries": getattr(catch, "retries", 0)})
        except BaseException:
            await dh.force_close(handler)
            raise
        finally:
            if fw is not None:
                fw.end()
        spec["lock_obs"] = lock_obs
    else:
        gave_up = await close_watching_writer(handler, watch, sum(1 for o in obs if o.ex.implicit))
        if gave_up:
            spec["gave_up"] = gave_up
    stray = catch.take_lost()
    rows = dh.read_rows(path)
    if sess is None or sess["scan_run"] in ("first", "new"):
        own_scan_run(spec, path, runs_before, target)
    else:
        assert st is not None
        spec["own_run"] = st.get("own_run", {"id": None})
    if st is not None:
        st["own_run"] = spec["own_run"]
        st["scan_runs"] = [r[0] for r in read_scan_runs(path)]
    if sess is None and earlier:
        # the rows of the earlier run must still be there, unchanged; the history is judged on the rows that came with it
        def ident0(r: dict[str, Any]) -> tuple[Any, ...]:
            return (r["id"], r["run"], r["log_mode"], r["state"], r["request_pdu"], r["response_pdu"], r["exception"])

        if [ident0(r) for r in rows[: len(earlier)]] != [ident0(r) for r in earlier]:
            ctx.violation("rows/of-an-earlier-run-changed-when-a-run-was-appended", "rows the database held before the handler was connected are missing or different afterwards",
                          describe(spec, None, tr.log, phase) | {"before": len(earlier), "after": len(rows)})
            last = max((r["id"] for r in earlier), default=0)
            rows = [r for r in rows if r["id"] > last]
        else:
            ctx.reach("pre-existing-database.rows-of-the-earlier-run-kept", len(earlier))
            rows = rows[len(earlier) :]
    if sess is not None and st is not None:
        # rows of the sessions before this one must still be there, unchanged; this session is judged on the rows that came with it
        def ident(r: dict[str, Any]) -> tuple[Any, ...]:
            return (r["id"], r["run"], r["request_pdu"], r["response_pdu"], r["exception"])

        prev: list[dict[str, Any]] = st.get("rows", [])
        st["rows"] = rows
        if [ident(r) for r in rows[: len(prev)]] != [ident(r) for r in prev]:
            ctx.violation("rows/of-an-earlier-session-changed-after-the-handler-was-reopened", "rows written before the handler was closed are missing or different after it was used again",
                          describe(spec, None, tr.log, phase) | {"before": len(prev), "after": len(rows)})
            last = max((r["id"] for r in prev), default=0)
            rows = [r for r in rows if r["id"] > last]
        else:
            rows = rows[len(prev) :]
    judge(ctx, spec, obs, tr.log, rows, phase, scan_run, stray, wf)
    return phase


def outcome_class(o: Obs, wire: list[tuple[Any, ...]]) -> str:
    from gallia.services.uds.core import exception as ex
    from gallia.services.uds.core import service

    assert o.result is not None
    if o.result[0] == "cancelled":
        return "cancelled"
    if o.result[0] == "ok":
        return "negative" if isinstance(o.result[1], service.NegativeResponse) else "positive"
    e = o.result[1]
    if isinstance(e, ex.MissingResponse):
        return "connection-error" if isinstance(e.__cause__, ConnectionError) else "timeout"
    if isinstance(e, ex.RequestResponseMismatch):
        return "mismatch"
    if isinstance(e, ex.MalformedResponse):
        return "malformed"
    return "transport-error"


def san(o: Any) -> Any:
    """witnesses must survive JSON: integers beyond 64 bits (a session read from a 4 KiB record) are abbreviated"""
    if isinstance(o, int) and not isinstance(o, bool) and o.bit_length() > 64:
        return f"int:{o.bit_length()}bits:0x{o >> (o.bit_length() - 32):x}.."
    if isinstance(o, dict):
        return {k: san(v) for k, v in o.items()}
    if isinstance(o, (list, tuple)):
        return [san(v) for v in o]
    if isinstance(o, str) and len(o) > 600:
        return o[:600] + f"..({len(o)} chars)"
    return o


def describe(spec: dict[str, Any], o: Obs | None, wire: list[tuple[Any, ...]], phase: str, row: dict[str, Any] | None = None) -> dict[str, Any]:
    return san(_describe(spec, o, wire, phase, row))


def _describe(spec: dict[str, Any], o: Obs | None, wire: list[tuple[Any, ...]], phase: str, row: dict[str, Any] | None = None) -> dict[str, Any]:
    w: dict[str, Any] = {"hseed": spec["hseed"], "crash": list(spec["crash"]), "phase": phase, "max_retry": spec["max_retry"], "exchanges": len(spec["ex"])}
    if "wf" in spec:
        w["family"] = "writer-faults"
    if "lock" in spec:
        w["family"] = "foreign-lock"
        w["foreign_write_transaction"] = dict(spec["lock"]) | spec.get("lock_obs", {})
    if "reuse" in spec:
        w["family"] = "handler-reuse"
        w["reuse"] = dict(spec["reuse"]) | ({"close": spec["close"]} if "close" in spec else {})
    if "burst" in spec:
        w["burst"] = dict(spec["burst"])
    if spec.get("pre"):
        w["database"] = "copy of fixtures/c11-schema-4.0.sqlite (written by an earlier run of the released code); the run is appended"
        if spec.get("planted") and spec["planted"]["plan"] is not None:
            w["database_also_holds"] = dict(spec["planted"]["plan"]) | {"rows_in_table": spec["planted"]["counts"], "target_of_this_run_seen_before": spec["planted"]["target_seen_before"]}
    if "own_run" in spec:
        w["scan_run_row_that_came_with_this_run"] = spec["own_run"]
    if "gave_up" in spec:
        w["close"] = spec["gave_up"]
    if "cut" in spec:
        w["cancelled_while_suspended_behind_its_exchange"] = spec["cut"]
    if o is not None:
        w.update({"index": o.i, "request_class": o.ex.cls, "tag": o.ex.tag, "implicit_logging": o.ex.implicit,
                  "wire": [list(e) for e in wire[o.start : o.end]][:12],
                  "result": (o.rep or repr(o.result[1]))[:300] if o.result and len(o.result) > 1 else (o.result[0] if o.result else None),
                  "state_before": o.snapshot, "state_after": o.after, "warnings": o.lost})
        if o.ex.edit:
            w["caller_edited_after_request_returned"] = {"what": o.ex.edit, "assignments": o.edited}
        if o.side:
            w["exchange_started_by_the_client_while_the_caller_was_inside"] = "ECU.power_cycle()" if o.side == "power-cycle" else "ECU.refresh_state(reset_state=True)"
        if getattr(o, "since_reset", None):
            w["client_view_reset_without_a_reply_before_this_exchange"] = o.since_reset  # type: ignore[attr-defined]
    if row is not None:
        w["row"] = {k: row[k] for k in ("id", "run", "log_mode", "state", "request_pdu", "response_pdu", "request_time", "response_time", "exception")}
    return w


def lost_cause(msg: str) -> str:
    if "not JSON serializable" in msg:
        return "not-json-serialisable"
    if "keys must be" in msg:
        return "json-key-type"
    if "integer string conversion" in msg:
        return "state-integer-too-large-for-json"
    return "other-error"


def not_exact_cause(want: bytes, got: bytes, cls: str) -> str:
    d = iso.decode_response(want)
    if d is not None and d.get("kind") == "dtc_list" and len({r[0] for r in d["records"]}) < len(d["records"]):
        return "duplicate-dtc-collapsed"
    return f"{cls}/" + ("shorter" if len(got) < len(want) else "longer" if len(got) > len(want) else "same-length")


def judge(ctx: Any, spec: dict[str, Any], obs: list[Obs], wire: list[tuple[Any, ...]], rows: list[dict[str, Any]], phase: str, scan_run: Any, stray: list[str],
          wf: dh.WriterFaults | None = None) -> None:
    crash = spec["crash"]
    ctx.reach(f"histories.{phase}")
    ctx.reach(f"max_retry.{spec['max_retry']}")
    if crash[0] != "none" and phase != "closed-normally":
        ctx.reach(f"crash.{crash[0]}")
        ctx.reach(f"crash.index:{crash[1]}")
        if crash[0] == "cancel-mid":
            ctx.reach(f"crash.mid-index:{crash[1]}")
            if crash[2] > 0:
                ctx.reach("crash.cancel-mid.after-retry-or-pending")
    if stray:
        ctx.violation("warning/outside-any-exchange", "'Could not log messages to database' outside a request", describe(spec, None, wire, phase) | {"warnings": stray})
    pre = bool(spec.get("pre"))
    if pre:
        ctx.reach("pre-existing-database.histories")
        ctx.reach(f"pre-existing-database.session-{phase}")
    if "gave_up" in spec:
        ctx.reach("disconnect.given-up." + ("writer-retries-without-end" if "INSERTs" in spec["gave_up"] else "writer-task-ended"))
    planted: dict[str, Any] | None = spec.get("planted")
    out_of_step = ""  # the database held further runs and its address / run_meta / scan_run tables have different numbers of rows
    if planted is not None and planted["plan"] is not None:
        ctx.reach("pre-existing-database.holds-further-runs.histories")
        c = planted["counts"]
        if planted["target_seen_before"]:
            ctx.reach("pre-existing-database.holds-further-runs.target-seen-before")
            out_of_step = "target-seen-before.more-runs-than-scan-runs" if c["run_meta"] != c["scan_run"] else ""
        else:
            out_of_step = "target-not-seen-before.number-of-addresses-differs-from-number-of-scan-runs" if c["address"] != c["scan_run"] else ""
        if out_of_step:
            ctx.reach(f"pre-existing-database.holds-further-runs.{out_of_step}")
    own: dict[str, Any] = spec.get("own_run") or {"id": None}
    if own["id"] is None:
        ctx.reach("own-scan-run.not-told-from-the-file")

    # ---- the client's view was reset without a reply (power cycle, refresh_state(reset_state=True)): which exchanges follow such a reset
    since: dict[str, Any] | None = None
    row_in_view = False  # a row was recorded while the client's view was what it is now
    for o in obs:
        if o.reset_before is not None:
            vb = o.reset_before["view_before"]
            since = {"how": o.reset_before["how"], "view_before": vb, "rows_recorded_in_that_view": row_in_view and vb != DEFAULT_VIEW}
            ctx.reach(f"view-reset.{since['how']}")
            if vb != DEFAULT_VIEW:
                ctx.reach(f"view-reset.{since['how']}.of-a-non-default-view")
            row_in_view = False
        o.since_reset = since  # type: ignore[attr-defined]
        if o.after != o.snapshot:
            row_in_view, since = False, None  # a reply changed the view (after the row of this exchange was built)
        elif o.ex.implicit and o.result is not None and o.result[0] != "cancelled" and not o.lost:
            row_in_view = True

    # ---- what the wire log implies
    shadow = {"session": 1, "security_access_level": None}
    expected: list[Obs] = []
    optional: Obs | None = None
    trace: list[Any] = []
    toggles = 0
    for n, o in enumerate(obs):
        w = wire[o.start : o.end]
        writes = [e for e in w if e[0] == "write"]
        assert writes and o.result is not None, (spec["hseed"], o.i)
        o.written = writes[0][1]  # type: ignore[attr-defined]
        oc = outcome_class(o, w)
        o.oc = oc  # type: ignore[attr-defined]
        fin = final_reply(w, o.written[0])  # type: ignore[attr-defined]
        if oc in ("positive", "negative", "mismatch", "malformed"):
            assert fin is not None, ("final reply rule", spec["hseed"], o.i)
        elif oc in ("timeout", "connection-error", "cancelled"):
            fin = None
        else:
            fin = None  # failures below the UDS layer, pending overflow: no final reply
        o.final = fin  # type: ignore[attr-defined]
        if o.reset_before is not None:
            shadow = dict(DEFAULT_VIEW)  # ECU switched off and on / view reset by the caller: default session, no security level
        o.shadow_before = dict(shadow)  # type: ignore[attr-defined]
        shadow = shadow_apply(shadow, fin)
        # reach
        ctx.reach(f"outcome.{oc}" + ((".retried" if len(writes) > 1 else ".no-retry") if oc == "connection-error" else ""))
        if len(writes) > 1 and oc in ("positive", "negative"):
            ctx.reach("outcome.recovered-by-retry")
        if any(e[0] == "read" and e[1] == bytes([0x7F, o.written[0], 0x78]) for e in w):  # type: ignore[attr-defined]
            ctx.reach("shape.pending-chain")
        if any(e[0] == "read" and e[1] == bytes([0x7F, o.written[0], 0x21]) for e in w):  # type: ignore[attr-defined]
            ctx.reach("shape.busy")
        ctx.reach(f"reqcls:{o.ex.cls}")
        if o.result[0] == "ok" or (o.result[0] == "exc" and getattr(o.result[1], "response", None) is not None):
            r = o.result[1] if o.result[0] == "ok" else o.result[1].response
            ctx.reach(f"respcls:{type(r).__name__}")
        if n and obs[n - 1].ex.implicit != o.ex.implicit:
            toggles += 1
        if not o.ex.implicit:
            ctx.reach("logging.exchange-while-off")
        elif o.ex.tag in ("ANALYZE", "ANALYZE+"):
            ctx.reach("tag.ANALYZE")
        elif o.ex.tag == "OTHER":
            ctx.reach("tag.other")
        trace.append((oc, o.ex.implicit, o.ex.tag in ("ANALYZE", "ANALYZE+")))
        if not o.ex.implicit:
            if o.lost:
                ctx.violation("warning/while-implicit-logging-off", "logging attempted although implicit logging is off", describe(spec, o, wire, phase))
            continue
        if oc == "cancelled":
            # cancelled inside request().  If the transport had not delivered the reply that ends the exchange, the exchange was
            # interrupted: its row is optional.  If it had (a final reply - not ResponsePending, not busy - was handed to the client
            # before the cancellation arrived), the exchange was complete on the wire and the statement wants its row.
            done = final_reply(w, o.written[0])  # type: ignore[attr-defined]
            if done is None or (done[:1] == b"\x7f" and done[2:3] == b"\x21"):
                optional = o
                continue
            o.final = done  # type: ignore[attr-defined]
            o.complete_cancelled = True  # type: ignore[attr-defined]
            ctx.reach("cancel.inside-request.after-the-final-reply-was-delivered")
        if o.lost:
            r = o.result[1] if o.result[0] == "ok" else getattr(o.result[1], "response", None) if o.result[0] == "exc" else None
            cause = lost_cause(o.lost[0])
            if cause == "state-integer-too-large-for-json":
                # the client's session came from a ReadDataByIdentifier(F186) reply with a record of several KiB: every row is lost from then on
                ctx.violation(f"row-lost/{cause}", "the client's session number (read from a very long F186 record) cannot be JSON-encoded: rows are lost while it lasts",
                              describe(spec, o, wire, phase))
                continue
            ctx.violation(f"row-lost/{cause}/{type(r).__name__ if r is not None else 'no-response/' + o.ex.cls}",
                          "the exchange completed but its row could not be built: only a warning is logged and the row is lost", describe(spec, o, wire, phase))
            continue
        expected.append(o)
    if toggles:
        ctx.reach("logging.toggled-mid-history", toggles)
    ctx.trace((tuple(trace), crash[0], phase))
    nontrivial = bool(expected) and (crash[0] != "none" or toggles > 0 or any(t[0] not in ("positive", "negative") or t[2] for t in trace))
    ctx.case(spec["hseed"], nontrivial=nontrivial, n=0)

    # ---- writer faults: which rows did the writer have to retry, and did the table order change because of that
    retried: set[int] = set()  # indices into `expected`
    wf_mapped = False
    wfw: dict[str, Any] = {}
    if wf is not None:
        failed = wf.failed()
        # the i-th expected exchange is the i-th row the writer attempted for the first time (FIFO queue); cross-checked on the bytes
        wf_mapped = len(wf.rows) <= len(expected) and all(dh.unhex(p[2]) == o.written for p, o in zip(wf.rows, expected))  # type: ignore[attr-defined]
        retried = set(failed) if wf_mapped else set(range(len(expected)))
        crit = wf.critical_rows()
        wfw = {"writer_faults": {"plan": spec["wf"], "attempts": wf.attempts[:40], "rows_first_attempted": len(wf.rows), "expected_rows": len(expected)}}
        ctx.reach("writer-fault.histories")
        ctx.reach("writer-fault.insert-failed", sum(failed.values()))
        for n, j in failed.items():
            ctx.reach(f"writer-fault.failures-in-a-row:{min(j, 3)}")
            if wf_mapped and n == len(expected) - 1:
                ctx.reach("writer-fault.last-row-failed")
                if spec["wf"]["close"] == "immediately":
                    ctx.reach("writer-fault.last-row-failed.disconnect-immediately")
        if any(a[1] == "fail" and a[2] and a[3] == 0 for a in wf.attempts):
            ctx.reach("writer-fault.failed-as-last-outstanding-row-while-disconnect-waits")
        if crit:
            ctx.reach("writer-fault.failed-twice-in-a-row-as-last-outstanding-row-while-disconnect-waits")
        if not wf_mapped:
            ctx.reach("writer-fault.rows-not-mapped")
        if failed:
            # the unchanged writer puts a failed row back behind the rows queued meanwhile: ids follow the order of the successful
            # INSERTs.  Under contention transmission order is therefore judged on request_time (and on ids for rows not retried).
            by_time = sorted(rows, key=lambda r: (r["request_time"], r["id"]))
            if [r["id"] for r in by_time] != [r["id"] for r in rows]:
                ctx.reach("writer-fault.order-changed")
            rows = by_time

    # ---- a foreign write transaction while the handler was closed / a handler object in its second or third session
    lock_obs: dict[str, Any] | None = spec.get("lock_obs")
    sess: dict[str, Any] | None = spec.get("reuse")
    lock_retried = False
    if lock_obs is not None:
        behind = sum(1 for o in expected if o.i >= lock_obs["taken_before_exchange"])
        ctx.reach("foreign-lock.histories")
        ctx.reach(f"foreign-lock.session-{phase}")
        ctx.reach("foreign-lock.rows-behind-the-lock", behind)
        if spec["lock"]["frac"] is not None:
            pct = f"{round(spec['lock']['frac'] * 100)}%-of-the-handlers-busy-timeout"
            ctx.reach(f"foreign-lock.hold:{pct}")
            if behind >= 2:
                ctx.reach(f"foreign-lock.several-rows-behind.hold:{pct}")
        if lock_obs["disconnect_s"] >= 0.5 * lock_obs["hold_s"]:
            ctx.reach("foreign-lock.disconnect-had-to-wait-for-the-foreign-transaction")
        if lock_obs["returned_before_the_foreign_transaction_ended"]:
            ctx.reach("foreign-lock.disconnect-returned-before-the-foreign-transaction-ended")
        if "burst" in spec:
            # a burst: the rows of (nearly) all its exchanges are waiting behind the foreign transaction when the run ends
            waiting = behind if lock_obs.get("foreign_transaction_open_when_the_run_ended") else 0
            ctx.reach("foreign-lock.burst.histories")
            ctx.reach(f"foreign-lock.burst.session-{phase}")
            ctx.reach("foreign-lock.burst.exchanges", len(obs))
            if waiting > 1000:
                ctx.reach("foreign-lock.burst.more-than-1000-rows-waiting-when-the-run-ended")
            if waiting > 2000:
                ctx.reach("foreign-lock.burst.more-than-2000-rows-waiting-when-the-run-ended")
            if waiting > 1000 and phase == "after-cancel":
                ctx.reach("foreign-lock.burst.cancelled-with-more-than-1000-rows-waiting")
            if "cut" not in spec:
                ctx.reach("foreign-lock.burst.caller-never-waited-behind-its-exchange")
        if "cut" in spec:
            ctx.reach("foreign-lock.cancelled-while-suspended-behind-its-exchange")
        if lock_obs["writer_retries"]:
            # the lock outlasted the busy timeout: the unchanged writer queues the row again behind the others (see writer faults)
            ctx.reach("foreign-lock.writer-had-to-retry")
            lock_retried = True
            by_time = sorted(rows, key=lambda r: (r["request_time"], r["id"]))
            if [r["id"] for r in by_time] != [r["id"] for r in rows]:
                ctx.reach("foreign-lock.order-changed")
            rows = by_time
    if sess is not None:
        if sess["k"] == 0:
            ctx.reach("reuse.handlers")
        else:
            ctx.reach(f"reuse.later-session.{sess['loop']}-event-loop")
            ctx.reach(f"reuse.later-session.after:{sess['previous']}")
            ctx.reach(f"reuse.later-session.{sess['scan_run']}-scan-run")
            if sess["k"] >= 2:
                ctx.reach("reuse.third-session")

    def missing_key(o: Obs) -> str:
        if getattr(o, "complete_cancelled", False):
            return "row-missing/request-cancelled-after-its-final-reply-was-delivered" + ("/rows-waiting-behind-a-foreign-write-transaction" if lock_obs is not None else "")
        if "gave_up" in spec and "INSERTs" in spec["gave_up"]:
            return "row-missing/disconnect-does-not-return/writer-retries-without-end" + ("/database-of-an-earlier-run" if pre else "")
        if "gave_up" in spec and not (sess is not None and sess["k"] > 0):
            return "row-missing/disconnect-does-not-return/writer-task-ended" + ("/after-the-caller-edited-its-objects" if any(x.edited for x in obs) else "")
        if pre and wf is None and lock_obs is None and not (sess is not None and sess["k"] > 0):
            return f"row-missing/appended-to-the-database-of-an-earlier-run/{phase}"
        if lock_obs is not None:
            return f"row-missing/foreign-write-transaction-while-the-handler-is-closed/{phase}" + ("/writer-had-to-retry" if lock_retried else "")
        if sess is not None and sess["k"] > 0:
            return f"row-missing/handler-used-again-after-close/{sess['loop']}-event-loop/session-{phase}"
        if wf is None:
            return f"row-missing/no-warning/{phase}/request-{'returned' if o.result and o.result[0] == 'ok' else 'raised'}"
        i = expected.index(o)
        if wf_mapped and i in retried:
            return "row-missing/after-writer-retry/" + ("last-row-before-disconnect" if i == len(expected) - 1 else "requeued-earlier-row-before-disconnect")
        return "row-missing/writer-fault-history/" + ("row-not-retried" if wf_mapped else "rows-not-mapped")

    # ---- align rows with the expected exchanges
    got = [dh.unhex(r["request_pdu"]) or b"" for r in rows]
    want: list[bytes] = [o.written for o in expected]  # type: ignore[attr-defined]
    pairs: list[tuple[Obs, dict[str, Any]]] = []
    body = rows
    if optional is not None and got and got[-1] == optional.written and got != want and (got[:-1] == want or len(got) > len(want) or not want or want[-1] != got[-1]):  # type: ignore[attr-defined]
        # the exchange interrupted by cancellation left a row: allowed, it must be the last one and cannot carry a reply
        ctx.reach("rows.interrupted-exchange-recorded")
        if rows[-1]["response_pdu"] is not None:
            ctx.violation("row/interrupted-exchange-has-reply", "the row of the exchange interrupted by cancellation carries a reply nobody received", describe(spec, optional, wire, phase, rows[-1]))
        body, got = rows[:-1], got[:-1]
    if got == want:
        pairs = list(zip(expected, body))
        if wf is not None and retried:
            ids = [row["id"] for i, (_, row) in enumerate(pairs) if i not in retried]
            if ids != sorted(ids):
                ctx.violation("rows/out-of-transmission-order/rows-the-writer-did-not-retry", "rows whose INSERT never failed are not in transmission order by id",
                              describe(spec, None, wire, phase) | wfw | {"ids_in_transmission_order": ids[:40]})
    elif len(got) == len(want) and sorted(got) == sorted(want):
        if ((wf is not None and retried) or lock_retried) and len({r["request_time"] for r in body}) < len(body):
            ctx.reach("writer-fault.order-undecidable.equal-request-times")  # harness limit: two rows carry the same send time
            return
        ctx.violation("rows/out-of-transmission-order" + ("/by-request-time-under-writer-faults" if wf is not None and retried else ""), "rows are not in transmission order",
                      describe(spec, None, wire, phase) | wfw | {"rows": [g.hex()[:40] for g in got][:30], "wire_order": [w.hex()[:40] for w in want][:30]})
        return
    elif len(got) == len(want) and all(g[:1] == w[:1] for g, w in zip(got, want)):
        for o, row, g, w in zip(expected, body, got, want):
            if g == w:
                pairs.append((o, row))
                continue
            kind = "shorter" if len(g) < len(w) else "longer" if len(g) > len(w) else f"byte-{min(next(i for i in range(len(w)) if g[i] != w[i]), 3)}"
            ctx.violation(f"request_pdu/not-exact/{kind}", "request_pdu differs from the bytes written to the transport", describe(spec, o, wire, phase, row) | {"written": w})
    else:
        # rows are missing or surplus: match greedily in order; the fields of such a history are not judged (alignment is a guess)
        off = [o.written for o in obs if not o.ex.implicit]  # type: ignore[attr-defined]
        pos = 0
        used: set[int] = set()
        for o, w in zip(expected, want):
            try:
                j = got.index(w, pos)
            except ValueError:
                ctx.violation(missing_key(o), "a completed exchange has no row after disconnect() and no warning was logged" + (" (the writer had to retry INSERTs: database locked)" if wf is not None else ""),
                              describe(spec, o, wire, phase) | wfw | {"rows": len(rows), "expected_rows": len(want)})
                continue
            used.add(j)
            pos = j + 1
        for j, row in enumerate(body):
            if j not in used:
                kind = "while-implicit-logging-off" if got[j] in off else "duplicate" if got[j] in want else "unknown-request"
                ctx.violation(f"row-extra/{kind}" + ("/under-writer-faults" if wf is not None else ""), "a row exists that no logged exchange accounts for", describe(spec, None, wire, phase, row) | wfw)

    # ---- field by field
    for o, row in pairs:
        if getattr(o, "complete_cancelled", False):
            ctx.reach("rows.recorded-for-a-request-cancelled-after-its-final-reply")  # presence and position were judged; the caller never saw an outcome
            continue
        ctx.evals()
        ctx.reach("rows.compared" if wf is None else "writer-fault.rows-compared")
        if lock_obs is not None:
            ctx.reach("foreign-lock.rows-compared")
        if sess is not None and sess["k"] > 0:
            ctx.reach(f"reuse.later-session.rows-compared.{sess['loop']}-event-loop")
        if pre:
            ctx.reach("pre-existing-database.rows-compared")
        if o.edited:
            ctx.reach("caller-edit.rows-compared")
            if o.ex.edit in ("response", "both") and have_reply(o):
                ctx.reach("caller-edit.rows-compared.response-object-edited")
            if o.ex.edit in ("request", "both"):
                ctx.reach("caller-edit.rows-compared.request-object-edited")
            if wf is not None and wf_mapped and expected.index(o) in retried:
                ctx.reach("caller-edit.rows-compared.row-retried-by-the-writer-after-the-edit")
        if row["run"] != scan_run:
            ctx.violation("row/wrong-run", "row does not belong to the scan run of this handler", describe(spec, o, wire, phase, row))
        if own["id"] is not None and row["run"] != own["id"]:
            # told from the file alone: the scan_run row that came with this run (not there before, names the run's target)
            whose = "the-scan-run-of-an-earlier-run" if row["run"] in own.get("scan_runs_before", []) else "a-scan-run-that-is-not-the-runs-own"
            ctx.violation(f"row/wrong-run/filed-under-{whose}" + ("/database-holds-further-runs" if planted is not None and planted["plan"] is not None else ""),
                          "the row of an exchange of this run is filed under another scan run than the one this run added to the database", describe(spec, o, wire, phase, row))
        if out_of_step:
            ctx.reach(f"pre-existing-database.holds-further-runs.{out_of_step}.rows-compared")
        fin: bytes | None = o.final  # type: ignore[attr-defined]
        have = dh.unhex(row["response_pdu"])
        oc = o.oc  # type: ignore[attr-defined]
        if have != fin:
            if have is None:
                ctx.violation(f"response_pdu/missing/{oc}", "a reply ended the exchange but response_pdu is NULL", describe(spec, o, wire, phase, row))
            elif fin is None:
                ctx.violation(f"response_pdu/unexpected/{oc}", "response_pdu is set although no reply ended the exchange", describe(spec, o, wire, phase, row))
            else:
                r = o.result[1] if o.result[0] == "ok" else getattr(o.result[1], "response", None)  # type: ignore[index]
                ctx.violation(f"response_pdu/not-exact/{not_exact_cause(fin, have, type(r).__name__)}",
                              "response_pdu is the re-serialised response object, not the bytes received", describe(spec, o, wire, phase, row) | {"received": fin, "stored": have})
        want_exc = None if o.result[0] == "ok" else o.rep  # type: ignore[index]  (repr() of the exception as request() raised it)
        if (row["exception"] is None) != (want_exc is None):
            ctx.violation(f"exception/{'missing' if want_exc else 'unexpected'}/{oc}", "exception column is NULL although request() raised (or the reverse)", describe(spec, o, wire, phase, row))
        elif want_exc is not None and row["exception"] != want_exc:
            ctx.violation(f"exception/text-differs/{oc}", "exception column is not the exception request() raised", describe(spec, o, wire, phase, row))
        if row["response_time"] is not None and not (row["request_time"] <= row["response_time"]):
            ctx.violation("time/send-after-receive", "request_time is later than response_time", describe(spec, o, wire, phase, row))
        if row["response_time"] is None and have is not None:
            ctx.violation("response_time/null-although-reply-recorded/" + ("request-raised" if want_exc else "request-returned"),
                          "the row holds a reply but no receive time", describe(spec, o, wire, phase, row))
        if row["response_time"] is not None and have is None:
            ctx.violation(f"response_time/set-without-reply/{oc}", "the row holds a receive time but no reply", describe(spec, o, wire, phase, row))
        try:
            st = json.loads(row["state"])
        except (TypeError, ValueError):
            st = None
        sr: dict[str, Any] | None = o.since_reset  # type: ignore[attr-defined]
        if sr is not None:
            ctx.reach(f"view-reset.{sr['how']}.rows-compared-afterwards")
            if sr["rows_recorded_in_that_view"]:
                ctx.reach(f"view-reset.{sr['how']}.of-a-non-default-view-with-rows-recorded-in-it.rows-compared-afterwards")
        if o.side:
            ctx.reach(f"view-reset.exchange-started-by-the-client-during-{o.side}.rows-compared")
        if st != o.snapshot:
            rel = "state-after-the-exchange" if st == o.after else "other"
            if rel == "other" and sr is not None and st == sr["view_before"]:
                rel = "view-as-it-was-before-" + ("the-power-cycle" if sr["how"] == "power-cycle" else "the-caller-reset-it")
            ctx.violation(f"state/not-the-view-before-the-request/{rel}", "state column differs from ECU.state as it was when request() was called", describe(spec, o, wire, phase, row))
        if o.snapshot != o.shadow_before:  # type: ignore[attr-defined]
            ctx.violation("state/client-view-differs-from-shadow", "the client's session/security level differs from what the replies seen so far imply",
                          describe(spec, o, wire, phase, row) | {"shadow": o.shadow_before})  # type: ignore[attr-defined]
        if o.snapshot["session"] != 1:
            ctx.reach("state.non-default-row")
        if o.snapshot["security_access_level"] is not None:
            ctx.reach("state.level-row")
        want_mode = "emphasized" if o.ex.tag in ("ANALYZE", "ANALYZE+") else "implicit"
        if row["log_mode"] != want_mode:
            ctx.violation(f"log_mode/{row['log_mode']}-instead-of-{want_mode}", "log_mode is not what the request asked for", describe(spec, o, wire, phase, row))
    if pairs and ctx.rng.random() < 0.02:
        o, row = pairs[-1]
        ctx.sample(describe(spec, o, wire, phase, row))


# ---- a foreign write transaction while the handler is closed ---------------------------------------------
def gen_lock_history(hseed: str, tier: str) -> dict[str, Any]:
    """a history of the main family (all outcome classes, crash points, logging toggles) in which another connection opens a write
    transaction before exchange `at` and keeps it for a fraction of the busy timeout the handler configured for itself; at least two
    logged exchanges complete after that point, so their rows are waiting behind the foreign transaction when disconnect() is called"""
    if hseed.rsplit("/", 1)[-1].startswith("b"):
        return gen_burst_history(hseed, tier)
    fr = lock_fractions(tier)
    try:
        idx = int(hseed.rsplit("/", 1)[1])
    except (IndexError, ValueError):
        idx = random.Random("lockfrac/" + hseed).randrange(len(fr))
    frac = fr[idx % len(fr)]
    end = ("none", "cancel", "raise")[(idx // len(fr)) % 3]  # every duration meets every way a run can end
    for attempt in range(2000):
        spec = gen_history(f"lk/{hseed}/{attempt}")
        exs, crash = spec["ex"], spec["crash"]
        n = len(exs)
        if n < 3 or not crash[0].startswith(end):
            continue
        # exchanges [0, limit) complete
        limit = n if crash[0] == "none" else crash[1] if crash[0] in ("cancel-between", "raise-between", "cancel-mid") else crash[1] + 1
        rng = random.Random(f"lockat/{hseed}/{attempt}")
        at = rng.randint(0, max(0, limit - 2))
        if sum(1 for e in exs[at:limit] if e.implicit) < 2:
            continue
        spec["hseed"] = hseed
        spec["lock"] = {"at": at, "frac": frac}
        return spec
    raise RuntimeError(f"no lock history for {hseed}")


BURST_RELEASE_S = 0.3  # real seconds between the call of disconnect() and the end of the foreign transaction of a burst
BURST_SIZES = [(1050, 1400), (1500, 2200), (2300, 3200), (200, 900)]
BURST_END = ["cancel-between", "cancel-mid", "cancel-between", "none"]


def gen_burst_history(hseed: str, tier: str) -> dict[str, Any]:
    """a scan that outruns the writer: a few hundred to a few thousand quick exchanges (reads with positive and negative replies,
    silence, session changes, tags, logging switched off for a few) while another connection holds a write transaction from one
    of the first exchanges on, so that the rows of the whole burst are waiting when the run ends - cancelled between two
    exchanges, cancelled while the last request awaits its reply, or normally.  (If the caller is ever found suspended behind an
    exchange of the burst - see on_suspend in run_history - it is cancelled right there instead.)"""
    from gallia.services.uds.core import service

    try:
        k = int(hseed.rsplit("/", 1)[-1][1:])
    except ValueError:
        k = 0
    rng = random.Random("burst/" + hseed)
    sizes = BURST_SIZES + ([(4000, 6500)] if tier != "quick" else [])
    n = rng.randint(*sizes[k % len(sizes)])
    exs: list[Ex] = []
    for _ in range(n):
        j = rng.random()
        tag = "ANALYZE" if rng.random() < 0.1 else None
        if j < 0.05:
            lvl = rng.choice([1, 2, 3, 0x40])
            req: Any = service.DiagnosticSessionControlRequest(lvl)
            ev: list[tuple[Any, ...]] = [("reply", bytes([0x50, lvl, 0, 50, 1, 244]))]
            cls = "DiagnosticSessionControlRequest"
        else:
            did = rng.randrange(0x0100, 0xF000)
            req, cls = service.ReadDataByIdentifierRequest(did), "ReadDataByIdentifierRequest"
            if j < 0.80:
                ev = [("reply", b"\x62" + did.to_bytes(2, "big") + rng.randbytes(rng.randint(1, 6)))]
            elif j < 0.92:
                ev = [("reply", bytes([0x7F, 0x22, rng.choice(NRCS)]))]
            elif j < 0.96:
                ev = [("reply", b"\x7f\x22\x78"), ("reply", b"\x62" + did.to_bytes(2, "big") + b"\x00")]
            else:
                ev = [("T",)]
        exs.append(Ex(req, cls, ev, tag, rng.random() < 0.97, None))
    end = BURST_END[k % len(BURST_END)]
    crash: tuple[Any, ...] = ("none",)
    if end == "cancel-between":
        crash = ("cancel-between", n)
    elif end == "cancel-mid":
        exs[-1].events = [("G",)] + exs[-1].events
        crash = ("cancel-mid", n - 1, 0)
    plan_edits(exs, hseed)
    return {"hseed": hseed, "max_retry": 0, "ex": exs, "crash": crash, "pre": wants_fixture(hseed), "lock": {"at": rng.randint(0, 12), "frac": None},
            "burst": {"exchanges": n, "end": end}}


async def run_lock_waves(ctx: Any, seeds: list[str], scratch: Any, wave: int) -> None:
    """the histories of one wave run side by side on this loop - each with its own database file, handler, transport, foreign
    writer and its own view of the warnings -, so the real seconds the foreign transactions last are waited once per wave"""
    install_split_handler()

    async def one(n: int, hseed: str) -> None:
        view = HistView()
        _HIST.set(view)  # this task's context only
        path = scratch / f"c11-lock-{n}.sqlite"
        try:
            await run_history(ctx, gen_lock_history(hseed, ctx.tier), path, view)
        finally:
            for suffix in ("", "-wal", "-shm"):
                p = path.with_name(path.name + suffix)
                if p.exists():
                    p.unlink()

    for b in range(0, len(seeds), wave):
        if b and ctx.out_of_time():
            break
        res = await asyncio.gather(*(one(b + n, hs) for n, hs in enumerate(seeds[b : b + wave])), return_exceptions=True)
        for r in res:
            if isinstance(r, BaseException):
                raise r


# ---- one handler object: connect / exchanges / disconnect, and again ---------------------------------------
def gen_reuse(hseed: str) -> list[dict[str, Any]]:
    """2..3 sessions of one DBHandler object; every session is a history of the main family (so it ends normally, cancelled or
    failing), runs in the event loop of the session before or in a fresh one, and goes on with the scan run or starts a new one"""
    rng = random.Random("reuse/" + hseed)
    parts = rng.choice([2, 2, 2, 3])
    out: list[dict[str, Any]] = []
    for k in range(parts):
        spec = gen_history(f"{hseed}#{k}")
        spec["reuse"] = {"of": hseed, "k": k, "sessions": parts, "loop": "first" if k == 0 else rng.choice(["fresh", "fresh", "fresh", "same"]),
                         "scan_run": "first" if k == 0 else rng.choice(["continue", "continue", "new"]), "previous": None}
        out.append(spec)
    return out


def run_reuse(ctx: Any, hseed: str, path: Any, catch: dh.Catcher, st: dict[str, Any]) -> None:
    """synchronous driver, as a program that uses the handler from several asyncio.run() calls: connect() and disconnect() of one
    session always happen in the same loop (what their docstrings ask for)"""
    from gallia.db.handler import DBHandler

    sessions = gen_reuse(hseed)
    groups: list[list[dict[str, Any]]] = []
    for spec in sessions:
        if spec["reuse"]["loop"] == "same":
            groups[-1].append(spec)
        else:
            groups.append([spec])
    handler = DBHandler(path)  # created outside any event loop
    # in some of the cases the file exists already (an earlier run of the released code wrote it): its rows are "rows of an earlier session"
    st["rows"], st["scan_runs"] = [], []
    st.pop("own_run", None)
    if sessions[0].get("pre"):
        planted = plant_database(path, sessions[0]["hseed"], "vf://c11r/" + sessions[0]["hseed"])
        st["rows"], st["scan_runs"] = planted["rows"], planted["scan_runs"]
        sessions[0]["planted"] = {k: planted[k] for k in ("plan", "counts", "target_seen_before")}
    for spec in sessions:
        spec["pre"] = sessions[0].get("pre")
    before = st.get("given_up", 0)

    async def group(specs: list[dict[str, Any]]) -> None:
        for spec in specs:
            spec["reuse"]["previous"] = st.get("previous")
            st["previous"] = await run_history(ctx, spec, path, catch, handler=handler, st=st)
            if st.get("given_up", 0) > before:
                return

    try:
        for g in groups:
            asyncio.run(group(g))
            if st.get("given_up", 0) > before:
                break  # the handler was torn down by force: its later sessions would not say anything about the code
    finally:
        st.pop("previous", None)
        if getattr(handler, "connection", None) is not None:
            try:
                asyncio.run(dh.force_close(handler))
            except BaseException:  # noqa: BLE001
                pass
        dh.stop_leaked_connections()


def run_reuse_shard(ctx: Any, params: dict[str, Any], only: str | None = None) -> None:
    catch = dh.install_catcher()
    scratch = ctx.mkscratch()
    seeds = [only] if only else [f"{params['base']}/{i}" for i in range(params["n"])]
    st: dict[str, Any] = {}
    for n, hseed in enumerate(seeds):
        if ctx.out_of_time() or st.get("given_up", 0) >= 2:
            break  # (two handlers whose disconnect() had to be given up are witnesses enough; each costs seconds of real time)
        path = scratch / f"c11-reuse-{n}.sqlite"
        try:
            run_reuse(ctx, hseed, path, catch, st)
        finally:
            for suffix in ("", "-wal", "-shm"):
                p = path.with_name(path.name + suffix)
                if p.exists():
                    p.unlink()


# ---- concurrent users of one client -------------------------------------------------------------------
async def run_concurrent(ctx: Any, hseed: str, path: Any, catch: dh.Catcher) -> None:
    from gallia.services.uds.core import service
    from gallia.services.uds.core.client import UDSRequestConfig

    rng = random.Random(hseed)
    handler = await dh.open_handler(path, "vf://c11c/" + hseed)

    async def responder(q: bytes) -> list[bytes]:
        if q[0] == 0x10:
            return [bytes([0x50, q[1] & 0x7F, 0, 50, 1, 244])]
        if q[0] == 0x27:
            return [bytes([0x67, q[1]])]
        if q[0] == 0x11:
            return [bytes([0x51, q[1]])]
        if q[1] == 0xEE:
            return []
        return [b"\x62" + q[1:3] + q[1:3]]

    tr = dh.ResponderTransport(responder)
    ecu = dh.make_ecu(tr, handler, 0)
    tagged: dict[bytes, bool] = {}
    catch.take_lost()

    async def user(u: int, n: int) -> None:
        r = random.Random(f"{hseed}/{u}")
        for i in range(n):
            k = r.random()
            req: Any
            if k < 0.15:
                req = service.DiagnosticSessionControlRequest(r.choice([1, 2, 3, 0x40 + u]))
            elif k < 0.22:
                req = service.SendKeyRequest(2 * r.randint(1, 5), bytes([u, i]))
            elif k < 0.27:
                req = service.ECUResetRequest(1)
            elif k < 0.33:
                req = service.ReadDataByIdentifierRequest(0xEE00 + u * 16 + (i & 15))
            else:
                req = service.ReadDataByIdentifierRequest((u << 8) | i)
            tag = r.random() < 0.3
            for _ in range(r.randrange(3)):
                await asyncio.sleep(0)
            try:
                await ecu.request(req, UDSRequestConfig(tags=["ANALYZE"]) if tag else None)
            except Exception:  # noqa: BLE001
                pass

    users = rng.randint(2, 4)
    await asyncio.gather(*(user(u, rng.randint(3, 12)) for u in range(users)))
    await asyncio.wait_for(handler.disconnect(), 30)
    lost = catch.take_lost()
    rows = dh.read_rows(path)
    ctx.reach("concurrent.histories")
    w0 = {"hseed": hseed, "family": "concurrent", "users": users}
    if lost:
        ctx.violation("row-lost/concurrent", "row lost with several users of one client", w0 | {"warnings": lost})
    wire = [e[0] for e in tr.log]
    got = [dh.unhex(r["request_pdu"]) for r in rows]
    ctx.case(hseed, nontrivial=True, n=0)
    if got != wire:
        key = "rows/out-of-transmission-order/concurrent-users" if sorted(map(bytes, got)) == sorted(wire) else "rows/differ-from-wire/concurrent-users"  # type: ignore[arg-type]
        ctx.violation(key, "rows do not follow the order of transmission when several tasks share the client", w0 | {"wire": [x.hex() for x in wire], "rows": [g.hex() for g in got if g]})
        return
    shadow = {"session": 1, "security_access_level": None}
    for (q, reps), row in zip(tr.log, rows):
        ctx.evals()
        ctx.reach("concurrent.rows")
        fin = reps[-1] if reps else None
        if dh.unhex(row["response_pdu"]) != fin:
            ctx.violation("response_pdu/differs/concurrent-users", "row carries another reply than the one delivered for this request", w0 | {"request": q, "delivered": fin, "row": row["response_pdu"]})
        if json.loads(row["state"]) != shadow:
            ctx.violation("state/not-the-view-before-the-request/concurrent-users", "state column is not the state implied by the replies delivered before this transmission",
                          w0 | {"request": q, "row_state": row["state"], "shadow": shadow, "wire": [[a.hex(), [b.hex() for b in r]] for a, r in tr.log]})
        shadow = shadow_apply(shadow, fin)
        if row["response_time"] is not None and row["request_time"] > row["response_time"]:
            ctx.violation("time/send-after-receive", "request_time is later than response_time", w0 | {"request": q})


# ---- concurrent users of one ECU object, one of them cancelled at every suspension point ------------------------------
# Nothing in this family waits for the clock: the transport, the users and (with interval 0) the cyclic tester present worker only
# give up control with bare scheduling points or wait for each other, so the order in which tasks run is the event loop's FIFO order
# and the same for every run of one history.  Every task created while a run is going on is driven through a wrapper that counts its
# suspension points; a first run without cancellation yields the number of suspension points of the task to be cancelled, and then
# the history is run again once per suspension point (and once more per suspension point that another task's step ends).
CC_GUARD_S = 30.0  # wall-clock guard around one run (a run takes milliseconds; an expired guard is a harness error)


class Stepped(collections.abc.Coroutine):  # type: ignore[type-arg]
    """Stands between a task and its coroutine: one send()/throw() is one step of the task, the value it hands back is what the
    task is suspended on (a future, or None for a bare scheduling point)."""

    def __init__(self, coro: Any, hub: StepHub, ident: str) -> None:
        self.coro, self.hub, self.ident = coro, hub, ident
        self.yields = 0  # suspension points reached so far
        self.waiting: Any = None
        self.suspended = False
        self.woken = False
        self.task: Any = None

    def send(self, value: Any) -> Any:
        return self._step(self.coro.send, value)

    def throw(self, *a: Any) -> Any:
        return self._step(self.coro.throw, *a)

    def close(self) -> None:
        self.coro.close()

    def __await__(self) -> Any:
        return self.coro.__await__()

    def __getattr__(self, name: str) -> Any:  # cr_frame, cr_code, __qualname__ ... for reprs
        return getattr(self.coro, name)

    def _step(self, fn: Any, *a: Any) -> Any:
        hub = self.hub
        prev, hub.current = hub.current, self
        self.suspended = self.woken = False
        self.waiting = None
        try:
            y = fn(*a)
        except BaseException:
            hub.current = prev
            hub.after_step(self, ended=True)
            raise
        hub.current = prev
        self.yields += 1
        self.waiting, self.suspended = y, True
        hub.after_step(self, ended=False)
        return y


class StepHub:
    """Task factory + the one planned cancellation of a run.
    plan: None | ("early", ident, k): the task is cancelled the moment it reaches its k-th suspension point (it is still waiting)
               | ("late", ident, k): it is cancelled by the task whose step completes what it waits for at its k-th suspension
                 point, within that step (woken, not yet run)
               | ("stop-after", user, index): that user calls ECU.stop_cyclic_tester_present() right after its request returned."""

    def __init__(self, plan: tuple[Any, ...] | None, classify: Any) -> None:
        self.plan, self.classify = plan, classify
        self.current: Stepped | None = None
        self.steppers: dict[str, Stepped] = {}
        self.by_task: dict[Any, Stepped] = {}
        self.next_ident: str | None = None
        self.schedule: list[tuple[str, int]] = []
        self.latecap: dict[str, list[int]] = {}
        self.fired: dict[str, Any] | None = None

    def factory(self, loop: Any, coro: Any, **kw: Any) -> Any:
        ident, self.next_ident = self.next_ident or f"bg{len(self.steppers)}", None
        s = Stepped(coro, self, ident)
        t = asyncio.Task(s, loop=loop, **kw)
        s.task = t
        self.steppers[ident] = s
        self.by_task[t] = s
        self.latecap[ident] = []
        return t

    def after_step(self, s: Stepped, ended: bool) -> None:
        self.schedule.append((s.ident, -1 if ended else s.yields))
        for o in self.steppers.values():
            if o is not s and o.suspended and not o.woken and asyncio.isfuture(o.waiting) and o.waiting.done() and not o.waiting.cancelled():
                o.woken = True
                self.latecap[o.ident].append(o.yields)
                if self.plan is not None and self.plan[0] == "late" and self.plan[1:] == (o.ident, o.yields) and self.fired is None:
                    self.fire(o, "late", s.ident)
        if not ended and self.plan is not None and self.plan[0] == "early" and self.plan[1:] == (s.ident, s.yields) and self.fired is None:
            self.fire(s, "early", s.ident)

    def fire(self, victim: Stepped, how: str, by: str) -> None:
        self.fired = {"victim": victim.ident, "how": how, "by": by, "at_step": len(self.schedule)} | self.classify(victim, how)
        victim.task.cancel()


class StepTransport(dh.BaseTransport, scheme="vfstep"):  # type: ignore[call-arg,misc]
    """In-process transport without a clock.  write() logs the request (the write was attempted: the request counts as put on
    the wire) together with the client's view of the ECU state at that moment and takes `wy` scheduling points; the j-th read of
    an exchange takes lat[j] scheduling points and then delivers replies[j] (ResponsePending ... final), or raises TimeoutError
    when the script has no further reply.  `phase` of an entry says where its exchange is."""

    def __init__(self, hub: StepHub, scripts: Any) -> None:
        super().__init__(dh.TargetURI("tcp-lines://127.0.0.1:1"))
        self.hub, self.scripts = hub, scripts
        self.log: list[dict[str, Any]] = []
        self.cur: dict[str, Any] | None = None
        self.ecu: Any = None
        self.open_call: dict[str, dict[str, Any]] = {}
        self.overlap = 0

    @classmethod
    async def connect(cls, target: Any, timeout: float | None = None) -> StepTransport:
        raise NotImplementedError

    async def close(self) -> None:
        self.is_closed = True

    async def reconnect(self, timeout: float | None = None) -> StepTransport:
        return self

    async def write(self, data: bytes, timeout: float | None = None, tags: list[str] | None = None) -> int:
        who = self.hub.current.ident if self.hub.current is not None else "?"
        if self.cur is not None and not self.cur["ended"] and not self.cur["cut"]:
            self.overlap += 1  # two exchanges at once: the business of C05, noted only
        sc = self.scripts(bytes(data), sum(1 for e in self.log if e["q"] == bytes(data)))
        e = {"q": bytes(data), "who": who, "replies": [], "final": None, "ended": False, "cut": False, "phase": "during-write", "reads": 0,
             "script": sc, "state": dict(self.ecu.state.__dict__), "tags": list(tags or [])}
        call = self.open_call.get(who)
        if call is not None and call["tx"] is None:
            call["tx"] = len(self.log)
        self.log.append(e)
        self.cur = e
        for _ in range(sc["wy"]):
            await asyncio.sleep(0)
        e["phase"] = "between-write-and-read"
        return len(data)

    async def read(self, timeout: float | None = None, tags: list[str] | None = None) -> bytes:
        e = self.cur
        assert e is not None
        j = e["reads"]
        e["reads"] += 1
        lat = e["script"]["lat"]
        for n in range(lat[j] if j < len(lat) else 1):
            if not (j == 0 and n == 0):
                e["phase"] = "awaiting-reply" if not e["replies"] else "pending-read"
            await asyncio.sleep(0)
        if j >= len(e["script"]["replies"]):
            e["ended"], e["phase"] = True, "ended"
            raise TimeoutError("no reply")
        r = e["script"]["replies"][j]
        e["replies"].append(r)
        if r[:1] == b"\x7f" and r[2:3] == b"\x78":
            e["phase"] = "pending-read"
        else:
            e["final"], e["ended"], e["phase"] = r, True, "ended"
        return bytes(r)


def gen_cc(hseed: str) -> dict[str, Any]:
    rng = random.Random("cc/" + hseed)
    worker = rng.random() < 0.55
    users = rng.choice([1, 2, 2, 3]) if worker else rng.choice([2, 2, 3, 3, 4])
    iy = rng.choice([0, 0, 0, 1, 2])  # scheduling points a row's insert takes after the handler accepted the row
    state_changes = iy == 0 and rng.random() < 0.6

    def script(sid: int, kind: str) -> dict[str, Any]:
        pend = rng.choice([0, 0, 0, 1, 2]) if kind != "silence" else 0
        lat = [rng.choice([0, 1, 1, 2, 3])] + [rng.choice([1, 1, 2]) for _ in range(pend)]
        return {"wy": rng.choice([0, 0, 1, 2]), "lat": lat, "pend": pend, "kind": kind, "sid": sid}

    plan: list[list[dict[str, Any]]] = []
    for u in range(users):
        reqs = []
        for i in range(rng.randint(1, 3)):
            k = rng.random()
            kind = "dsc" if state_changes and k < 0.25 else "negative" if k < 0.37 else "silence" if k < 0.47 else "positive"
            req = {"u": u, "i": i, "pre": rng.randrange(3), "tag": rng.random() < 0.25, "session": rng.choice([1, 2, 3, 0x40 + u])}
            reqs.append(req | script(0x10 if kind == "dsc" else 0x22, kind))
        plan.append(reqs)
    tp = [script(0x3E, "positive" if rng.random() < 0.85 else "silence") for _ in range(5)]
    victim = "tp" if worker and rng.random() < 0.5 else f"u{rng.randrange(users)}"
    return {"hseed": hseed, "users": users, "worker": worker, "worker_first": rng.random() < 0.5, "iy": iy, "plan": plan, "tp": tp, "victim": victim}


def cc_pdu(r: dict[str, Any]) -> bytes:
    return bytes([0x10, r["session"]]) if r["kind"] == "dsc" else bytes([0x22, r["u"] + 1, r["i"]])


def cc_replies(q: bytes, sc: dict[str, Any]) -> list[bytes]:
    out = [bytes([0x7F, q[0], 0x78])] * sc["pend"]
    if sc["kind"] == "silence":
        return out
    if sc["kind"] == "negative":
        return out + [bytes([0x7F, q[0], 0x31])]
    if q[0] == 0x10:
        return out + [bytes([0x50, q[1], 0, 50, 1, 244])]
    if q[0] == 0x3E:
        return out + [b"\x7e\x00"]
    return out + [b"\x62" + q[1:3] + q[1:3]]


async def cc_run(spec: dict[str, Any], handler: Any, plan: tuple[Any, ...] | None, catch: dh.Catcher) -> dict[str, Any]:
    """one run of the history on a scan run of its own; -> what the harness saw (wire, calls, cancellation, task steps)"""
    from gallia.services.uds.core import service
    from gallia.services.uds.core.client import UDSRequestConfig
    from gallia.services.uds.ecu import ECU

    by_pdu = {cc_pdu(r): r for reqs in spec["plan"] for r in reqs}

    def scripts(q: bytes, nth: int) -> dict[str, Any]:
        sc = by_pdu.get(q) or spec["tp"][nth % len(spec["tp"])]
        return sc | {"replies": cc_replies(q, sc)}

    calls: list[dict[str, Any]] = []
    inserting: set[str] = set()

    def classify(victim: Stepped, how: str) -> dict[str, Any]:
        """where the task is at the moment it is cancelled - from what the harness saw: its open request() call, whether the
        transport has seen that request, and where the transport is with it"""
        call = tr.open_call.get(victim.ident)
        if call is None:
            return {"where": "between-requests", "request": None}
        w: dict[str, Any] = {"request": call["pdu"].hex(), "call": call["n"]}
        if call["tx"] is None:
            other = tr.cur is not None and not tr.cur["ended"] and not tr.cur["cut"]
            if how == "late":
                return w | {"where": "woken-not-run"}
            return w | {"where": "while-queued", "behind": tr.cur["q"].hex() if other and tr.cur else None}
        e = tr.log[call["tx"]]
        if victim.ident in inserting:
            return w | {"where": "during-db-insert"}
        if e["ended"]:
            return w | {"where": "after-the-exchange"}
        e["cut"] = True
        return w | {"where": "mid-exchange", "phase": e["phase"], "pending_replies_read": len(e["replies"])}

    hub = StepHub(plan, classify)
    tr = StepTransport(hub, scripts)

    class CCECU(ECU):
        async def request(self, request: Any, config: Any = None) -> Any:  # type: ignore[override]
            who = hub.current.ident if hub.current is not None else "?"
            call = {"n": len(calls), "who": who, "pdu": bytes(request.pdu), "tx": None, "open": True}
            calls.append(call)
            tr.open_call[who] = call
            try:
                return await super().request(request, config)
            finally:
                call["open"] = False
                if tr.open_call.get(who) is call:
                    del tr.open_call[who]

    ecu = CCECU(tr, timeout=0.05, max_retry=0)
    ecu.retry_wait = 0.0
    ecu.db_handler = handler
    tr.ecu = ecu
    await dh.guarded(handler.insert_scan_run(f"vf://c11cc/{spec['hseed']}/{'-'.join(map(str, plan)) if plan else 'reference'}"), "insert_scan_run")
    run_id = handler.scan_run
    catch.take_lost()
    orig_insert = handler.insert_scan_result

    async def insert_scan_result(*a: Any, **kw: Any) -> Any:
        r = await orig_insert(*a, **kw)
        who = hub.current.ident if hub.current is not None else "?"
        inserting.add(who)
        try:
            for _ in range(spec["iy"]):
                await asyncio.sleep(0)
        finally:
            inserting.discard(who)
        return r

    async def user(u: int) -> None:
        for r in spec["plan"][u]:
            for _ in range(r["pre"]):
                await asyncio.sleep(0)
            req = service.DiagnosticSessionControlRequest(r["session"]) if r["kind"] == "dsc" else service.ReadDataByIdentifierRequest(((u + 1) << 8) | r["i"])
            try:
                await ecu.request(req, UDSRequestConfig(tags=["ANALYZE"]) if r["tag"] else None)
            except Exception:  # noqa: BLE001
                pass
            if plan is not None and plan[0] == "stop-after" and plan[1:] == (u, r["i"]) and ecu.tester_present_task is not None:
                w = hub.by_task.get(ecu.tester_present_task)
                if w is not None and not w.task.done():
                    how = "late" if w.suspended and asyncio.isfuture(w.waiting) and w.waiting.done() and not w.waiting.cancelled() else "early"
                    hub.fired = {"victim": "tp", "how": how, "by": f"u{u}", "stopped_by_user": True, "at_step": len(hub.schedule)} | classify(w, how)
                await ecu.stop_cyclic_tester_present()

    async def start_worker() -> None:
        hub.next_ident = "tp"  # the one task start_cyclic_tester_present() creates
        await ecu.start_cyclic_tester_present(0)  # interval 0: the worker's sleep is a bare scheduling point
        assert hub.by_task[ecu.tester_present_task].ident == "tp"

    final_stop: dict[str, Any] = {}
    loop = asyncio.get_running_loop()
    handler.insert_scan_result = insert_scan_result  # instance attribute: this handler only
    loop.set_task_factory(hub.factory)
    tasks: list[Any] = []
    try:
        if spec["worker"] and spec["worker_first"]:
            await start_worker()
        for u in range(spec["users"]):
            hub.next_ident = f"u{u}"
            tasks.append(loop.create_task(user(u)))
        if spec["worker"] and not spec["worker_first"]:
            await start_worker()
        done, pending = await asyncio.wait(tasks, timeout=CC_GUARD_S)
        if pending:
            for t in pending:
                t.cancel()
            raise RuntimeError(f"concurrent-cancel run {spec['hseed']} plan={plan} did not finish: schedule tail {hub.schedule[-12:]}")
        if spec["worker"] and ecu.tester_present_task is not None and not ecu.tester_present_task.done():
            # the end of the run (as UDSScanner.teardown does); an exchange of the worker that is under way is cut off here
            w = hub.by_task[ecu.tester_present_task]
            final_stop.update(classify(w, "late" if w.suspended and asyncio.isfuture(w.waiting) and w.waiting.done() else "early"))
            await asyncio.wait_for(ecu.stop_cyclic_tester_present(), CC_GUARD_S)
        for t in done:
            if not t.cancelled() and t.exception() is not None:
                raise RuntimeError(f"concurrent-cancel user task failed: {t.exception()!r}")
    finally:
        loop.set_task_factory(None)
        del handler.insert_scan_result
    return {"plan": plan, "run": run_id, "wire": tr.log, "calls": calls, "fired": hub.fired, "lost": catch.take_lost(), "overlap": tr.overlap,
            "yields": {k: s.yields for k, s in hub.steppers.items()}, "latecap": hub.latecap, "schedule": hub.schedule, "final_stop": final_stop}


async def run_cc(ctx: Any, hseed: str, path: Any, catch: dh.Catcher) -> None:
    spec = gen_cc(hseed)
    handler = await dh.open_handler(path, "vf://c11cc/" + hseed)
    runs: list[dict[str, Any]] = []
    try:
        # harness configuration: one history writes a few thousand rows, each committed on its own; no fsync per commit
        # (what the file holds after a power loss is not judged, what it holds after disconnect() is)
        await dh.guarded(handler.connection.execute("PRAGMA synchronous = OFF"), "connection.execute")
        ref = await cc_run(spec, handler, None, catch)
        runs.append(ref)
        v = spec["victim"]
        plans: list[tuple[Any, ...]] = [("early", v, k) for k in range(1, ref["yields"].get(v, 0) + 1)] + [("late", v, k) for k in sorted(set(ref["latecap"].get(v, [])))]
        if v == "tp":
            plans += [("stop-after", r["u"], r["i"]) for reqs in spec["plan"] for r in reqs]
        for p in plans:
            runs.append(await cc_run(spec, handler, p, catch))
    finally:
        await dh.close_handler(handler, DISCONNECT_GUARD_S)
    stray = catch.take_lost()
    rows = dh.read_rows(path)
    ctx.reach("conc-cancel.histories")
    ctx.reach(f"conc-cancel.tasks:{spec['users'] + int(spec['worker'])}")
    if spec["worker"]:
        ctx.reach("conc-cancel.histories-with-tester-present-worker")
    if stray:
        ctx.violation("warning/outside-any-exchange", "'Could not log messages to database' outside a request", {"family": "concurrent-cancel", "hseed": hseed, "warnings": stray})
    known = {r["run"] for r in runs}
    if any(row["run"] not in known for row in rows):
        ctx.violation("row/wrong-run/concurrent-cancel", "a row belongs to no scan run of this handler", {"family": "concurrent-cancel", "hseed": hseed})
    ctx.case(hseed, nontrivial=len(runs) > 1, n=0)
    for r in runs:
        judge_cc(ctx, spec, ref, r, [row for row in rows if row["run"] == r["run"]])


def judge_cc(ctx: Any, spec: dict[str, Any], ref: dict[str, Any], r: dict[str, Any], rows: list[dict[str, Any]]) -> None:
    import difflib

    wire, fired, plan = r["wire"], r["fired"], r["plan"]
    ctx.reach("conc-cancel.runs")
    w0 = {"family": "concurrent-cancel", "hseed": spec["hseed"], "tasks": spec["users"] + int(spec["worker"]), "worker": spec["worker"], "insert_yields": spec["iy"],
          "plan": list(plan) if plan else None, "cancel": fired,
          "wire": [[e["who"], e["q"].hex(), [x.hex() for x in e["replies"]], "ended" if e["ended"] else "cut:" + e["phase"]] for e in wire][:40],
          "calls": [[c["who"], c["pdu"].hex(), "transmitted" if c["tx"] is not None else "never transmitted"] for c in r["calls"]][:40],
          "rows": [[x["id"], x["request_pdu"] if isinstance(x["request_pdu"], str) else repr(x["request_pdu"]), x["response_pdu"], x["exception"]] for x in rows][:40]}
    where = "none"
    if fired is not None:
        where = fired["where"]
        worker = ".worker" if fired["victim"] == "tp" else ""
        ctx.reach(f"cancel.{where}")
        if worker:
            ctx.reach(f"cancel.worker.{where}")
        if where == "mid-exchange":
            ctx.reach(f"cancel.mid-exchange.{fired['phase']}")
        if fired.get("stopped_by_user"):
            ctx.reach("cancel.worker.stopped-by-a-user-right-after-its-request")
            ctx.reach(f"cancel.worker.stopped-by-a-user-right-after-its-request.{where}")
        if fired["how"] == "late" and fired["by"] not in (fired["victim"], "?"):
            ctx.reach("cancel.issued-by-the-task-that-woke-the-victim-within-the-same-step")
        # the run is the reference run up to the cancellation (no clock anywhere: a difference means the harness is not deterministic)
        n = max(0, fired["at_step"] - 1)
        if r["schedule"][:n] != ref["schedule"][:n]:
            ctx.reach("conc-cancel.prefix-differs-from-reference-run")
    elif plan is not None:
        ctx.reach("conc-cancel.planned-cancellation-not-reached")
    if r["overlap"]:
        ctx.reach("conc-cancel.exchanges-overlapped-on-the-transport")
    if r["lost"]:
        ctx.violation("row-lost/concurrent-cancel", "'Could not log messages to database' with several users of one ECU object", w0 | {"warnings": r["lost"][:3]})
    ctx.trace(("cc", tuple((e["who"], e["q"][0], len(e["replies"]), e["ended"]) for e in wire), where, fired["how"] if fired else None))

    never = [c for c in r["calls"] if c["tx"] is None]
    if never:
        ctx.reach("conc-cancel.request-never-transmitted")
    want = [e["q"] for e in wire]
    got = [dh.unhex(x["request_pdu"]) or b"" for x in rows]
    pairs: list[tuple[dict[str, Any], dict[str, Any]]] = []
    if got == want:
        pairs = list(zip(wire, rows))
    elif len(got) == len(want) and sorted(got) == sorted(want):
        ctx.violation("rows/out-of-transmission-order/concurrent-cancel", "rows are not in transmission order", w0)
        return
    else:
        sm = difflib.SequenceMatcher(a=want, b=got, autojunk=False)
        for op, i1, i2, j1, j2 in sm.get_opcodes():
            if op == "equal":
                # rows are surplus or missing: the alignment of identical requests (tester present) is a guess, their fields are not judged
                pairs += [(e, row) for e, row in zip(wire[i1:i2], rows[j1:j2]) if want.count(e["q"]) == 1 and got.count(e["q"]) == 1]
                continue
            for e in wire[i1:i2]:
                if e["cut"]:
                    ctx.violation(f"row-missing/concurrent-cancel/interrupted-exchange/{e['phase']}",
                                  "a request that was put on the wire and then cancelled has no row", w0 | {"request": e["q"].hex()})
                else:
                    ctx.violation("row-missing/concurrent-cancel/completed-exchange" + (f"/cancelled-{where}" if where == "during-db-insert" and fired and e["who"] == fired["victim"] else ""),
                                  "a completed exchange has no row", w0 | {"request": e["q"].hex()})
            for j in range(j1, j2):
                nt = [c for c in never if c["pdu"] == got[j]]
                if nt:
                    how = {"while-queued": "cancelled-while-queued", "woken-not-run": "cancelled-woken-not-run"}.get(where, "other") if fired and nt[0]["who"] == fired["victim"] else "other"
                    ctx.violation(f"row-extra/request-never-transmitted/{how}", "a row exists for a request that was never put on the wire (its caller was cancelled while it waited for another exchange)",
                                  w0 | {"row": [rows[j]["id"], got[j].hex(), rows[j]["response_pdu"], rows[j]["exception"]], "row_position": j})
                elif got[j] in want:
                    ctx.violation("row-extra/concurrent-cancel/duplicate", "a request was recorded twice", w0 | {"row": [rows[j]["id"], got[j].hex()]})
                else:
                    ctx.violation("row-extra/concurrent-cancel/unknown-request", "a row exists for a request the transport never saw", w0 | {"row": [rows[j]["id"], got[j].hex()]})
    for e, row in pairs:
        ctx.evals()
        ctx.reach("conc-cancel.rows-compared")
        wd = w0 | {"request": e["q"].hex(), "row": {k: row[k] for k in ("id", "log_mode", "state", "request_pdu", "response_pdu", "exception")}}
        have = dh.unhex(row["response_pdu"])
        if e["cut"]:
            ctx.reach("conc-cancel.interrupted-exchange-recorded")
            if have is not None:
                ctx.violation("row/interrupted-exchange-has-reply/concurrent-cancel", "the row of an exchange cancelled before its final reply carries a reply", wd)
            if row["exception"] is not None:
                ctx.reach("conc-cancel.interrupted-exchange-recorded-with-exception")
        else:
            if have != e["final"]:
                ctx.violation("response_pdu/differs/concurrent-cancel", "row carries another reply than the one delivered for this request", wd | {"delivered": e["final"]})
            if (row["exception"] is None) != (e["final"] is not None):
                ctx.violation("exception/" + ("unexpected" if e["final"] is not None else "missing") + "/concurrent-cancel", "exception column does not match the outcome of the request", wd)
            if row["response_time"] is None and have is not None:
                ctx.violation("response_time/null-although-reply-recorded/concurrent-cancel", "the row holds a reply but no receive time", wd)
        if row["response_time"] is not None and row["request_time"] > row["response_time"]:
            ctx.violation("time/send-after-receive", "request_time is later than response_time", wd)
        try:
            st = json.loads(row["state"])
        except (TypeError, ValueError):
            st = None
        if st != e["state"]:
            ctx.violation("state/not-the-view-before-the-request/concurrent-cancel", "state column is not the client's view of the ECU when the request was written", wd | {"state_at_write": e["state"]})
        if e["state"]["session"] != 1:
            ctx.reach("conc-cancel.non-default-state-row")
        want_mode = "emphasized" if "ANALYZE" in e["tags"] else "implicit"
        if row["log_mode"] != want_mode:
            ctx.violation(f"log_mode/{row['log_mode']}-instead-of-{want_mode}/concurrent-cancel", "log_mode is not what the request asked for", wd)
    if fired is not None and ctx.rng.random() < 0.01:
        ctx.sample(w0)


# ---- scanner runs: the command layer hands the scanner's implicit-logging preference to the client ---------------------
_SCAN: dict[str, Any] = {}
SCAN_GUARD_S = 90.0  # wall-clock guard around one batch of entry_point() runs


def define_scanner() -> dict[str, Any]:
    """harness UDSScanner (real setup() / teardown() through super(), real entry_point()) and the ECU class it is given"""
    if _SCAN:
        return _SCAN
    import gallia.command  # noqa: F401  (before gallia.plugins.plugin)
    from gallia.command.uds import UDSScanner, UDSScannerConfig
    from gallia.services.uds.core.client import UDSRequestConfig
    from gallia.services.uds.core.exception import UDSException
    from gallia.services.uds.ecu import ECU, ECUProperties

    class C11ECU(ECU):
        """an OEM client whose properties() asks the ECU for something (the generic one sends nothing): the identifiers are
        configured per run on the transport"""

        async def properties(self, fresh: bool = False, config: Any = None) -> Any:
            for did in getattr(self.transport, "props_dids", []):
                await self.read_data_by_identifier(did, config=config)
            return ECUProperties()

    class C11Scanner(UDSScanner):
        CONFIG_TYPE = UDSScannerConfig
        SHORT_HELP = "C11 harness scanner: logs only what it asks for"
        pending: dict[str, Any] = {}

        def __init__(self, config: Any) -> None:
            super().__init__(config)
            self.plan: dict[str, Any] = dict(type(self).pending)
            self.phase = "constructed"
            self.wanted = True  # the harness's own note of what the scanner asked for
            if self.plan["start"] == "off":
                self.implicit_logging = False  # as the dump-seeds scanner does in its constructor
                self.wanted = False
            elif self.plan["start"] == "on-explicit":
                self.implicit_logging = True

        async def setup(self) -> None:
            self.phase = "setup"
            await super().setup()

        async def main(self) -> None:
            self.phase = "main"
            self.ecu.retry_wait = 0.0
            for op in self.plan["main"]:
                cfg = UDSRequestConfig(tags=["ANALYZE"]) if op[-1] == "ANALYZE" else UDSRequestConfig(tags=["OTHER"]) if op[-1] == "OTHER" else None
                try:
                    if op[0] == "set":
                        self.implicit_logging = bool(op[1])
                        self.wanted = bool(op[1])
                    elif op[0] == "sleep":
                        await asyncio.sleep(op[1])
                    elif op[0] == "rdbi":
                        await self.ecu.read_data_by_identifier(op[1], config=cfg)
                    elif op[0] == "ping":
                        await self.ecu.ping(config=cfg)
                    elif op[0] == "seed":
                        await self.ecu.security_access_request_seed(op[1], config=cfg)
                    elif op[0] == "dsc":
                        await self.ecu.diagnostic_session_control(op[1], config=cfg)
                    else:
                        raise AssertionError(op)
                except (UDSException, ConnectionError):
                    pass

        async def teardown(self) -> None:
            self.phase = "teardown"
            await super().teardown()

    _SCAN.update({"scanner": C11Scanner, "ecu": C11ECU, "config": UDSScannerConfig})
    return _SCAN


async def scan_responder(q: bytes) -> list[bytes]:
    sid = q[0]
    if sid == 0x3E:
        return [] if q[1:2] == b"\x80" else [b"\x7e\x00"]
    if sid == 0x11:
        return [bytes([0x51, q[1]])]
    if sid == 0x10:
        return [bytes([0x50, q[1] & 0x7F, 0, 50, 1, 244])]
    if sid == 0x27:
        return [bytes([0x67, q[1]]) + (b"\x11\x22\x33\x44" if q[1] % 2 else b"")]
    if sid == 0x22 and len(q) == 3:
        if q[1] == 0xEE:
            return []  # the ECU stays silent
        if q[1] == 0xDD:
            return [b"\x7f\x22\x31"]
        return [b"\x62" + q[1:3] + q[1:3]]
    return [bytes([0x7F, sid, 0x11])]


def gen_scan(hseed: str) -> dict[str, Any]:
    """options and main() script of one scanner; it is run twice: starting with implicit logging off, and (twin) on"""
    rng = random.Random("scan/" + hseed)
    ping = rng.random() < 0.8
    ecu_reset = 1 if rng.random() < 0.3 else None
    props = rng.choice([[], [], [0xF190], [0xF190, 0xF18C]])
    if not (ping or ecu_reset or props):
        ping = True
    tester_present = rng.random() < 0.25
    did = [0x1000 + rng.randrange(0x100) * 0x10]

    def request() -> list[Any]:
        did[0] += 1
        tag = rng.choice([None, None, None, "ANALYZE", "ANALYZE", "OTHER"])
        k = rng.random()
        if k < 0.5:
            return ["rdbi", did[0], tag]
        if k < 0.6:
            return ["rdbi", 0xEE00 | (did[0] & 0xFF), tag]
        if k < 0.7:
            return ["rdbi", 0xDD00 | (did[0] & 0xFF), tag]
        if k < 0.8:
            return ["ping", tag]
        if k < 0.9:
            return ["seed", rng.choice([1, 3, 0x11]), tag]
        return ["dsc", rng.choice([1, 2, 3]), tag]

    # quiet / logged / quiet (/ logged ...): logging is switched on for some requests and off again
    ops: list[list[Any]] = []
    for _ in range(rng.randint(0, 3)):
        ops.append(request())
    value = True
    for _ in range(rng.choice([2, 2, 2, 3, 4])):
        ops.append(["set", value])
        for _ in range(rng.randint(1, 4)):
            ops.append(request())
        value = not value
    if tester_present:
        for _ in range(2):
            ops.insert(rng.randint(0, len(ops)), ["sleep", 0.03])
    options = {"ping": ping, "ecu_reset": ecu_reset, "properties": bool(props) or rng.random() < 0.5, "tester_present": tester_present,
               "tester_present_interval": 0.01, "timeout": 0.05, "max_retries": 0}
    return {"hseed": hseed, "options": options, "props_dids": props, "main": ops}


async def run_scan_batch(ctx: Any, batch: list[tuple[dict[str, Any], str]], scratch: Any, catch: dh.Catcher, tag: str) -> None:
    """runs the scanners of `batch` ((plan, start) pairs) concurrently on this loop - each with its own transport, ECU and
    database file - through the real BaseCommand.entry_point(), then judges each run on its own wire log and rows"""
    import gallia.command.uds as guds
    from gallia.transports.base import TargetURI

    d = define_scanner()
    catch.take_lost()
    runs: list[dict[str, Any]] = []
    orig_load_ecu = guds.load_ecu
    guds.load_ecu = lambda vendor: d["ecu"]  # type: ignore[assignment]
    # fault injection at the library boundary: for every second run of the batch the final UPDATE of the run_meta row fails once with
    # 'database is locked' (as under contention by another writer). The statement still demands every completed exchange in the file.
    import aiosqlite
    from gallia.db.handler import DBHandler

    failing_paths: set[str] = set()
    orig_complete = DBHandler.complete_run_meta

    async def complete_run_meta(self: Any, *a: Any, **kw: Any) -> Any:
        if str(self.path) in failing_paths:
            failing_paths.discard(str(self.path))
            ctx.reach("scanner.run_meta-update-failed-once")
            raise aiosqlite.OperationalError("database is locked")
        return await orig_complete(self, *a, **kw)

    DBHandler.complete_run_meta = complete_run_meta  # type: ignore[method-assign]
    try:
        with dh.TransportLoaders() as loaders:
            for n, (plan, start) in enumerate(batch):
                target = f"tcp-lines://127.0.0.1:{2000 + n}"
                path = scratch / f"c11-scan-{tag}-{n}.sqlite"
                holder: dict[str, Any] = {}
                tr = dh.ScanTransport(TargetURI(target), scan_responder, lambda h=holder: (h["s"].phase, h["s"].wanted) if "s" in h else ("no-scanner", True))
                tr.props_dids = list(plan["props_dids"])  # type: ignore[attr-defined]
                loaders.register(target, tr)
                config = d["config"](target=target, db=path, dumpcap=False, hooks=False, artifacts_base=None, power_supply=None, **plan["options"])
                d["scanner"].pending = {"start": start, "main": plan["main"]}
                scanner = d["scanner"](config)
                holder["s"] = scanner
                if n % 2 == 1:
                    failing_paths.add(str(path))
                runs.append({"plan": plan, "start": start, "path": path, "tr": tr, "scanner": scanner})
            try:
                codes = await asyncio.wait_for(asyncio.gather(*(r["scanner"].entry_point() for r in runs), return_exceptions=True), SCAN_GUARD_S)
            except TimeoutError:
                raise RuntimeError(f"scanner batch {tag} did not finish within {SCAN_GUARD_S}s: {[r['plan']['hseed'] + '/' + r['start'] for r in runs]}") from None
    finally:
        guds.load_ecu = orig_load_ecu  # type: ignore[assignment]
        DBHandler.complete_run_meta = orig_complete  # type: ignore[method-assign]
    # entry_point() has returned: the database must be closed (queue joined, committed). A handler that is still connected means
    # the run ended without flushing its rows; it is closed by force here so that its worker thread cannot keep the process alive.
    for r in runs:
        h = r["scanner"].db_handler
        if h is not None and getattr(h, "connection", None) is not None:
            pending = h._execute_queue.qsize() if getattr(h, "_execute_queue", None) is not None else None
            ctx.violation("db/not-closed-after-run/run_meta-update-failed" if str(r["path"]) not in failing_paths and r is not None and runs.index(r) % 2 == 1 else "db/not-closed-after-run",
                          "entry_point() returned but the database handler was never disconnected: queued rows are not written",
                          {"family": "scanner", "hseed": r["plan"]["hseed"], "start": r["start"], "rows_still_queued": pending})
            await dh.force_close(h)
            r["leaked"] = True
    dh.stop_leaked_connections()
    lost = catch.take_lost()
    try:
        if lost:
            ctx.violation("row-lost/scanner-run", "'Could not log messages to database' during a scanner run", {"family": "scanner", "hseed": batch[0][0]["hseed"], "warnings": lost[:5]})
        for r, code in zip(runs, codes):
            if code != 0:
                raise RuntimeError(f"harness scanner {r['plan']['hseed']}/{r['start']} ended with {code!r}, wire={len(r['tr'].log)}")
            judge_scan(ctx, r, dh.read_rows(r["path"]))
    finally:
        for r in runs:
            for suffix in ("", "-wal", "-shm"):
                p = r["path"].with_name(r["path"].name + suffix)
                if p.exists():
                    p.unlink()


def judge_scan(ctx: Any, r: dict[str, Any], rows: list[dict[str, Any]]) -> None:
    import difflib
    import itertools

    plan, start, wire = r["plan"], r["start"], r["tr"].log
    scan_run = r["scanner"].db_handler.scan_run if r["scanner"].db_handler is not None else None
    ctx.reach("scanner.runs")
    ctx.reach("scanner.started-with-logging-" + ("off" if start == "off" else "on"))
    w0 = {"family": "scanner", "hseed": plan["hseed"], "start": start, "options": plan["options"], "props_dids": plan["props_dids"], "main": plan["main"],
          "wire": [[e["at_write"][0], e["at_write"][1], e["at_read"][1] if e["at_read"] else None, e["q"].hex(), [x.hex() for x in e["replies"]]] for e in wire][:60],
          "rows": [[x["id"], x["request_pdu"] if isinstance(x["request_pdu"], str) else repr(x["request_pdu"]), x["log_mode"]] for x in rows][:60]}
    # what the transport saw: was logging wanted while the request was on the wire
    sure: list[bool | None] = []
    for e in wire:
        w = e["at_write"][1]
        rd = e["at_read"][1] if e["at_read"] is not None else None
        sure.append(w if rd == w else None)  # None: the preference changed (or the exchange was cut off) while the request was in flight
        ph = e["at_write"][0]
        ctx.reach(f"scanner.{ph}-requests.while-logging-" + ("undecided" if sure[-1] is None else "on" if sure[-1] else "off"))
        if ph == "setup":
            ctx.reach("scanner.setup-source:" + {0x3E: "ping", 0x11: "ecu-reset", 0x22: "properties"}.get(e["q"][0], "other"))
        if ph == "main" and e["q"][:1] == b"\x3e" and plan["options"]["tester_present"]:
            ctx.reach("scanner.main-pings-with-background-tester-present")
    toggles = sum(1 for a, b in zip(wire, wire[1:]) if a["at_write"][1] != b["at_write"][1])
    ctx.reach("scanner.logging-toggled-between-requests", toggles)
    ctx.case(("scan", plan["hseed"], start), nontrivial=toggles > 0, n=0)
    ctx.trace(("scan", tuple((e["at_write"][0], s, e["q"][0]) for e, s in zip(wire, sure))))

    got = [dh.unhex(x["request_pdu"]) or b"" for x in rows]
    undecided = [i for i, s in enumerate(sure) if s is None]
    chosen: list[int] | None = None
    if len(undecided) <= 6:
        for pick in itertools.product([False, True], repeat=len(undecided)):
            on = [i for i, s in enumerate(sure) if s or (s is None and pick[undecided.index(i)])]
            if [wire[i]["q"] for i in on] == got:
                chosen = on
                break
    if chosen is None and len(undecided) <= 6:
        # the right rows in another order: an order violation, not surplus and missing rows
        for pick in itertools.product([False, True], repeat=len(undecided)):
            on = [i for i, s in enumerate(sure) if s or (s is None and pick[undecided.index(i)])]
            if sorted(wire[i]["q"] for i in on) == sorted(got):
                ctx.violation("rows/out-of-transmission-order/scanner-run", "rows of a scanner run are not in transmission order",
                              w0 | {"wire_order": [wire[i]["q"].hex() for i in on][:60]})
                return
    if chosen is None:
        on = [i for i, s in enumerate(sure) if s]
        want = [wire[i]["q"] for i in on]
        sm = difflib.SequenceMatcher(a=want, b=got, autojunk=False)
        taken: set[int] = set()
        for op, i1, i2, j1, j2 in sm.get_opcodes():
            if op == "equal":
                continue
            for i in range(i1, i2):
                e = wire[on[i]]
                ctx.violation(f"row-missing/scanner-run/{e['at_write'][0]}-traffic-while-implicit-logging-on",
                              "a request the scanner sent with implicit logging switched on has no row", w0 | {"request": e["q"].hex(), "wire_index": on[i]})
            for j in range(j1, j2):
                # rows are in transmission order: a surplus row can only stand for an exchange the transport saw between the recorded
                # exchanges around it. Each such exchange (sent while logging was off or undecided) accounts for one surplus row; a row
                # beyond that was never on the wire there, however often the same bytes were sent elsewhere (tester present)
                a, b = i1, i2  # recorded exchanges with the very same bytes next to the gap are interchangeable in the alignment: look past them
                while a > 0 and want[a - 1] == got[j]:
                    a -= 1
                while b < len(on) and want[b] == got[j]:
                    b += 1
                lo, hi = (on[a - 1] if a > 0 else -1), (on[b] if b < len(on) else len(wire))
                near = [k for k in range(lo + 1, hi) if wire[k]["q"] == got[j] and not sure[k] and k not in taken]
                anyw = [k for k in range(len(wire)) if wire[k]["q"] == got[j] and not sure[k] and k not in taken]
                k = near[0] if near else None
                if k is not None:
                    taken.add(k)
                    key = f"row-extra/{wire[k]['at_write'][0]}-traffic-while-implicit-logging-off"
                    what = "a request sent while the scanner had implicit logging switched off was recorded"
                elif anyw:
                    key = "row-extra/request-never-transmitted/scanner-run"
                    what = ("a row exists for a request the transport did not see at that position (the same bytes were sent elsewhere while logging was off: "
                            "with rows in transmission order that exchange cannot account for this row)")
                elif got[j] in want:
                    key, what = "row-extra/scanner-run/duplicate", "a request was recorded twice"
                else:
                    key, what = "row-extra/scanner-run/unknown-request", "a row exists for a request the transport never saw"
                ctx.violation(key, what, w0 | {"row": [rows[j]["id"], got[j].hex(), rows[j]["log_mode"]], "wire_index": k, "between_wire_indices": [lo, hi]})
        return
    for i, row in zip(chosen, rows):
        e = wire[i]
        ctx.evals()
        ctx.reach("scanner.rows-compared")
        ph = e["at_write"][0]
        if ph == "setup":
            ctx.reach("scanner.setup-request-recorded.logging-on-from-the-start")
        wd = w0 | {"request": e["q"].hex(), "row": {k: row[k] for k in ("id", "run", "log_mode", "request_pdu", "response_pdu", "exception")}}
        if row["run"] != scan_run:
            ctx.violation("row/wrong-run/scanner-run", "row does not belong to the scan run of this scanner", wd)
        if sure[i] is None:
            continue  # cut off or straddling a toggle: only its presence was judged
        fin = e["replies"][-1] if e["replies"] else None
        if dh.unhex(row["response_pdu"]) != fin:
            ctx.violation("response_pdu/differs/scanner-run", "row carries another reply than the one delivered for this request", wd | {"delivered": fin})
        if (row["exception"] is None) != (fin is not None):
            ctx.violation("exception/" + ("unexpected" if fin is not None else "missing") + "/scanner-run", "exception column does not match the outcome of the request", wd)
        want_mode = "emphasized" if "ANALYZE" in e["tags"] else "implicit"
        if row["log_mode"] != want_mode:
            ctx.violation(f"log_mode/{row['log_mode']}-instead-of-{want_mode}/scanner-run", "log_mode is not what the request asked for", wd)
        if row["response_time"] is not None and row["request_time"] > row["response_time"]:
            ctx.violation("time/send-after-receive", "request_time is later than response_time", wd)
    if ctx.rng.random() < 0.1:
        ctx.sample(w0)


async def run_scans(ctx: Any, seeds: list[str], scratch: Any, catch: dh.Catcher, batch_size: int = 8) -> None:
    todo: list[tuple[dict[str, Any], str]] = []
    for hs in seeds:
        plan = gen_scan(hs)
        todo.append((plan, "off"))
        todo.append((plan, "on" if random.Random("twin/" + hs).random() < 0.7 else "on-explicit"))
    for b in range(0, len(todo), batch_size):
        if ctx.out_of_time():
            break
        await run_scan_batch(ctx, todo[b : b + batch_size], scratch, catch, str(b))


# ---- entry points -----------------------------------------------------------------------------------------
async def arun(ctx: Any, params: dict[str, Any], only: str | None = None) -> None:
    catch = dh.install_catcher()
    scratch = ctx.mkscratch()
    seeds = [only] if only else [f"{params['base']}/{i}" for i in range(params["n"])]
    if params["mode"] == "scan":
        await run_scans(ctx, seeds, scratch, catch)
        return
    if params["mode"] == "lock":
        bursts = [f"{params['base']}/b{i}" for i in range(int(params.get("burst", 0)))] if not only else []
        per_wave = -(-len(bursts) // max(1, -(-len(seeds) // int(params.get("wave", 18))))) if bursts else 0  # the bursts are spread over the waves
        wave = int(params.get("wave", 18))
        mixed: list[str] = []
        for b in range(0, len(seeds), wave):
            mixed += seeds[b : b + wave] + bursts[(b // wave) * per_wave : (b // wave + 1) * per_wave]
        await run_lock_waves(ctx, mixed, scratch, wave + per_wave)
        return
    for n, hseed in enumerate(seeds):
        if ctx.out_of_time():
            break
        path = scratch / f"c11-{n}.sqlite"
        try:
            if params["mode"] == "conc":
                await run_concurrent(ctx, hseed, path, catch)
            elif params["mode"] == "cc":
                await run_cc(ctx, hseed, path, catch)
            elif params["mode"] == "wf":
                await run_history(ctx, gen_wf_history(hseed), path, catch)
            else:
                await run_history(ctx, gen_history(hseed), path, catch)
        finally:
            for suffix in ("", "-wal", "-shm"):
                p = path.with_name(path.name + suffix)
                if p.exists():
                    p.unlink()


def run(ctx: Any, params: dict[str, Any]) -> None:
    import gallia.command  # noqa: F401

    if params["mode"] == "reuse":
        run_reuse_shard(ctx, params)
        return
    asyncio.run(arun(ctx, params))


def replay(ctx: Any, witness: dict[str, Any]) -> None:
    import gallia.command  # noqa: F401

    mode = {"concurrent": "conc", "concurrent-cancel": "cc", "writer-faults": "wf", "scanner": "scan", "foreign-lock": "lock", "handler-reuse": "reuse"}.get(witness.get("family"), "hist")
    if mode == "reuse":
        run_reuse_shard(ctx, {"mode": mode}, only=witness["reuse"]["of"])
        return
    asyncio.run(arun(ctx, {"mode": mode}, only=witness["hseed"]))
