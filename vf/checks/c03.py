"""C03 Genuine replies are always accepted, foreign or stale replies always refused (DESIGN.md section 3)."""

from __future__ import annotations

import random
from typing import Any

from vf import gen_uds
from vf import iso14229 as iso
from vf.checks.c01 import enumerate_kinds

PROPERTY = "C03"
LEVEL = "exploration"
ENGINE = "iso14229-reference"
TECHNIQUE = (
    "runtime oracle on helpers.parse_pdu / Response.matches / negative-response-to-exception mapping: request x reply matrix "
    "classified by an independent echo table (genuine / foreign service / changed primary identifier / undecodable)"
)
LEVEL_TEXT = (
    "Exploration: for generated requests of every kind (typed, raw form, suppress-bit variants, raw requests of services without "
    "typed classes) the real parse_pdu is called with the genuine reply, every other service's positive reply, replies with one "
    "echoed byte changed at each echo position, negative responses naming the same/another service with every defined response "
    "code and a sample of undefined ones, truncated replies and 7F xx; the outcome class (returned / mismatch / malformed) must be "
    "the one the statement prescribes. All defined response codes are mapped to their exception class exhaustively."
)
LEVEL_NOTE = "Trusted: echo table and minimal genuine replies in vf/iso14229.py. Secondary echoes (e.g. DDDID of 0x2C) are not required to be compared."
RULE = (
    "cases = (request bytes, reply bytes) pairs: requests from the C01 generators (all kinds) x reply families {genuine, other "
    "service positive (19 sids), echo byte changed per position, NR same/other service x all UDSErrorCodes, invalid codes, "
    "truncations, 2-byte 7F xx}; non-trivial = every pair; distinct = distinct (request bytes, reply bytes, request form)"
)
ASSUMPTIONS = [
    "the identifier whose change must cause refusal: sub-function (+ routine id for 0x31), first DID for 0x22/0x2E/0x2F, block counter for 0x36, ALFID+address+size for 0x3D, data length for 0x23",
    "a changed echo that also makes the reply undecodable may be refused as mismatch or as malformed",
    "a reply the reference calls malformed but the codec accepts and re-encodes identically is counted (lenient), not reported",
]
EXHAUSTIVE = {"quick": False, "thorough": False}
EXHAUSTIVE_NOTE = "exhaustive sub-space: every UDSErrorCodes member x every typed service id for the negative-response paths"

UNTYPED_SIDS = [0x24, 0x2A, 0x83, 0x84, 0x86, 0x87, 0x29, 0x38, 0xBA, 0x01, 0x09]


def shards(tier: str, seed: int) -> list[dict[str, Any]]:
    n = 40 if tier == "quick" else 1200
    k = 8 if tier == "quick" else 16
    return [{"per_kind": n, "part": i} for i in range(k)]


def required_reach(tier: str) -> dict[str, int]:
    from gallia.services.uds.core.constants import UDSErrorCodes

    # every defined response code must have gone through the code -> exception mapping
    return {"#outcome.returned:": 19, "#outcome.mismatch:": 19, "#outcome.malformed:": 15, "#nrc.mapped:": len(UDSErrorCodes), "matches.direct": 100, "raw-untyped": 50, "matches.direct.changed-echo": 500, "raise_for_mismatch.raised": 500}


def outcome(parse_pdu: Any, exc: Any, reply: bytes, req: Any) -> tuple[str, Any]:
    try:
        r = parse_pdu(reply, req)
        return "returned", r
    except exc.RequestResponseMismatch as e:
        return "mismatch", e
    except exc.MalformedResponse as e:
        return "malformed", e
    except Exception as e:  # anything else is a crash of the matcher
        return "raises:" + type(e).__name__, e


class Mon:
    def __init__(self, ctx: Any):
        from gallia.services.uds import helpers
        from gallia.services.uds.core import exception, service
        from gallia.services.uds.core.constants import UDSErrorCodes

        self.ctx = ctx
        self.helpers = helpers
        self.exc = exception
        self.service = service
        self.codes = [int(c) for c in UDSErrorCodes]
        self.invalid_codes = [c for c in range(256) if c not in self.codes]

    def expect(self, fam: str, want: set[str], q: bytes, reply: bytes, req: Any, form: str) -> str:
        ctx = self.ctx
        ctx.case((form, q, reply))
        got, obj = outcome(self.helpers.parse_pdu, self.exc, reply, req)
        sid = q[0]
        ctx.reach(f"outcome.{got.split(':')[0]}:{sid:02x}")
        if got in want:
            if got == "returned" and obj.pdu != reply and iso.decode_response(reply) is not None:
                ctx.violation(f"parse_pdu/{fam}/returned-bytes-differ/{sid:02x}", "accepted reply re-serialises differently", {"request": q, "reply": reply, "form": form, "got": obj.pdu})
            return got
        w = {"request": q, "reply": reply, "form": form, "family": fam, "got": got, "want": sorted(want), "detail": repr(obj)[:300]}
        sub = ""
        if sid in (0x19, 0x2C, 0x31) and len(q) > 1:
            sub = f".{q[1] & 0x7F:02x}"
        ctx.violation(f"parse_pdu/{fam}/{got}-instead-of-{'|'.join(sorted(want))}/{sid:02x}{sub}", f"{fam} reply: outcome {got}, expected {sorted(want)}", w)
        return got

    def request_forms(self, kinds: dict[str, type], c: gen_uds.Case) -> list[tuple[str, Any]]:
        out = []
        try:
            out.append(("typed", kinds[c.cls](*c.args, **c.kwargs)))
        except Exception:
            pass
        out.append(("raw", self.service.RawRequest(c.expect)))
        return out

    def run_request(self, kinds: dict[str, type], c: gen_uds.Case, rng: random.Random, pool: dict[int, list[bytes]]) -> None:
        ctx = self.ctx
        q = c.expect
        assert q is not None
        sid = q[0]
        if not iso.request_wellformed(q):
            return
        gen = iso.genuine_positive(q, body=rng.randbytes(rng.choice([1, 2, 5])))
        for form, req in self.request_forms(kinds, c):
            if gen is not None:
                if iso.decode_response(gen) is None:
                    ctx.violation("harness/genuine-not-decodable", "reference built a genuine reply its decoder rejects", {"request": q, "reply": gen})
                else:
                    self.expect("genuine", {"returned"}, q, gen, req, form)
                    # changed primary identifier
                    echo = iso.primary_echo(q)
                    if echo is not None:
                        what, eb = echo
                        for i in range(len(eb)):
                            for delta in (1, 0x80, rng.randrange(1, 256)):
                                ch = bytearray(gen)
                                ch[1 + i] = (ch[1 + i] ^ delta) & 0xFF
                                chb = bytes(ch)
                                if chb == gen:
                                    continue
                                want = {"mismatch"} if iso.decode_response(chb) is not None else {"mismatch", "malformed"}
                                self.expect(f"echo-changed[{what}]", want, q, chb, req, form)
                    if sid == 0x23 and len(gen) > 2:
                        self.expect("echo-changed[data length]", {"mismatch"}, q, gen[:-1], req, form)
                        self.expect("echo-changed[data length]", {"mismatch"}, q, gen + b"\x00", req, form)
                    # truncations (undecodable, right service)
                    for k in range(1, len(gen)):
                        t = gen[:k]
                        if iso.decode_response(t) is None:
                            got, obj = outcome(self.helpers.parse_pdu, self.exc, t, req)
                            ctx.case((form, q, t))
                            ctx.reach(f"outcome.{got.split(':')[0]}:{sid:02x}")
                            if got == "malformed":
                                continue
                            if got == "returned" and obj.pdu == t:
                                ctx.reach("lenient-truncated-accepted")
                                continue
                            if got == "mismatch" and len(t) > 1 and iso.primary_echo(q) is not None:
                                # the echoed identifier itself is cut: refusing as mismatch is as good as malformed
                                continue
                            ctx.violation(f"parse_pdu/truncated/{got}-instead-of-malformed/{sid:02x}", "undecodable reply of the right service is not reported as malformed", {"request": q, "reply": t, "form": form, "got": got})
            # negative responses naming this service: every defined code
            for code in self.codes:
                nr = bytes([0x7F, sid, code])
                if self.expect("negative-same-service", {"returned"}, q, nr, req, form) == "returned":
                    pass
            other = rng.choice([s for s in iso.REQUEST_SIDS if s != sid])
            for code in rng.sample(self.codes, 6):
                self.expect("negative-other-service", {"mismatch"}, q, bytes([0x7F, other, code]), req, form)
            for code in rng.sample(self.invalid_codes, 4) + [sid] * (sid in self.invalid_codes):
                self.expect("negative-same-service-undefined-code", {"malformed"}, q, bytes([0x7F, sid, code]), req, form)
                self.expect("negative-other-service-undefined-code", {"mismatch"}, q, bytes([0x7F, other, code]), req, form)
            # an undefined code that equals the *other* service id / this service id in the code position
            self.expect("negative-other-service-code-equals-request-sid", {"mismatch"}, q, bytes([0x7F, other, sid]), req, form) if sid in self.invalid_codes else None
            self.expect("negative-2-bytes-same-service", {"malformed"}, q, bytes([0x7F, sid]), req, form)
            self.expect("negative-2-bytes-other-service", {"mismatch"}, q, bytes([0x7F, other]), req, form)
            self.expect("negative-1-byte", {"malformed", "mismatch"}, q, b"\x7f", req, form)
            self.expect("negative-4-bytes-same-service", {"malformed"}, q, bytes([0x7F, sid, 0x10, 0x00]), req, form)
            # positive replies of every other service
            for osid in iso.REQUEST_SIDS:
                if osid == sid or not pool.get(osid):
                    continue
                foreign = rng.choice(pool[osid])
                self.expect("other-service-positive", {"mismatch"}, q, foreign, req, form)
                self.expect("other-service-undecodable", {"mismatch"}, q, foreign[:1], req, form)
            self.expect("unknown-service-positive", {"mismatch"}, q, bytes([0xFA, 1, 2, 3]), req, form)
            # frames that are no reply of this service at all: the request frame itself coming back (loopback, another tester on a
            # shared channel) and every other first byte in front of the request's own tail / the genuine reply's tail
            self.expect("own-request-frame-echoed", {"mismatch"}, q, q, req, form)
            firsts = range(256) if rng.random() < 0.25 else rng.sample(range(256), 12)
            for first in firsts:
                if first in ((sid + 0x40) & 0xFF, 0x7F):
                    continue
                cls_ = "request-sid" if first == sid else "bit6-clear" if not first & 0x40 else "other"
                self.expect(f"foreign-first-byte[{cls_}]", {"mismatch"}, q, bytes([first]) + q[1:], req, form)
                if gen is not None and first in (sid, sid | 0x80, (sid + 0x40) ^ 0x80):
                    self.expect(f"foreign-first-byte[{cls_}]+genuine-tail", {"mismatch"}, q, bytes([first]) + gen[1:], req, form)

    def nrc_mapping(self) -> None:
        ctx = self.ctx
        s = self.service
        for sid in iso.REQUEST_SIDS:
            req = s.RawRequest(bytes([sid, 0x01, 0x02]))
            for code in self.codes:
                ctx.case(("nrc", sid, code))
                try:
                    resp = self.helpers.parse_pdu(bytes([0x7F, sid, code]), req)
                except Exception as e:
                    ctx.violation(f"nrc/{code:02x}/parse-raises/{type(e).__name__}", "negative response naming the request's service is not accepted", {"sid": sid, "code": code, "error": repr(e)})
                    continue
                if not isinstance(resp, s.NegativeResponse) or int(resp.response_code) != code or resp.request_service_id != sid:
                    ctx.violation(f"nrc/{code:02x}/wrong-fields", "negative response decoded with other fields", {"sid": sid, "code": code, "got": repr(resp)})
                    continue
                try:
                    ex = self.helpers.as_exception(resp)
                except Exception as e:
                    ctx.violation(f"nrc/{code:02x}/no-exception-class/{type(e).__name__}", f"response code 0x{code:02x} cannot be turned into its exception", {"sid": sid, "code": code, "error": repr(e)})
                    continue
                if not isinstance(ex, self.exc.UnexpectedNegativeResponse) or int(ex.RESPONSE_CODE) != code or ex.response is not resp:
                    ctx.violation(f"nrc/{code:02x}/wrong-exception", "exception does not carry that response code", {"sid": sid, "code": code, "got": repr(ex)})
                    continue
                try:
                    self.helpers.raise_for_error(resp)
                    ctx.violation(f"nrc/{code:02x}/raise_for_error-silent", "raise_for_error does not raise for a negative response", {"sid": sid, "code": code})
                except self.exc.UnexpectedNegativeResponse as e2:
                    if int(e2.RESPONSE_CODE) != code:
                        ctx.violation(f"nrc/{code:02x}/wrong-exception", "raise_for_error raises another code", {"sid": sid, "code": code})
                except Exception as e3:
                    ctx.violation(f"nrc/{code:02x}/raise_for_error/{type(e3).__name__}", "raise_for_error raises a foreign exception", {"sid": sid, "code": code, "error": repr(e3)})
                ctx.reach(f"nrc.mapped:{code:02x}")

    def direct_matches(self, kinds: dict[str, type], c: gen_uds.Case, rng: random.Random) -> None:
        """<Request kind>.RESPONSE_TYPE built from the genuine reply must match its own request, and must not match the
        request with a changed primary identifier."""
        ctx = self.ctx
        q = c.expect
        if c.cls == "RawRequest" or q is None or not iso.request_wellformed(q):
            return
        gen = iso.genuine_positive(q)
        if gen is None:
            return
        cls = kinds[c.cls]
        try:
            req = cls(*c.args, **c.kwargs)
            resp = cls.RESPONSE_TYPE.from_pdu(gen)
        except Exception:
            ctx.reach("matches.direct.unbuildable")
            return
        ctx.case(("matches", c.cls, q, gen))
        ctx.reach("matches.direct")
        try:
            ok = resp.matches(req)
        except Exception as e:
            ctx.violation(f"matches/{c.cls}/raises/{type(e).__name__}", "matches() raises", {"cls": c.cls, "request": q, "reply": gen, "error": repr(e)})
            return
        if not ok:
            ctx.violation(f"matches/{type(resp).__name__}/refuses-own-request", f"{type(resp).__name__}.matches is False for the {c.cls} it answers", {"cls": c.cls, "request": q, "reply": gen})
            return
        # the helper used by code that parses replies itself (parse_static + raise_for_mismatch, e.g. the HSFZ discovery)
        try:
            self.helpers.raise_for_mismatch(req, resp)
        except Exception as e:
            ctx.violation(f"raise_for_mismatch/genuine/{type(e).__name__}", "raise_for_mismatch raises for the genuine reply", {"cls": c.cls, "request": q, "reply": gen, "error": repr(e)})
        # the same reply with one byte of the echoed primary identifier changed must be refused by the class' own matches()
        echo = iso.primary_echo(q)
        if echo is None:
            return
        what, eb = echo
        for i in range(len(eb)):
            ch = bytearray(gen)
            ch[1 + i] ^= rng.choice([1, 0x10, 0x40])
            chb = bytes(ch)
            if iso.decode_response(chb) is None:
                continue
            try:
                other = cls.RESPONSE_TYPE.from_pdu(chb)
            except Exception:
                ctx.reach("matches.direct.changed-unbuildable")
                continue
            ctx.reach("matches.direct.changed-echo")
            try:
                ok2 = other.matches(req)
            except Exception as e:
                ctx.violation(f"matches/{c.cls}/raises/{type(e).__name__}", "matches() raises", {"cls": c.cls, "request": q, "reply": chb, "error": repr(e)})
                continue
            if ok2:
                ctx.violation(f"matches/{type(other).__name__}/accepts-changed[{what}]", f"{type(other).__name__}.matches is True for a reply whose echoed {what} differs from the request", {"cls": c.cls, "request": q, "reply": chb})
                continue
            try:
                self.helpers.raise_for_mismatch(req, other)
                ctx.violation(f"raise_for_mismatch/silent[{what}]", "raise_for_mismatch does not raise for a reply that does not match", {"cls": c.cls, "request": q, "reply": chb})
            except self.exc.RequestResponseMismatch:
                ctx.reach("raise_for_mismatch.raised")
            except Exception as e:
                ctx.violation(f"raise_for_mismatch/{type(e).__name__}", "raise_for_mismatch raises something other than RequestResponseMismatch", {"cls": c.cls, "request": q, "reply": chb, "error": repr(e)})


def run(ctx: Any, params: dict[str, Any]) -> None:
    import gallia.command  # noqa: F401

    rng = ctx.rng
    kinds = enumerate_kinds()
    mon = Mon(ctx)
    # pool of genuine positive replies per service for the foreign-reply family
    pool: dict[int, list[bytes]] = {}
    for _ in range(3000):
        c = gen_uds.any_valid_request(rng)
        if c.expect and iso.request_wellformed(c.expect) and len(c.expect) < 64:
            g = iso.genuine_positive(c.expect)
            if g is not None and iso.decode_response(g) is not None:
                pool.setdefault(c.expect[0], []).append(g)
    if params["part"] == 0:
        mon.nrc_mapping()
        ctx.sample({"services_with_foreign_pool": sorted(f"{k:02x}" for k in pool)})
    names = [n for n in sorted(kinds) if n in gen_uds.GEN and n != "RawRequest"]
    for n in names:
        for _ in range(params["per_kind"]):
            c = next(gen_uds.GEN[n](rng))
            if c.expect is None or len(c.expect) > 300:
                continue
            mon.run_request(kinds, c, rng, pool)
            mon.direct_matches(kinds, c, rng)
            if rng.random() < 0.01:
                ctx.sample({"request": c.expect, "genuine_reply": iso.genuine_positive(c.expect)})
        if ctx.out_of_time():
            break
    # raw requests of services without typed classes: only the service id decides
    s = mon.service
    for sid in UNTYPED_SIDS:
        for _ in range(max(5, params["per_kind"] // 4)):
            q = bytes([sid]) + rng.randbytes(rng.randint(0, 6))
            req = s.RawRequest(q)
            ctx.reach("raw-untyped")
            mon.expect("raw-untyped/positive", {"returned"}, q, bytes([sid + 0x40]) + rng.randbytes(rng.randint(0, 6)), req, "raw-untyped")
            other = rng.choice([x for x in UNTYPED_SIDS if x != sid])
            mon.expect("raw-untyped/other-positive", {"mismatch"}, q, bytes([other + 0x40]) + rng.randbytes(rng.randint(0, 6)), req, "raw-untyped")
            mon.expect("raw-untyped/negative-same", {"returned"}, q, bytes([0x7F, sid, rng.choice(mon.codes)]), req, "raw-untyped")
            mon.expect("raw-untyped/negative-other", {"mismatch"}, q, bytes([0x7F, other, rng.choice(mon.codes)]), req, "raw-untyped")


def replay(ctx: Any, witness: dict[str, Any]) -> None:
    import gallia.command  # noqa: F401

    mon = Mon(ctx)

    def ux(x: Any) -> Any:
        return bytes.fromhex(x[4:]) if isinstance(x, str) and x.startswith("hex:") else x

    if "request" in witness and "reply" in witness:
        q, reply = ux(witness["request"]), ux(witness["reply"])
        req = mon.service.RawRequest(q) if witness.get("form", "raw") != "typed" else mon.service.UDSRequest.parse_dynamic(q)
        mon.expect(witness.get("family", "replay"), set(witness.get("want", ["returned"])), q, reply, req, witness.get("form", "raw"))
    else:
        mon.nrc_mapping()
