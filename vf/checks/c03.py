"""C03 Genuine replies are always accepted, foreign or stale replies always refused (DESIGN.md section 3)."""

from __future__ import annotations

import random
from typing import Any

from vf import gen_uds
from vf import iso14229 as iso
from vf.checks.c01 import enumerate_kinds

PROPERTY = "C03"
LEVEL = "exploration"
ENGINE = "iso14229-reference"
TECHNIQUE = (
    "runtime oracle on helpers.parse_pdu / Response.matches / negative-response-to-exception mapping: request x reply matrix "
    "classified by an independent echo table (genuine / foreign service / changed primary identifier / undecodable); the request "
    "is also carried by re-used request objects (judged once, then re-assigned through public attributes / setters / RawRequest.pdu); "
    "requests and replies are also judged at PDU lengths up to and beyond 4095 and 65535 bytes (UDS over DoIP / HSFZ / TCP)"
)
LEVEL_TEXT = (
    "Exploration: for generated requests of every kind (typed, raw form, suppress-bit variants, raw requests of services without "
    "typed classes) the real parse_pdu is called with the genuine reply, every other service's positive reply, replies with one "
    "echoed byte changed at each echo position, negative responses naming the same/another service with every defined response "
    "code and a sample of undefined ones, truncated replies and 7F xx; the outcome class (returned / mismatch / malformed) must be "
    "the one the statement prescribes. All defined response codes are mapped to their exception class exhaustively. Half of the "
    "requests are additionally judged on a second use of a request object: a typed object of the same kind that was judged with "
    "another content and then given the new values through its public attributes and property setters, and a RawRequest that held "
    "another request of the same kind / of another kind of the same service / an unparsable head / a request of another service "
    "before its .pdu was replaced; the genuine reply to the new content must be accepted, the genuine reply to the previous content "
    "(stale) refused as mismatch whenever its service or echoed primary identifier differs, plus the reply matrix (whole for a "
    "quarter of the re-used objects, a sample for the rest). An eighth of the requests are additionally judged at lengths nobody "
    "tries (length classes: the longest PDUs up to 4095 bytes as control group, 4096..65535 bytes, more than 65535 bytes): the "
    "request of the same kind with its open-ended part (data record, key, option record, list of identifiers / sources) extended "
    "to that length (typed object built by the constructor, and raw) against short replies; the short request (0x23: one asking for "
    "that many bytes) against its genuine reply extended to that length, that reply with one echoed byte changed per echo position / "
    "another data length, other services' positive replies of that length and, for services whose reply has a fixed length, the "
    "over-long (undecodable) reply of the right service; and both long."
)
LEVEL_NOTE = "Trusted: echo table and minimal genuine replies in vf/iso14229.py. Secondary echoes (e.g. DDDID of 0x2C) are not required to be compared."
RULE = (
    "cases = (request bytes, reply bytes) pairs: requests from the C01 generators (all kinds) x reply families {genuine, other "
    "service positive (19 sids), echo byte changed per position, NR same/other service x all UDSErrorCodes, invalid codes, "
    "truncations, 2-byte 7F xx}; request forms {typed, raw, typed-reassigned, raw-reassigned (second use of the object after its "
    "identifier / pdu was re-assigned; extra reply family: genuine reply to the previous content)}; length dimension {request long, "
    "reply long, both long} x length class {<=4095, 4096..65535, >65535 bytes} x {genuine, echo byte changed per position, data "
    "length changed, other service positive, over-long undecodable, NR same/other service, own frame}; non-trivial = every pair; "
    "distinct = distinct (request bytes, reply bytes, request form)"
)
ASSUMPTIONS = [
    "the identifier whose change must cause refusal: sub-function (+ routine id for 0x31), first DID for 0x22/0x2E/0x2F, block counter for 0x36, ALFID+address+size for 0x3D, data length for 0x23",
    "a changed echo that also makes the reply undecodable may be refused as mismatch or as malformed",
    "a reply the reference calls malformed but the codec accepts and re-encodes identically is counted (lenient), not reported",
    "'the request' of a pair is what the request object says (its .pdu) at the moment the reply is judged, also when the same object said something else at an earlier use",
    "the statement has no length limit: a request / reply that is well-formed by ISO 14229-1 stays a request / genuine reply of its service at any PDU length (4095 bytes is a limit of classic ISO-TP segmentation, not of UDS; gallia carries UDS over DoIP, HSFZ and TCP)",
]
EXHAUSTIVE = {"quick": False, "thorough": False}
EXHAUSTIVE_NOTE = "exhaustive sub-space: every UDSErrorCodes member x every typed service id for the negative-response paths"

UNTYPED_SIDS = [0x24, 0x2A, 0x83, 0x84, 0x86, 0x87, 0x29, 0x38, 0xBA, 0x01, 0x09]


def shards(tier: str, seed: int) -> list[dict[str, Any]]:
    n = 40 if tier == "quick" else 1200
    k = 8 if tier == "quick" else 16
    return [{"per_kind": n, "part": i} for i in range(k)]


def required_reach(tier: str) -> dict[str, int]:
    from gallia.services.uds.core.constants import UDSErrorCodes

    # every defined response code must have gone through the code -> exception mapping
    return {"#outcome.returned:": 19, "#outcome.mismatch:": 19, "#outcome.malformed:": 15, "#nrc.mapped:": len(UDSErrorCodes), "matches.direct": 100, "raw-untyped": 50, "matches.direct.changed-echo": 500, "raise_for_mismatch.raised": 500,
            # second use of one request object after its public attributes / .pdu were re-assigned
            "#reuse.typed:": 30, "#reuse.stale-judged:": 10, "reuse.stale-judged.typed-reassigned": 500, "reuse.stale-judged.raw-reassigned": 500,
            "reuse.stale-judged.other-service": 300, "reuse.raw.same-kind": 300, "reuse.raw.same-service-other-kind": 200, "reuse.raw.unparsable-head": 300, "reuse.raw.other-service": 300,
            # length dimension: services with an open-ended request / reply reached long, typed long requests per kind, every length class on every side
            "#long.request:": 10, "#long.reply:": 9, "#long.request.typed:": 16,
            "long.request.le-4095": 20, "long.request.gt-4095": 80, "long.request.gt-65535": 25,
            "long.reply.le-4095": 30, "long.reply.gt-4095": 100, "long.reply.gt-65535": 30,
            "long.both.le-4095": 15, "long.both.gt-4095": 50, "long.both.gt-65535": 15,
            "long.reply-overlong-undecodable.gt-4095": 100, "long.reply-overlong-undecodable.gt-65535": 25}


PREVIOUS_MAX = 60  # longest first-use content of a re-used object (witnesses keep byte strings up to 64 bytes in full, replay needs it)
REUSED_SHARE = 0.5  # fraction of the generated requests that are also judged on re-used request objects
REUSED_FULL_MATRIX = 0.25  # fraction of re-used request objects that get the whole reply matrix (all get genuine / stale / one changed echo per position / a sample of the rest)

# ---- length dimension: PDUs of a size no segmenting transport field bounds (UDS over DoIP / HSFZ / TCP has no 4095-byte limit) ----------
LONG_SHARE = {"quick": 0.12, "thorough": 0.12}  # fraction of the generated requests that are also judged with a long request / long replies
LONG_HEAD_MAX = 60  # only requests / replies up to this length are stretched: a long byte string is then (its first 64 bytes, length, k)
LONG_CLASSES = ["le-4095", "gt-4095", "gt-4095", "gt-4095", "gt-65535"]  # classes of the total PDU length, drawn uniformly
# filler: 4-byte groups (group number in 3 bytes, one mixed byte) aligned so that in a DTC list (3-byte head) every filler record names another DTC
_FILL = b"".join(bytes([(m >> 16) & 0xFF, (m >> 8) & 0xFF, m & 0xFF, (m * 37 + 11) & 0xFF]) for m in range(1, 18000))


def long_len(rng: random.Random, lc: str) -> int:
    if lc == "le-4095":  # the longest PDUs a classic ISO-TP first frame can announce: control group
        return rng.choice([4095, 4095, 4094, rng.randint(3000, 4095)])
    if lc == "gt-4095":
        return rng.choice([4096, 4097, 4098, 4099, 4100, rng.randint(4101, 4200), rng.randint(4096, 20000), rng.randint(4096, 65535)])
    return rng.choice([65536, 65537, 65538, 65539, rng.randint(65540, 70000)])


def lc_of(n: int) -> str:
    return "le-4095" if n <= 4095 else "gt-4095" if n <= 65535 else "gt-65535"


def fill(prefix: bytes, total: int, k: int) -> bytes:
    """prefix followed by filler up to `total` bytes; the filler byte at absolute index i is _FILL[i + 1 + 4 * k], so the whole string
    is described by (its first len(prefix) bytes, total, k) whatever was cut from or added to its end."""
    if total <= len(prefix):
        return prefix
    return prefix + _FILL[len(prefix) + 1 + 4 * k : total + 1 + 4 * k]


def spec_of(b: bytes) -> dict[str, Any] | None:
    """Compact description of a long byte string built by fill() (witnesses keep only the first 64 bytes of long strings)."""
    if len(b) <= 256:
        return None
    for k in range(256):
        if b[64:80] == _FILL[65 + 4 * k : 81 + 4 * k] and fill(b[:64], len(b), k) == b:
            return {"head": b[:64], "len": len(b), "k": k}
    return None


def short_id(b: bytes) -> Any:
    """Identity of a byte string for the distinct-case count (long strings are built by fill(): head, length and one filler byte)."""
    return b if len(b) <= 256 else (b[:64], len(b), b[64], b[-1])


def from_spec(sp: dict[str, Any]) -> bytes:
    head = sp["head"]
    if isinstance(head, str):
        head = bytes.fromhex(head[4:])
    return fill(head, int(sp["len"]), int(sp["k"]))



def reassign(req: Any, donor: Any) -> None:
    """Give req the content of donor (same class) through req's public interface only: every public instance attribute is
    assigned, then every public property that has a setter.  Nothing private is touched, no new object is made."""
    for n, v in list(vars(donor).items()):
        if not n.startswith("_"):
            setattr(req, n, v)
    seen: set[str] = set()
    for klass in type(req).__mro__:
        for n, p in vars(klass).items():
            if isinstance(p, property) and p.fset is not None and not n.startswith("_") and n not in seen:
                seen.add(n)
                try:
                    setattr(req, n, getattr(donor, n))
                except Exception:
                    pass


def outcome(parse_pdu: Any, exc: Any, reply: bytes, req: Any) -> tuple[str, Any]:
    try:
        r = parse_pdu(reply, req)
        return "returned", r
    except exc.RequestResponseMismatch as e:
        return "mismatch", e
    except exc.MalformedResponse as e:
        return "malformed", e
    except Exception as e:  # anything else is a crash of the matcher
        return "raises:" + type(e).__name__, e


class Mon:
    def __init__(self, ctx: Any):
        from gallia.services.uds import helpers
        from gallia.services.uds.core import exception, service
        from gallia.services.uds.core.constants import UDSErrorCodes

        self.ctx = ctx
        self.helpers = helpers
        self.exc = exception
        self.service = service
        self.codes = [int(c) for c in UDSErrorCodes]
        self.invalid_codes = [c for c in range(256) if c not in self.codes]
        self.by_sid: dict[int, list[str]] = {}  # service id -> names of the request kinds of that service (filled by run())
        self.prev: dict[str, Any] | None = None  # set while a re-used request object is judged: what it said at its first use

    def expect(self, fam: str, want: set[str], q: bytes, reply: bytes, req: Any, form: str) -> str:
        ctx = self.ctx
        ctx.case((form, short_id(q), short_id(reply)))
        got, obj = outcome(self.helpers.parse_pdu, self.exc, reply, req)
        sid = q[0]
        ctx.reach(f"outcome.{got.split(':')[0]}:{sid:02x}")
        if got in want:
            if got == "returned" and obj.pdu != reply and iso.decode_response(reply) is not None:
                ctx.violation(f"parse_pdu/{fam}/returned-bytes-differ/{sid:02x}", "accepted reply re-serialises differently", {"request": q, "reply": reply, "form": form, "got": obj.pdu})
            return got
        w = {"request": q, "reply": reply, "form": form, "family": fam, "got": got, "want": sorted(want), "detail": repr(obj)[:300]}
        if self.prev is not None:
            w.update(self.prev)
        for name, b in (("request", q), ("reply", reply)):
            sp = spec_of(b)
            if sp is not None:  # long strings are cut in the witness file: how to rebuild them
                w[name + "_spec"] = sp
        sub = ""
        if sid in (0x19, 0x2C, 0x31) and len(q) > 1:
            sub = f".{q[1] & 0x7F:02x}"
        ctx.violation(f"parse_pdu/{fam}/{got}-instead-of-{'|'.join(sorted(want))}/{sid:02x}{sub}", f"{fam} reply: outcome {got}, expected {sorted(want)}", w)
        return got

    def request_forms(self, kinds: dict[str, type], c: gen_uds.Case) -> list[tuple[str, Any, dict[str, Any] | None]]:
        out: list[tuple[str, Any, dict[str, Any] | None]] = []
        try:
            out.append(("typed", kinds[c.cls](*c.args, **c.kwargs), None))
        except Exception:
            pass
        out.append(("raw", self.service.RawRequest(c.expect), None))
        return out

    # ---- second use of one request object after its public attributes were re-assigned -------------------------------------
    def first_use(self, q0: bytes, req: Any, form: str) -> None:
        """Judge the object once with what it says now (an ordinary case of the matrix), so that anything the matcher keeps per
        request object exists before the object is changed."""
        sid0 = q0[0]
        self.expect("first-use/negative-same-service", {"returned"}, q0, bytes([0x7F, sid0, 0x31]), req, form)
        if iso.request_wellformed(q0):
            g0 = iso.genuine_positive(q0)
            if g0 is not None and iso.decode_response(g0) is not None:
                self.expect("first-use/genuine", {"returned"}, q0, g0, req, form)

    def reused_forms(self, kinds: dict[str, type], c: gen_uds.Case, rng: random.Random) -> list[tuple[str, Any, dict[str, Any] | None]]:
        """The request of case c carried by an object that was used before with another content: a typed object of the same kind
        built from another generated case, then given c's values through its public attributes / property setters; a RawRequest
        that held {another request of the same kind, an unparsable head of this request, a request of another service} whose
        .pdu was replaced.  The statement's 'request' is what the object says when the reply is judged."""
        ctx = self.ctx
        q = c.expect
        assert q is not None
        out: list[tuple[str, Any, dict[str, Any] | None]] = []
        c0 = None
        for _ in range(4):
            x = next(gen_uds.GEN[c.cls](rng))
            if x.expect is not None and len(x.expect) <= PREVIOUS_MAX and iso.request_wellformed(x.expect):
                c0 = x
                if x.expect != q:
                    break
        # typed
        if c0 is not None:
            try:
                req = kinds[c.cls](*c0.args, **c0.kwargs)
                donor = kinds[c.cls](*c.args, **c.kwargs)
            except Exception:
                req = donor = None
            if req is not None and c0.expect is not None and req.pdu == c0.expect:
                self.first_use(c0.expect, req, "typed")
                reassign(req, donor)
                if req.pdu == q:
                    ctx.reach(f"reuse.typed:{c.cls}")
                    out.append(("typed-reassigned", req, {"previous": c0.expect, "previous_kind": "same-kind"}))
                else:
                    ctx.reach(f"reuse.typed-not-reassignable:{c.cls}")
        # raw
        kind = rng.choice(["same-kind", "same-service-other-kind", "unparsable-head", "other-service"])
        q0: bytes | None = None
        if kind == "same-kind" and c0 is not None:
            q0 = c0.expect
        elif kind == "same-service-other-kind":
            others = [n for n in self.by_sid.get(q[0], []) if n != c.cls]
            for _ in range(4 if others else 0):
                x = next(gen_uds.GEN[rng.choice(others)](rng))
                if x.expect is not None and len(x.expect) <= PREVIOUS_MAX and iso.request_wellformed(x.expect) and x.expect[0] == q[0]:
                    q0 = x.expect
                    break
            if q0 is None and c0 is not None:
                kind, q0 = "same-kind", c0.expect
        elif kind == "unparsable-head":
            heads = [q[:k] for k in range(1, min(len(q), PREVIOUS_MAX)) if not iso.request_wellformed(q[:k])]
            q0 = rng.choice(heads) if heads else None
        if q0 is None:
            kind = "other-service"
            for _ in range(20):
                x = gen_uds.any_valid_request(rng)
                if x.expect and x.expect[0] != q[0] and len(x.expect) <= PREVIOUS_MAX and iso.request_wellformed(x.expect):
                    q0 = x.expect
                    break
        if q0 is not None:
            req = self.service.RawRequest(q0)
            self.first_use(q0, req, "raw")
            req.pdu = q
            if req.pdu == q:
                ctx.reach(f"reuse.raw.{kind}")
                out.append(("raw-reassigned", req, {"previous": q0, "previous_kind": kind}))
        return out

    def stale(self, q: bytes, gen: bytes | None, req: Any, form: str, prev: dict[str, Any]) -> None:
        """The genuine reply to what the object said at its first use is a stale reply now: refused whenever its service or its
        echoed primary identifier differs from the current request's."""
        ctx = self.ctx
        q0 = prev["previous"]
        if not iso.request_wellformed(q0):
            return
        old = iso.genuine_positive(q0)
        if old is None or iso.decode_response(old) is None:
            return
        sid = q[0]
        if q0[0] != sid:
            ctx.reach("reuse.stale-judged.other-service")
            self.expect("reused-object/stale-reply-of-previous-service", {"mismatch"}, q, old, req, form)
            return
        echo = iso.primary_echo(q)
        if echo is not None:
            what, eb = echo
            if old[1 : 1 + len(eb)] != eb:
                ctx.reach(f"reuse.stale-judged:{sid:02x}")
                ctx.reach(f"reuse.stale-judged.{form}")
                self.expect(f"reused-object/stale-reply-of-previous[{what}]", {"mismatch"}, q, old, req, form)
                return
        elif sid == 0x23 and gen is not None and len(old) != len(gen):
            ctx.reach(f"reuse.stale-judged:{sid:02x}")
            ctx.reach(f"reuse.stale-judged.{form}")
            self.expect("reused-object/stale-reply-of-previous[data length]", {"mismatch"}, q, old, req, form)
            return
        ctx.reach("reuse.same-primary-identifier")

    # ---- length dimension: requests / replies longer than any segmenting transport announces ----------------------------------
    def long_request(self, kinds: dict[str, type], c: gen_uds.Case, total: int, k: int) -> tuple[bytes, Any] | None:
        """A request of the kind of case c with c's identifiers whose open-ended part (data record, key, option record, list of
        identifiers / sources) is extended so that the PDU is `total` bytes long (a few more where that part has a granularity):
        (request bytes by the reference, typed object saying exactly these bytes or None).  None: the kind has a fixed length."""
        ctx = self.ctx
        q = c.expect
        assert q is not None
        args = list(c.args)
        bi = [i for i, a in enumerate(args) if isinstance(a, bytes)]
        ql: bytes | None = None
        buildable = True
        if c.cls == "WriteMemoryByAddressRequest" and args[2] is None:
            # memory size derived from the data: ALFID / address / size are the reference's for the long data
            n = total - len(q) + len(args[1])
            try:
                head = iso.req_wmba(args[0], bytes(n), None, args[3])[:-n]
            except ValueError:  # the explicit ALFID of this case has a size field too narrow for that many bytes
                ctx.reach("long.request.size-field-too-narrow")
                return None
            ql = fill(head + args[1], len(head) + n, k)
            args[1] = ql[len(head) :]
            if iso.req_wmba(args[0], args[1], None, args[3]) != ql:
                return None
        elif bi:
            ql = fill(q, total, k)
            args[bi[-1]] = args[bi[-1]] + ql[len(q) :]
        elif c.cls == "ReadDataByIdentifierRequest":
            ql = fill(q, total + (total - len(q)) % 2, k)
            pad = ql[len(q) :]
            dids = list(args[0]) if isinstance(args[0], list) else [args[0]]
            args[0] = dids + [int.from_bytes(pad[i : i + 2], "big") for i in range(0, len(pad), 2)]
        else:
            buildable = False
            for t in range(32):  # lists of sources / regions: whole entries only
                cand = fill(q, total + t, k)
                if iso.request_wellformed(cand):
                    ql = cand
                    break
        if ql is None or ql[0] != q[0] or len(ql) < total or not iso.request_wellformed(ql):
            return None
        typed = None
        if buildable:
            try:
                typed = kinds[c.cls](*args, **c.kwargs)
            except Exception:
                ctx.reach(f"long.typed-refused-by-constructor:{c.cls}")
            if typed is not None and typed.pdu != ql:
                ctx.reach(f"long.typed-says-other-bytes:{c.cls}")
                typed = None
        return ql, typed

    @staticmethod
    def long_reply(g: bytes, total: int, k: int) -> bytes | None:
        """g with its open-ended tail extended to `total` bytes (up to 3 more: record granularity); None if no such reply decodes."""
        for t in range(4):
            cand = fill(g, total + t, k)
            if iso.decode_response(cand) is not None:
                return cand
        return None

    def long_judge(self, side: str, q: bytes, forms: list[tuple[str, Any]], g: bytes | None, foreign: list[bytes], rng: random.Random, k: int, full: bool) -> None:
        """The statement's outcome classes for request q (any length) and replies of any length: genuine, one changed byte at each echo
        position, data length (0x23), negative responses, other services' positive replies, the request frame itself.  The family
        names the length class of the longer one of request and reply."""
        sid = q[0]

        def fam(reply: bytes, what: str) -> str:
            return f"{side}[{lc_of(max(len(q), len(reply)))}]/{what}"

        for form, req in forms:
            if g is not None:
                self.expect(fam(g, "genuine"), {"returned"}, q, g, req, form)
                echo = iso.primary_echo(q)
                if echo is not None:
                    what, eb = echo
                    for i in range(len(eb)):
                        ch = bytearray(g[: 2 + i])
                        ch[1 + i] ^= rng.choice((1, 0x80, rng.randrange(1, 256)))
                        chb = bytes(ch) + g[2 + i :]
                        want = {"mismatch"} if iso.decode_response(chb) is not None else {"mismatch", "malformed"}
                        self.expect(fam(chb, f"echo-changed[{what}]"), want, q, chb, req, form)
                if sid == 0x23 and len(g) > 2:
                    for chb in (g[:-1], fill(g, len(g) + 1, k)):
                        self.expect(fam(chb, "echo-changed[data length]"), {"mismatch"}, q, chb, req, form)
            for fr in foreign:
                self.expect(fam(fr, "other-service-positive"), {"mismatch"}, q, fr, req, form)
            if not full:
                continue
            self.expect(fam(b"", "negative-same-service"), {"returned"}, q, bytes([0x7F, sid, rng.choice(self.codes)]), req, form)
            other = rng.choice([s for s in iso.REQUEST_SIDS if s != sid])
            self.expect(fam(b"", "negative-other-service"), {"mismatch"}, q, bytes([0x7F, other, rng.choice(self.codes)]), req, form)
            self.expect(fam(b"", "negative-same-service-undefined-code"), {"malformed"}, q, bytes([0x7F, sid, rng.choice(self.invalid_codes)]), req, form)
            self.expect(fam(q, "own-request-frame-echoed"), {"mismatch"}, q, q, req, form)

    def long_cases(self, kinds: dict[str, type], c: gen_uds.Case, rng: random.Random, pool: dict[int, list[bytes]]) -> None:
        """The request of case c and its replies at PDU lengths nobody tries: the statement has no length limit and UDS over DoIP /
        HSFZ / TCP carries PDUs longer than the 4095 bytes of a classic ISO-TP first frame (and longer than 65535 bytes).  Three
        sides: the request long (its replies short), the replies long (request short), both long; the longest PDUs below the
        ISO-TP limit are the control group."""
        ctx = self.ctx
        q = c.expect
        assert q is not None
        if len(q) > LONG_HEAD_MAX:
            return
        sid = q[0]
        lc = rng.choice(LONG_CLASSES)
        k = rng.randrange(256)
        self.prev = None
        others = [s for s in iso.REQUEST_SIDS if s != sid and pool.get(s)]

        def long_foreign(n: int) -> list[bytes]:
            """positive replies of other services, `n` bytes long: the reply a neighbouring long read / upload would have got"""
            out: list[bytes] = []
            for _ in range(6):
                fl = self.long_reply(rng.choice(pool[rng.choice(others)])[:LONG_HEAD_MAX], n, k)
                if fl is not None:
                    out.append(fl)
                    if len(out) == 2:
                        break
            return out

        # side 1: long request, short replies
        lr = self.long_request(kinds, c, long_len(rng, lc), k)
        forms_l: list[tuple[str, Any]] = []
        if lr is not None:
            ql, typed = lr
            ctx.reach(f"long.request:{sid:02x}")
            ctx.reach(f"long.request.{lc_of(len(ql))}")
            if typed is not None:
                ctx.reach(f"long.request.typed:{c.cls}")
                forms_l.append(("typed", typed))
            forms_l.append(("raw", self.service.RawRequest(ql)))
            g = iso.genuine_positive(ql, body=rng.randbytes(rng.choice([1, 2, 5])))
            if g is not None and iso.decode_response(g) is None:
                g = None
            self.long_judge("long-request", ql, forms_l, g, [rng.choice(pool[rng.choice(others)])], rng, k, True)
        # side 2: short request, long replies (0x23: the request asks for that many bytes)
        n = long_len(rng, lc)
        forms_s: list[tuple[str, Any]] = [(f, r) for f, r, _ in self.request_forms(kinds, c)]
        qs = q
        gl: bytes | None = None
        if c.cls == "ReadMemoryByAddressRequest":
            qs = iso.req_rmba(c.args[0], n - 1, None)
            forms_s = [("raw", self.service.RawRequest(qs))]
            try:
                t = kinds[c.cls](c.args[0], n - 1, None)
                if t.pdu == qs:
                    forms_s.insert(0, ("typed", t))
            except Exception:
                ctx.reach(f"long.typed-refused-by-constructor:{c.cls}")
            gl = fill(b"\x63", n, k)
        else:
            gs = iso.genuine_positive(q, body=rng.randbytes(rng.choice([1, 2, 5])))
            if gs is not None and iso.decode_response(gs) is not None and len(gs) <= LONG_HEAD_MAX:
                gl = self.long_reply(gs, n, k)
                if gl is None:
                    # replies of a fixed length: the over-long one is an undecodable reply of the right service
                    ol = fill(gs, n, k)
                    ctx.reach(f"long.reply-overlong-undecodable.{lc_of(len(ol))}")
                    for form, req in forms_s:
                        self.expect_undecodable(f"long-reply[{lc_of(len(ol))}]/overlong", qs, ol, req, form)
        if gl is not None:
            ctx.reach(f"long.reply:{sid:02x}")
            ctx.reach(f"long.reply.{lc_of(len(gl))}")
        else:
            ctx.reach(f"long.foreign-reply-only:{sid:02x}")
        self.long_judge("long-reply", qs, forms_s, gl, long_foreign(n), rng, k, False)
        # side 3: both long
        if lr is not None and sid != 0x23:
            g0 = iso.genuine_positive(ql)
            if g0 is not None and iso.decode_response(g0) is not None and len(g0) <= LONG_HEAD_MAX:
                gb = self.long_reply(g0, long_len(rng, lc), k)
                if gb is not None:
                    ctx.reach(f"long.both.{lc_of(max(len(ql), len(gb)))}")
                    self.long_judge("long-both", ql, forms_l, gb, [], rng, k, False)

    def expect_undecodable(self, fam: str, q: bytes, reply: bytes, req: Any, form: str) -> str:
        """An undecodable reply of the right service: malformed; accepted with identical bytes is counted as lenient, not reported
        (the rule the truncated replies are judged by)."""
        ctx = self.ctx
        sid = q[0]
        got, obj = outcome(self.helpers.parse_pdu, self.exc, reply, req)
        ctx.case((form, short_id(q), short_id(reply)))
        ctx.reach(f"outcome.{got.split(':')[0]}:{sid:02x}")
        if got == "malformed":
            return got
        if got == "returned" and obj.pdu == reply:
            ctx.reach("lenient-overlong-accepted")
            return got
        w = {"request": q, "reply": reply, "form": form, "family": fam, "got": got, "want": ["malformed"]}
        sp = spec_of(reply)
        if sp is not None:
            w["reply_spec"] = sp
        ctx.violation(f"parse_pdu/{fam}/{got}-instead-of-malformed/{sid:02x}", "undecodable reply of the right service is not reported as malformed", w)
        return got

    def run_request(self, kinds: dict[str, type], c: gen_uds.Case, rng: random.Random, pool: dict[int, list[bytes]]) -> None:
        ctx = self.ctx
        q = c.expect
        assert q is not None
        sid = q[0]
        if not iso.request_wellformed(q):
            return
        gen = iso.genuine_positive(q, body=rng.randbytes(rng.choice([1, 2, 5])))
        forms = self.request_forms(kinds, c)
        self.prev = None
        if rng.random() < REUSED_SHARE:
            forms += self.reused_forms(kinds, c, rng)
        full_reused = rng.random() < REUSED_FULL_MATRIX
        for form, req, prev in forms:
            self.prev = prev
            if prev is not None:
                self.stale(q, gen, req, form, prev)
                if req.pdu != q:
                    ctx.violation("harness/reused-object-changed-while-judged", "the request object no longer says the request under test", {"request": q, "form": form, "now": req.pdu})
                    continue
            light = prev is not None and not full_reused
            if gen is not None:
                if iso.decode_response(gen) is None:
                    ctx.violation("harness/genuine-not-decodable", "reference built a genuine reply its decoder rejects", {"request": q, "reply": gen})
                else:
                    self.expect("genuine", {"returned"}, q, gen, req, form)
                    # changed primary identifier
                    echo = iso.primary_echo(q)
                    if echo is not None:
                        what, eb = echo
                        for i in range(len(eb)):
                            for delta in (rng.choice((1, 0x80, rng.randrange(1, 256))),) if light else (1, 0x80, rng.randrange(1, 256)):
                                ch = bytearray(gen)
                                ch[1 + i] = (ch[1 + i] ^ delta) & 0xFF
                                chb = bytes(ch)
                                if chb == gen:
                                    continue
                                want = {"mismatch"} if iso.decode_response(chb) is not None else {"mismatch", "malformed"}
                                self.expect(f"echo-changed[{what}]", want, q, chb, req, form)
                    if sid == 0x23 and len(gen) > 2:
                        self.expect("echo-changed[data length]", {"mismatch"}, q, gen[:-1], req, form)
                        self.expect("echo-changed[data length]", {"mismatch"}, q, gen + b"\x00", req, form)
                    # truncations (undecodable, right service)
                    for k in range(1, len(gen)) if not light else ():
                        t = gen[:k]
                        if iso.decode_response(t) is None:
                            got, obj = outcome(self.helpers.parse_pdu, self.exc, t, req)
                            ctx.case((form, q, t))
                            ctx.reach(f"outcome.{got.split(':')[0]}:{sid:02x}")
                            if got == "malformed":
                                continue
                            if got == "returned" and obj.pdu == t:
                                ctx.reach("lenient-truncated-accepted")
                                continue
                            if got == "mismatch" and len(t) > 1 and iso.primary_echo(q) is not None:
                                # the echoed identifier itself is cut: refusing as mismatch is as good as malformed
                                continue
                            ctx.violation(f"parse_pdu/truncated/{got}-instead-of-malformed/{sid:02x}", "undecodable reply of the right service is not reported as malformed", {"request": q, "reply": t, "form": form, "got": got})
            if light:
                # re-used objects: the whole remaining matrix only for a fraction of them, a sample of it for all
                for code in rng.sample(self.codes, 3):
                    self.expect("negative-same-service", {"returned"}, q, bytes([0x7F, sid, code]), req, form)
                other = rng.choice([s for s in iso.REQUEST_SIDS if s != sid])
                self.expect("negative-other-service", {"mismatch"}, q, bytes([0x7F, other, rng.choice(self.codes)]), req, form)
                if pool.get(other):
                    self.expect("other-service-positive", {"mismatch"}, q, rng.choice(pool[other]), req, form)
                self.expect("own-request-frame-echoed", {"mismatch"}, q, q, req, form)
                continue
            # negative responses naming this service: every defined code
            for code in self.codes:
                nr = bytes([0x7F, sid, code])
                if self.expect("negative-same-service", {"returned"}, q, nr, req, form) == "returned":
                    pass
            other = rng.choice([s for s in iso.REQUEST_SIDS if s != sid])
            for code in rng.sample(self.codes, 6):
                self.expect("negative-other-service", {"mismatch"}, q, bytes([0x7F, other, code]), req, form)
            for code in rng.sample(self.invalid_codes, 4) + [sid] * (sid in self.invalid_codes):
                self.expect("negative-same-service-undefined-code", {"malformed"}, q, bytes([0x7F, sid, code]), req, form)
                self.expect("negative-other-service-undefined-code", {"mismatch"}, q, bytes([0x7F, other, code]), req, form)
            # an undefined code that equals the *other* service id / this service id in the code position
            self.expect("negative-other-service-code-equals-request-sid", {"mismatch"}, q, bytes([0x7F, other, sid]), req, form) if sid in self.invalid_codes else None
            self.expect("negative-2-bytes-same-service", {"malformed"}, q, bytes([0x7F, sid]), req, form)
            self.expect("negative-2-bytes-other-service", {"mismatch"}, q, bytes([0x7F, other]), req, form)
            self.expect("negative-1-byte", {"malformed", "mismatch"}, q, b"\x7f", req, form)
            self.expect("negative-4-bytes-same-service", {"malformed"}, q, bytes([0x7F, sid, 0x10, 0x00]), req, form)
            # positive replies of every other service
            for osid in iso.REQUEST_SIDS:
                if osid == sid or not pool.get(osid):
                    continue
                foreign = rng.choice(pool[osid])
                self.expect("other-service-positive", {"mismatch"}, q, foreign, req, form)
                self.expect("other-service-undecodable", {"mismatch"}, q, foreign[:1], req, form)
            self.expect("unknown-service-positive", {"mismatch"}, q, bytes([0xFA, 1, 2, 3]), req, form)
            # frames that are no reply of this service at all: the request frame itself coming back (loopback, another tester on a
            # shared channel) and every other first byte in front of the request's own tail / the genuine reply's tail
            self.expect("own-request-frame-echoed", {"mismatch"}, q, q, req, form)
            firsts = range(256) if rng.random() < 0.25 else rng.sample(range(256), 12)
            for first in firsts:
                if first in ((sid + 0x40) & 0xFF, 0x7F):
                    continue
                cls_ = "request-sid" if first == sid else "bit6-clear" if not first & 0x40 else "other"
                self.expect(f"foreign-first-byte[{cls_}]", {"mismatch"}, q, bytes([first]) + q[1:], req, form)
                if gen is not None and first in (sid, sid | 0x80, (sid + 0x40) ^ 0x80):
                    self.expect(f"foreign-first-byte[{cls_}]+genuine-tail", {"mismatch"}, q, bytes([first]) + gen[1:], req, form)
        self.prev = None
        if rng.random() < LONG_SHARE.get(ctx.tier, 0.12):
            self.long_cases(kinds, c, rng, pool)

    def nrc_mapping(self) -> None:
        ctx = self.ctx
        s = self.service
        for sid in iso.REQUEST_SIDS:
            req = s.RawRequest(bytes([sid, 0x01, 0x02]))
            for code in self.codes:
                ctx.case(("nrc", sid, code))
                try:
                    resp = self.helpers.parse_pdu(bytes([0x7F, sid, code]), req)
                except Exception as e:
                    ctx.violation(f"nrc/{code:02x}/parse-raises/{type(e).__name__}", "negative response naming the request's service is not accepted", {"sid": sid, "code": code, "error": repr(e)})
                    continue
                if not isinstance(resp, s.NegativeResponse) or int(resp.response_code) != code or resp.request_service_id != sid:
                    ctx.violation(f"nrc/{code:02x}/wrong-fields", "negative response decoded with other fields", {"sid": sid, "code": code, "got": repr(resp)})
                    continue
                try:
                    ex = self.helpers.as_exception(resp)
                except Exception as e:
                    ctx.violation(f"nrc/{code:02x}/no-exception-class/{type(e).__name__}", f"response code 0x{code:02x} cannot be turned into its exception", {"sid": sid, "code": code, "error": repr(e)})
                    continue
                if not isinstance(ex, self.exc.UnexpectedNegativeResponse) or int(ex.RESPONSE_CODE) != code or ex.response is not resp:
                    ctx.violation(f"nrc/{code:02x}/wrong-exception", "exception does not carry that response code", {"sid": sid, "code": code, "got": repr(ex)})
                    continue
                try:
                    self.helpers.raise_for_error(resp)
                    ctx.violation(f"nrc/{code:02x}/raise_for_error-silent", "raise_for_error does not raise for a negative response", {"sid": sid, "code": code})
                except self.exc.UnexpectedNegativeResponse as e2:
                    if int(e2.RESPONSE_CODE) != code:
                        ctx.violation(f"nrc/{code:02x}/wrong-exception", "raise_for_error raises another code", {"sid": sid, "code": code})
                except Exception as e3:
                    ctx.violation(f"nrc/{code:02x}/raise_for_error/{type(e3).__name__}", "raise_for_error raises a foreign exception", {"sid": sid, "code": code, "error": repr(e3)})
                ctx.reach(f"nrc.mapped:{code:02x}")

    def direct_matches(self, kinds: dict[str, type], c: gen_uds.Case, rng: random.Random) -> None:
        """<Request kind>.RESPONSE_TYPE built from the genuine reply must match its own request, and must not match the
        request with a changed primary identifier."""
        ctx = self.ctx
        q = c.expect
        if c.cls == "RawRequest" or q is None or not iso.request_wellformed(q):
            return
        gen = iso.genuine_positive(q)
        if gen is None:
            return
        cls = kinds[c.cls]
        try:
            req = cls(*c.args, **c.kwargs)
            resp = cls.RESPONSE_TYPE.from_pdu(gen)
        except Exception:
            ctx.reach("matches.direct.unbuildable")
            return
        ctx.case(("matches", c.cls, q, gen))
        ctx.reach("matches.direct")
        try:
            ok = resp.matches(req)
        except Exception as e:
            ctx.violation(f"matches/{c.cls}/raises/{type(e).__name__}", "matches() raises", {"cls": c.cls, "request": q, "reply": gen, "error": repr(e)})
            return
        if not ok:
            ctx.violation(f"matches/{type(resp).__name__}/refuses-own-request", f"{type(resp).__name__}.matches is False for the {c.cls} it answers", {"cls": c.cls, "request": q, "reply": gen})
            return
        # the helper used by code that parses replies itself (parse_static + raise_for_mismatch, e.g. the HSFZ discovery)
        try:
            self.helpers.raise_for_mismatch(req, resp)
        except Exception as e:
            ctx.violation(f"raise_for_mismatch/genuine/{type(e).__name__}", "raise_for_mismatch raises for the genuine reply", {"cls": c.cls, "request": q, "reply": gen, "error": repr(e)})
        # the same reply with one byte of the echoed primary identifier changed must be refused by the class' own matches()
        echo = iso.primary_echo(q)
        if echo is None:
            return
        what, eb = echo
        for i in range(len(eb)):
            ch = bytearray(gen)
            ch[1 + i] ^= rng.choice([1, 0x10, 0x40])
            chb = bytes(ch)
            if iso.decode_response(chb) is None:
                continue
            try:
                other = cls.RESPONSE_TYPE.from_pdu(chb)
            except Exception:
                ctx.reach("matches.direct.changed-unbuildable")
                continue
            ctx.reach("matches.direct.changed-echo")
            try:
                ok2 = other.matches(req)
            except Exception as e:
                ctx.violation(f"matches/{c.cls}/raises/{type(e).__name__}", "matches() raises", {"cls": c.cls, "request": q, "reply": chb, "error": repr(e)})
                continue
            if ok2:
                ctx.violation(f"matches/{type(other).__name__}/accepts-changed[{what}]", f"{type(other).__name__}.matches is True for a reply whose echoed {what} differs from the request", {"cls": c.cls, "request": q, "reply": chb})
                continue
            try:
                self.helpers.raise_for_mismatch(req, other)
                ctx.violation(f"raise_for_mismatch/silent[{what}]", "raise_for_mismatch does not raise for a reply that does not match", {"cls": c.cls, "request": q, "reply": chb})
            except self.exc.RequestResponseMismatch:
                ctx.reach("raise_for_mismatch.raised")
            except Exception as e:
                ctx.violation(f"raise_for_mismatch/{type(e).__name__}", "raise_for_mismatch raises something other than RequestResponseMismatch", {"cls": c.cls, "request": q, "reply": chb, "error": repr(e)})


def run(ctx: Any, params: dict[str, Any]) -> None:
    import gallia.command  # noqa: F401

    rng = ctx.rng
    kinds = enumerate_kinds()
    mon = Mon(ctx)
    # pool of genuine positive replies per service for the foreign-reply family
    pool: dict[int, list[bytes]] = {}
    for _ in range(3000):
        c = gen_uds.any_valid_request(rng)
        if c.expect and iso.request_wellformed(c.expect) and len(c.expect) < 64:
            g = iso.genuine_positive(c.expect)
            if g is not None and iso.decode_response(g) is not None:
                pool.setdefault(c.expect[0], []).append(g)
    if params["part"] == 0:
        mon.nrc_mapping()
        ctx.sample({"services_with_foreign_pool": sorted(f"{k:02x}" for k in pool)})
    names = [n for n in sorted(kinds) if n in gen_uds.GEN and n != "RawRequest"]
    prng = random.Random(0)
    for n in names:
        for _ in range(8):
            x = next(gen_uds.GEN[n](prng))
            if x.expect:
                if n not in mon.by_sid.setdefault(x.expect[0], []):
                    mon.by_sid[x.expect[0]].append(n)
                break
    for n in names:
        for _ in range(params["per_kind"]):
            c = next(gen_uds.GEN[n](rng))
            if c.expect is None or len(c.expect) > 300:
                continue
            mon.run_request(kinds, c, rng, pool)
            mon.direct_matches(kinds, c, rng)
            if rng.random() < 0.01:
                ctx.sample({"request": c.expect, "genuine_reply": iso.genuine_positive(c.expect)})
        if ctx.out_of_time():
            break
    # raw requests of services without typed classes: only the service id decides
    s = mon.service
    for sid in UNTYPED_SIDS:
        for _ in range(max(5, params["per_kind"] // 4)):
            q = bytes([sid]) + rng.randbytes(rng.randint(0, 6))
            req = s.RawRequest(q)
            ctx.reach("raw-untyped")
            mon.expect("raw-untyped/positive", {"returned"}, q, bytes([sid + 0x40]) + rng.randbytes(rng.randint(0, 6)), req, "raw-untyped")
            other = rng.choice([x for x in UNTYPED_SIDS if x != sid])
            mon.expect("raw-untyped/other-positive", {"mismatch"}, q, bytes([other + 0x40]) + rng.randbytes(rng.randint(0, 6)), req, "raw-untyped")
            mon.expect("raw-untyped/negative-same", {"returned"}, q, bytes([0x7F, sid, rng.choice(mon.codes)]), req, "raw-untyped")
            mon.expect("raw-untyped/negative-other", {"mismatch"}, q, bytes([0x7F, other, rng.choice(mon.codes)]), req, "raw-untyped")


def replay(ctx: Any, witness: dict[str, Any]) -> None:
    import gallia.command  # noqa: F401

    mon = Mon(ctx)

    def ux(x: Any) -> Any:
        return bytes.fromhex(x[4:]) if isinstance(x, str) and x.startswith("hex:") else x

    if "request" in witness and "reply" in witness:
        q = from_spec(witness["request_spec"]) if "request_spec" in witness else ux(witness["request"])
        reply = from_spec(witness["reply_spec"]) if "reply_spec" in witness else ux(witness["reply"])
        form = witness.get("form", "raw")
        if form.endswith("-reassigned") and "previous" in witness:
            # the same use: an object that said `previous`, judged once, then re-assigned to say `request`
            q0 = ux(witness["previous"])
            if form.startswith("typed"):
                req = mon.service.UDSRequest.parse_dynamic(q0)
                outcome(mon.helpers.parse_pdu, mon.exc, bytes([0x7F, q0[0], 0x31]), req)
                reassign(req, mon.service.UDSRequest.parse_dynamic(q))
            else:
                req = mon.service.RawRequest(q0)
                outcome(mon.helpers.parse_pdu, mon.exc, bytes([0x7F, q0[0], 0x31]), req)
                req.pdu = q
            mon.prev = {"previous": q0, "previous_kind": witness.get("previous_kind", "")}
        else:
            req = mon.service.RawRequest(q)
            if form == "typed":
                try:
                    req = mon.service.UDSRequest.parse_dynamic(q)
                except Exception:  # the tree's own request parser refuses these bytes: the raw form of the same pair
                    form = "raw"
        mon.expect(witness.get("family", "replay"), set(witness.get("want", ["returned"])), q, reply, req, form)
    else:
        mon.nrc_mapping()
