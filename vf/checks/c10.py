"""C10 Service and identifier scans report what the ECU really supports, nothing else (DESIGN.md section 3, C10; 3a)."""

from __future__ import annotations

import re
from typing import Any

from vf import vtime

PROPERTY = "C10"
LEVEL = "exploration"
ENGINE = "ecu-groundtruth"
TECHNIQUE = (
    "runtime monitoring against ECU-side ground truth: the real ServicesScanner and ScanIdentifiers (main(), and for a share of the "
    "cases the real run() = setup()/main()/teardown() with the cyclic tester-present task) are executed in-process under a "
    "virtual-time event loop against gallia's RandomUDSServer built from generated seeds and randomness parameters; the transport "
    "logs every request with the ECU session before/after and the reply.  The oracle is computed from that log and the server's own "
    "service model only: which service ids / identifiers were probed, in which ECU session, with which PDU layout, how the ECU "
    "answered; it is compared with ServicesScanner.result and with the result-tagged tallies of ScanIdentifiers.  A share of the "
    "service scans runs against an ECU that silently discards under-length requests of implemented services (per session and service "
    "a minimum payload length of 2, 3 or 5 bytes, vf/ecu_models.py InProcessTransport(mute=...)) and answers longer ones normally: "
    "for every service id the probing must go on through the lengths 1,2,3,5 until a not-supported or a meaningful answer arrives.  "
    "A share of the check-session scans runs against ECUs on which the active-session identifier 0xF186 cannot be read in some "
    "non-default sessions (ReadDataByIdentifier absent there, '22 F1 86' answered with requestOutOfRange, or not answered at all) "
    "while it can in the default session, combined with ECU-side session drop-outs: after the ECU has accepted the re-entry the scan "
    "of that session has to go on.  Skip maps are written in every shape of the two-dimensional grammar, including elements whose "
    "outer part names several sessions at once, followed or preceded by elements that give single sessions further ids; what the "
    "scanners then leave out is judged end-to-end against the map the expression denotes.  ECU-side faults put in front of the model "
    "(faulty_ecu): a session in the middle of the requested list whose DiagnosticSessionControl request is never answered or gets a "
    "reply that is no answer to it (incomplete negative response / response naming another service) or is answered with "
    "requestCorrectlyReceived-ResponsePending for as long as the tester goes on reading (pending_chain_ecu: replies back-to-back or up to "
    "3 s apart on the virtual clock, the change is never completed) while later sessions of the list can be entered; service ids whose shorter probe lengths get such a reply while the longer ones are answered by the model; "
    "identifiers of the scanned range that are never answered (all retransmissions) or get such a reply - the later sessions, the "
    "longer probe lengths and the identifiers after them must still be requested and reported.  "
    "A share of the service scans runs through the real run() (cyclic tester present on, as by default) against ECUs with an S3 session "
    "timer on the virtual clock (S3Transport in this file): a non-default session falls back to the default session when no request has "
    "reached the diagnostic server for S3 seconds; requests the ECU discards unanswered in front of it (service ids that stay silent "
    "for all four probe lengths, under-length requests) do not restart the timer.  Several non-default sessions are scanned in one "
    "run, mostly with --reset (ECUReset + wait for the ECU between the sessions, which stops and restarts the cyclic tester present), "
    "with scanner response timeout / tester-present interval / S3 chosen so that during the probes of a silent service id only the "
    "cyclic tester present keeps the scanned session alive; every later probe must still reach the ECU in the claimed session.  "
    "A few service scans per shard are given --db naming a database that an earlier run against the same target left behind (real "
    "DBHandler on a sqlite file in the scratch directory, real event loop): gallia's own session scan of the same ECU, or a scan run "
    "holding the session_transition rows such a scan records (per session the sessions to enter before it, from the default session "
    "on); the session list holds sessions the ECU refuses from the session the scan has got to (reachable only through an "
    "intermediate session, or a first-level session asked for from another one).  Session changes directly followed by a further "
    "session change count as session handling on the way; findings may only be reported for a session the ECU confirmed entering, "
    "and every probe counted for it must have reached the ECU in that session"
)
LEVEL_TEXT = (
    "Exploration: seeded virtual ECUs (p_session 0.3..1, p_service 0.1..0.6, p_identifier 0.05..0.4, with and without "
    "generalReject for handler-less services, with and without silently discarded under-length requests of implemented services) x session lists (range grammar and explicit order, incl. sessions the ECU does not "
    "have or cannot enter) x skip maps in the two-dimensional range grammar (single-session and multi-session elements, entries that name no ids such as '3:', common ids "
    "written once for several sessions plus per-session additions, in either order) x scan_response_ids x check-session x reset; identifier "
    "scans for services 0x22/0x27/0x2E/0x31 over ranges of 64..1024 identifiers around 0x0000, 0x007F, 0xF186, 0xFFFF with payloads, "
    "check-session intervals, skip maps, skip-not-supported; ECU-side session drop-outs (with check-session) and lost replies "
    "(retries); ECUs whose session identifier 0xF186 is unreadable in some non-default sessions (service absent / requestOutOfRange / "
    "no answer), with and without drop-outs; unanswered / garbled / for ever responsePending session changes in the middle of the session list, garbled replies "
    "to the shorter probe lengths of a service, never-answered and garbled identifiers inside the scanned range; ECUs with an S3 session timer "
    "(response timeout + tester-present interval + 0.5 s < S3 < 4 response timeouts) x 2..4 non-default sessions per run x reset on/off x "
    "service ids silent for every probe length, scanned through run() with the cyclic tester present; pre-existing databases with the ECU's "
    "session transitions (left by a real session scan / written as such a scan records them) x session lists with sessions not enterable from the "
    "session scanned before x skip maps x response ids x check-session x main()/run().  Held = on every generated scan each claim of the scanner agrees with the ECU-side log."
)
LEVEL_NOTE = (
    "Trusted: InProcessTransport in vf/ecu_models.py, the window/probe classification of the ECU-side log in this file, gallia's "
    "RandomUDSServer as the ECU (its conformance is C13/C14).  'Implements' = keys of server.services[session] (DESIGN 3a)."
)
RULE = (
    "cases = (server seed, randomness parameters, behaviour switches, scanner kind, session list, skip map, option flags, identifier "
    "range, scanned service, payload, check-session interval, drop-out / loss positions, minimum-length map of the ECU, sessions without a readable "
    "session identifier, faulty session changes (incl. the interval of a never-ending responsePending chain), garbled probe lengths, never-answered / garbled identifiers, run mode, S3 time / response timeout / tester-present interval of S3 ECUs, kind and depth of the "
    "earlier run whose database the scan is given); non-trivial = the ECU answers at "
    "least one probe with something else than serviceNotSupported (services) resp. at least one identifier positively or the scan "
    "covers more than one session (identifiers); distinct = distinct case tuples; distinct_traces = distinct ECU-side logs"
)
ASSUMPTIONS = [
    "'implements' is taken from the model (server.services[session]); probe replies are taken from the ECU-side log, never recomputed from scanner output (DESIGN 3a)",
    "a session whose DiagnosticSessionControl request the ECU refuses is legitimately not scanned (nothing is reported for it); exit codes are not judged here (C15)",
    "ECU-side session drop-outs are injected only with check-session on and directly after a probe; probes between a drop-out and the next session check are not held against the scanner",
    "with service 0x22, no payload and check-session on, requests '22 F1 86' are not attributed (probe and session check are byte-identical on the ECU side); only the tally counts that identifier",
    "a reply lost in transit is a timeout for the client: 'exactly once modulo retries' allows retransmissions only after an undelivered reply",
    "min-length ECUs never discard the scanner's own session handling (services 0x10, 0x11, 0x22, 0x3E are exempt); a discarded request has no effect on the ECU state; "
    "when the probing of a service id stops early, a fresh copy of the model put into that session is asked the remaining probe lengths only to NAME the violation "
    "(missed-service vs probe-lengths-not-exhausted), both are violations",
    "ECUs with an unreadable session identifier keep it readable in the default session (where a drop-out leaves them); in the sessions concerned only the exact "
    "request '22 F1 86' is affected (or service 0x22 is absent from the model of that session, which then is the ground truth for 'implements'); identifier scans "
    "of service 0x22 are run against fully readable ECUs only (probe of 0xF186 and session read are the same request)",
    "a reply that is neither a positive response of the requested service nor a complete (3-byte) negative response naming it is no answer of that service "
    "('garbled'): it makes the service neither a finding nor not-supported, the longer probe lengths remain to be tried; such replies are only generated as an "
    "incomplete negative response '7F sid' or a response naming another service, never for service id 0x3F (whose positive response id would be 0x7F); the "
    "scanned-service requests for 0xF186 are never made deaf or garbled; a faulty request has no effect on the ECU state; a session counts as entered only on a "
    "positive response that names it; the 'Abnormal replies' / 'Timeouts' tallies are outside the statement and not judged",
    "an ECU that answers a session change with responsePending for ever sends the first such reply at once and a further one every fixed interval (0 .. 3 s, below the "
    "5 s of P2*server) for as long as the tester reads; it never completes the change (state unchanged, the session does not count as entered and is legitimately not "
    "scanned), and drops the job as soon as the next request arrives (no stale reply reaches a later request); how long the tester goes on reading is not judged, only that "
    "it gives up at some point (more than 5000 replies read for one request = the scan does not terminate) and that the other sessions of the list are still scanned and reported",
    "ECUs with an S3 timer: the timer is restarted by every request that reaches the diagnostic server of the model (whatever the answer, TesterPresent included) and "
    "not by requests the ECU discards in front of it; S3 is always longer than response timeout + tester-present interval + 0.5 s (the longest one unanswered request can "
    "hold up the cyclic tester present of a scanner with these options) - shorter S3 times, which no tester with these options could serve, are not generated; these scans "
    "run without injected drop-outs, session-read faults and session-change faults; an S3 expiry is not marked in the ECU-side log and excuses nothing: a probe that reaches "
    "the ECU in another session than the claimed one is judged by the same rule as everywhere else; ECUReset with the configured reset type is part of these ECU models in every session",
    "scans that are given a database: the earlier run was against the same target and the same, unchanged ECU model, so every stored path is "
    "one the ECU accepts; these ECUs answer every request, the scans run without drop-outs, session faults, S3 timer and --reset; a session "
    "change that is directly followed by another session change is session handling on the way (it opens no scan window and is not held "
    "against the session list; a refused one counts as a request only if it names a listed session); whether a refused session is retried "
    "through stored transitions at all is not demanded (a refused session is legitimately not scanned) - that it happens is a reach "
    "requirement of the run, so a tree that never completes such a walk cannot be 'held'",
    "a skip expression that the option parser reads differently from the documented grammar is reported as such AND the scan is still judged against the map "
    "the expression denotes (what the skip option names), so a wrongly widened or narrowed skip shows up as not-probed / probed-excluded service ids or identifiers",
]
EXHAUSTIVE = {"quick": False, "thorough": False}
EXHAUSTIVE_NOTE = ""

NOT_SUPPORTED = (0x11, 0x7F)
NO_FINDING = ("silence", "nrc-11", "nrc-7f", "nrc-13", "garbled")  # reply classes of a probe that do not make the service a finding
NON_TERMINAL = ("silence", "nrc-13", "garbled")  # ... after which the longer probe lengths are still to be tried
LENGTHS = (1, 2, 3, 5)
IDENT_SERVICES = (0x22, 0x27, 0x2E, 0x31)

PARAMS: list[dict[str, Any]] = [
    {"p_session": 0.6, "p_service": 0.4, "p_sub_function": 0.1, "p_identifier": 0.1, "p_correct_payload_format": 0.7,
     "optional_sessions": [2, 3, 4, 0x40, 0x41, 0x60]},
    {"p_session": 1.0, "p_service": 0.6, "p_sub_function": 0.2, "p_identifier": 0.3, "p_correct_payload_format": 1.0,
     "optional_sessions": [2, 3, 0x10, 0x7E]},
    {"p_session": 0.3, "p_service": 0.1, "p_sub_function": 0.05, "p_identifier": 0.05, "p_correct_payload_format": 0.3},
    {"p_session": 0.8, "p_service": 0.25, "p_sub_function": 0.3, "p_identifier": 0.2, "p_correct_payload_format": 0.5,
     "mandatory_sessions": [1, 2, 3], "optional_sessions": [0x20, 0x21, 0x22, 0x50]},
    {"p_session": 0.5, "p_service": 0.5, "p_sub_function": 0.02, "p_identifier": 0.4, "p_correct_payload_format": 0.9,
     "optional_sessions": [2, 3, 4, 5, 6, 7, 8]},
]


def shards(tier: str, seed: int) -> list[dict[str, Any]]:
    if tier == "quick":
        return [{"kind": "services", "n": 150, "part": i, "db": 2} for i in range(8)] + [{"kind": "identifiers", "n": 100, "part": i} for i in range(8)]
    return [{"kind": "services", "n": 1800, "part": i, "db": 8} for i in range(16)] + [{"kind": "identifiers", "n": 1100, "part": i} for i in range(16)]


def required_reach(tier: str) -> dict[str, int]:
    return {
        "services.scans": 100, "services.windows": 150, "services.non-default-session-scanned": 40, "services.found": 1000,
        "services.skip-map-used": 20, "services.skip-whole-session": 5, "services.skip-entry-without-ids.session-scanned": 20, "services.response-ids": 20, "services.check-session": 20,
        "services.reset": 10, "services.session-refused": 10, "services.reply.nrc-13": 100, "services.reply.nrc-7f": 100,
        "services.reply.nrc-11": 1000, "services.reply.silence": 20, "services.dropout-recovered": 5, "services.full-run": 10,
        "services.sessions-none": 5, "services.found-at-length>1": 50,
        # ECU models that silently discard under-length requests of implemented services and answer the longer probes
        "services.min-length-ecu": 50, "services.sid-with-silent-probe": 200, "services.found-after-silence.min-length-ecu": 60,
        "identifiers.scans": 100, "identifiers.windows": 120, "identifiers.non-default-session-scanned": 30,
        "identifiers.positive": 500, "#identifiers.service:": 4, "#identifiers.positive.service:": 4, "identifiers.skip-map-used": 15,
        "identifiers.check-session": 20, "identifiers.boundary.0000": 5, "identifiers.boundary.f186": 5, "identifiers.boundary.ffff": 5,
        "identifiers.boundary.7f-clamp": 5, "identifiers.payload": 20, "identifiers.retry": 5, "identifiers.dropout-recovered": 3,
        "identifiers.skip-not-supported-stop": 3, "identifiers.sessions-none": 5, "identifiers.full-run": 10,
        "identifiers.tally-checked": 120,
        # skip expressions with an element naming several sessions at once; sessions introduced by such an element scanned while a
        # later element gives a session named with them further ids (which this session must still have probed)
        "services.skip-multi-session-element": 40, "services.skip-multi-session-element-then-additions.scanned": 20,
        "identifiers.skip-multi-session-element": 30, "identifiers.skip-multi-session-element-then-additions.scanned": 10,
        # ECU lost the scanned session, told so in the default session, accepted the re-entry, and cannot tell its session there
        # (by kind of non-answer: nrc-7f service absent in that session, nrc-31, silence)
        "services.dropout-recovered.session-unreadable": 8, "#services.dropout-recovered.session-unreadable.": 3,
        "identifiers.dropout-recovered.session-unreadable": 5, "#identifiers.dropout-recovered.session-unreadable.": 2,
        # a session in the middle of the list whose change request is never answered / gets a reply that is no answer to it (the
        # client's set_session raises), and a later session of the list entered afterwards
        "services.session-change-raises.later-session-entered": 20, "#services.session-change-raises.later-session-entered.": 2,
        # a session in the middle of the list whose change request is answered with responsePending for as long as the tester reads
        # (never completed; replies back-to-back / spaced out), sessions scanned before it and a later session entered after it
        "services.session-change-pending-for-ever.later-session-entered": 8, "#services.session-change-pending-for-ever.later-session-entered.": 2,
        "services.session-change-pending-for-ever.earlier-session-scanned": 8,
        # service ids whose shorter probe lengths get a reply that is no answer of that service (incomplete / names another service)
        # while a longer probe length is answered meaningfully
        "services.sid-with-garbled-probe": 200, "services.found-after-garbled": 60, "#services.found-after-garbled.": 2,
        # identifiers the ECU never answers (all retransmissions) resp. answers with such a reply, with further identifiers after them
        "identifiers.never-answered-identifier.later-probed": 50, "identifiers.garbled-reply.later-probed": 50,
        "#identifiers.garbled-reply.later-probed.": 2,
        # ECUs with an S3 session timer scanned through run() with the cyclic tester present on: non-default sessions entered after an
        # ECUReset + wait for the ECU (cyclic tester present stopped and restarted), service ids silent for all four probe lengths, and
        # stretches longer than S3 in which only TesterPresent reached the diagnostic server and the ECU stayed in the scanned session
        "services.s3-ecu": 40, "services.s3-ecu.non-default-session-scanned": 80, "services.s3-ecu.session-entered-after-reset-and-wait": 40,
        "services.s3-ecu.sid-silent-for-all-lengths": 100, "services.s3-ecu.kept-alive-by-tester-present-only": 60,
        "services.s3-ecu.kept-alive-by-tester-present-only.after-reset-and-wait": 30,
        # service scans that use a database an earlier run left behind (session transitions written by a real session scan / the rows
        # such a scan writes): sessions of the list that the ECU refuses from the session it is in and then enters through the stored
        # path (through the default session only / through a further intermediate session), and are scanned after that
        "services.db.scans": 12, "#services.db.history.": 2, "services.db.session-entered-via-stored-path": 12,
        "#services.db.session-entered-via-stored-path.": 2, "services.db.session-entered-via-stored-path.through-intermediate-session": 4,
        "services.db.session-scanned-after-stored-path": 12,
    }


# ---- shared: server, windows ---------------------------------------------------------------------------------------
def make_server(case: dict[str, Any]) -> Any:
    from gallia.services.uds.server import RandomUDSServer, UDSServer

    rp = RandomUDSServer.RandomnessParameters(**case["rp"])
    beh = UDSServer.Behavior(**{k: False for k in case.get("behavior_off", [])})
    srv = RandomUDSServer(case["server_seed"], rp, beh)
    srv.randomize()
    apply_session_read(srv, case.get("session_read") or {})
    apply_reset_levels(srv, (case.get("s3") or {}).get("reset_levels") or [])
    return srv


# ---- ECUs with an idle (S3) session timer ---------------------------------------------------------------------------
def apply_reset_levels(srv: Any, levels: list[int]) -> None:
    """the ECU model offers ECUReset with these reset types in every session (a reset the scanner is told to do must be possible,
    otherwise nothing waits for the ECU); part of the model, i.e. of the ground truth for 'implements'"""
    from gallia.services.uds.core.constants import UDSIsoServices

    if not levels:
        return
    for d in srv.services.values():
        d[UDSIsoServices.EcuReset] = sorted({*(d.get(UDSIsoServices.EcuReset) or []), *levels})


_s3_transport: Any = None


def s3_transport_class() -> Any:
    """In-process transport in front of an ECU model with an S3 (session idle) timer on the event loop's (virtual) clock:
    the timer is restarted whenever a request reaches the diagnostic server of the model (whatever it answers, TesterPresent
    included); a request that the ECU discards in front of the server (mute map: under-length / never-answered service ids;
    faulty_ecu) does not restart it.  When a request arrives more than `s3` seconds after the last restart while the ECU is in a
    non-default session, the ECU has fallen back to its power-on state (default session) before it looks at the request.
    Unlike the injected drop-outs this is NOT marked in the log (no pseudo entry, the window does not become 'dirty'): keeping the
    session alive is the tester's job.  times[i] = virtual time of log entry i, processed = log indices that reached the server,
    expired = [(log index of the request that found the session gone, session lost, idle seconds)]."""
    global _s3_transport
    if _s3_transport is None:
        import asyncio

        from vf import ecu_models as em

        class S3Transport(em.InProcessTransport, scheme="inprocess-s3"):  # type: ignore[misc]
            def __init__(self, server: Any, s3: float, **kw: Any) -> None:
                super().__init__(server, **kw)
                self.s3 = s3
                self.times: list[float] = []
                self.processed: set[int] = set()
                self.expired: list[tuple[int, int, float]] = []
                self.last_restart = 0.0
                inner = self.st.handle_request

                async def handle_request(pdu: bytes) -> Any:
                    self.last_restart = asyncio.get_running_loop().time()
                    self.processed.add(len(self.log))
                    return await inner(pdu)

                self.st.handle_request = handle_request  # type: ignore[method-assign]

            async def write(self, data: bytes, timeout: float | None = None, tags: list[str] | None = None) -> int:
                now = asyncio.get_running_loop().time()
                if self.server.state.session != 1 and now - self.last_restart > self.s3:
                    self.expired.append((len(self.log), self.server.state.session, round(now - self.last_restart, 3)))
                    self.server.state.reset()
                n = len(self.log)
                try:
                    return await super().write(data, timeout, tags)
                finally:
                    self.times.extend([now] * (len(self.log) - n))

        _s3_transport = S3Transport
    return _s3_transport


S3_SCANNER_TIMEOUTS = (0.5, 1.0, 2.0, 2.0)  # response timeout of the scanner (2 s is gallia's default)
S3_TP_INTERVALS = (0.25, 0.5, 0.5, 1.0)  # interval of the cyclic tester present (0.5 s is gallia's default)
S3_SHARE = 0.09  # share of the service scans that run against an ECU with an S3 timer
DEAF = 6  # minimum payload length no probe reaches: every probe length (1, 2, 3, 5) of such a service id is discarded unanswered


def gen_s3_case(rng: Any) -> dict[str, Any]:
    """A service scan through the real run() (cyclic tester present on, as by default) over several non-default sessions of an ECU
    with an S3 timer, mostly with --reset (ECUReset + wait for the ECU after every session, which stops and restarts the cyclic
    tester present), against service ids that stay silent for every probe length (plus the usual minimum-length ECUs).
    The S3 time is chosen from what the scanner's own options can serve: longer than response timeout + tester-present interval
    (the longest the cyclic tester present can be held up by one unanswered request) and shorter than four response timeouts (what
    the probes of one all-silent service id take), so that in such a phase ONLY the cyclic tester present keeps the session alive."""
    reset = rng.choice([1, 1, 1, 3, 3, None])
    for attempt in range(8):
        if attempt and reset is None:
            reset = rng.choice([1, 3])  # no walk of two non-default sessions on that ECU: sessions of the first level, with a reset
        case = gen_server_case(rng, need=[0x11] if reset is not None else None)
        if "optional_sessions" not in case["rp"] or case["rp"]["p_session"] < 0.5:
            case["rp"]["p_session"] = 0.8
            case["rp"].setdefault("optional_sessions", [2, 3, 4, 0x40, 0x60])
        t = rng.choice(S3_SCANNER_TIMEOUTS)
        iv = rng.choice([x for x in S3_TP_INTERVALS if t + x + 0.5 < 4 * t - 0.25])
        case["s3"] = {"timeout": round(rng.uniform(t + iv + 0.5, 4 * t - 0.25), 2), "scanner_timeout": t, "tp_interval": iv,
                      "reset_levels": [reset] if reset is not None else []}
        srv = make_server(case)
        trans = transitions_of(srv)
        lvl1 = [x for x in trans.get(1, []) if x != 1]
        if reset is not None:
            sessions = rng.sample(lvl1, min(len(lvl1), rng.randint(2, 4)))  # after the reset every one is entered from the default session
        else:
            sessions, cur = [], 1
            for _ in range(rng.randint(2, 4)):  # a walk: every session is entered from the one scanned before
                nxt = [x for x in trans.get(cur, []) if x not in sessions and x != 1]
                if not nxt:
                    break
                cur = rng.choice(nxt)
                sessions.append(cur)
        if len(sessions) >= 2:
            break
    if not sessions or rng.random() < 0.25:
        sessions.insert(rng.randint(0, len(sessions)) if reset is not None else 0, 1)  # the default session scanned as well
    scan_response_ids = rng.random() < 0.25
    skip: dict[int, list[int] | None] = {}
    if rng.random() < 0.3 and sessions:
        a = rng.choice([0, 0x10, 0x27, 0x80, 0xBF, rng.randrange(256)])
        skip[rng.choice(sessions)] = list(range(a, min(256, a + rng.choice([1, 4, 16, 64]))))
    mute = gen_mute(rng, srv) if rng.random() < 0.6 else {}
    for s in sessions:
        if s == 1 and rng.random() < 0.7:
            continue
        cand = [x for x in range(256) if (scan_response_ids or not x & 0x40) and x not in MUTE_EXEMPT and x not in (skip.get(s) or [])]
        impl = [x for x in cand if x in model_of(srv).get(s, set())]
        chosen = set(rng.sample(cand, min(len(cand), rng.randint(1, 3))))
        if impl and rng.random() < 0.6:
            chosen.add(rng.choice(impl))  # an implemented service that is never answered in this session
        mute.setdefault(str(s), {}).update({str(x): DEAF for x in chosen})
    sessions_opt: Any = list(sessions)
    case.update({
        "kind": "services", "sessions_opt": sessions_opt, "sessions": list(sessions), "check_session": rng.random() < 0.25,
        "scan_response_ids": scan_response_ids, "reset": reset, "skip": {str(k): v for k, v in skip.items()},
        "skip_expr": render_skip(rng, skip) if skip else [], "full": True, "dropouts": [], "mute": mute,
        "session_read": {}, "dsc_fault": {},
    })
    case["garble"] = gen_garble(rng, srv, mute) if rng.random() < 0.2 else {}
    return case


SESSION_READ = b"\x22\xf1\x86"
SESSION_READ_MODES = ("absent", "nrc-31", "silent")


def apply_session_read(srv: Any, modes: dict[str, str]) -> None:
    """ECUs on which the active-session identifier 0xF186 cannot be read in some sessions (the identifier is optional):
    'absent'  ReadDataByIdentifier is not implemented in that session at all (removed from the model; the ECU's own rule chain
              answers serviceNotSupportedInActiveSession),
    'nrc-31'  the request '22 F1 86' is answered with requestOutOfRange there,
    'silent'  the request '22 F1 86' is not answered there.
    Every other request, and every other session, is handled by the unchanged model."""
    from gallia.services.uds.core import service
    from gallia.services.uds.core.constants import UDSErrorCodes, UDSIsoServices

    if not modes:
        return
    by_session = {int(k): v for k, v in modes.items()}
    for sess, mode in by_session.items():
        if mode == "absent" and sess in srv.services:
            srv.services[sess].pop(UDSIsoServices.ReadDataByIdentifier, None)
    def is_session_read(request: Any) -> bool:
        return isinstance(request, service.ReadDataByIdentifierRequest) and list(request.data_identifiers) == [0xF186]

    refuse = {k for k, v in by_session.items() if v == "nrc-31"}
    silent = {k for k, v in by_session.items() if v == "silent"}
    if refuse:
        inner_read = srv.default_response_if_session_read

        def session_read(request: Any) -> Any:
            if srv.state.session in refuse and is_session_read(request):
                return service.NegativeResponse(request.service_id, UDSErrorCodes.requestOutOfRange)
            return inner_read(request)

        srv.default_response_if_session_read = session_read
    if silent:
        inner_respond = srv.respond

        async def respond(request: Any) -> Any:
            if srv.state.session in silent and is_session_read(request):
                return None
            return await inner_respond(request)

        srv.respond = respond


def session_read_answerable(case: dict[str, Any], model: dict[int, set[int]], session: int) -> bool:
    """does the ECU model tell its session when asked with '22 F1 86' while it is in `session`"""
    return 0x22 in model.get(session, set()) and str(session) not in (case.get("session_read") or {})


def gen_session_read(rng: Any, srv: Any) -> dict[str, str]:
    """a non-empty random subset of the non-default sessions of the ECU in which the session cannot be read (the default session,
    where the ECU ends up after losing its session, stays readable)"""
    cand = [x for x in sorted(model_of(srv)) if x != 1]
    if not cand:
        return {}
    chosen = [x for x in cand if rng.random() < 0.7] or [rng.choice(cand)]
    return {str(x): rng.choice(SESSION_READ_MODES) for x in chosen}


def model_of(srv: Any) -> dict[int, set[int]]:
    return {int(s): {int(k) for k in d} for s, d in srv.services.items()}


def transitions_of(srv: Any) -> dict[int, list[int]]:
    return {int(s): sorted(int(x) for x in (d.get(0x10) or [])) for s, d in srv.services.items()}


def add_entry_without_ids(skip: dict[int, list[int] | None], sessions: list[int]) -> int | None:
    """round 8: in about a quarter of the cases one session to be scanned that has no skip entry yet gets an entry that names NO ids
    ('0x03:' on the command line, {3: []} as a map): nothing is skipped there, all ids of that session are to be probed.  The choice is
    derived from the case itself, not drawn from the case's random stream, so all other draws stay what they were."""
    import zlib

    h = zlib.crc32(repr((sorted((k, tuple(v) if v is not None else None) for k, v in skip.items()), list(sessions))).encode())
    free = [x for x in sessions if x not in skip]
    if not free or h % 4 != 0:
        return None
    s = free[(h >> 8) % len(free)]
    skip[s] = []
    return s


def render_skip(rng: Any, skip: dict[int, list[int] | None], group: tuple[list[int], list[int]] | None = None) -> list[str]:
    """the skip map in the two-dimensional grammar '<sessions>:<ids>' / '<sessions>' (whole session).
    group = (sessions, ids): ids that all these sessions have in common are written ONCE, as elements whose outer part is a range /
    enumeration of the sessions ('1-2:0x10', '0x2,5:16-31'); what a session skips beyond that follows in elements of its own."""
    from vf import ecu_models as em

    f = lambda x: hex(x) if rng.random() < 0.5 else str(x)  # noqa: E731
    outer = lambda ss: ",".join(em.render_ranges(rng, ss))  # noqa: E731
    head: list[str] = []
    items: list[str] = []
    shared: set[int] = set()
    members: set[int] = set()
    if group is not None:
        members, shared = set(group[0]), set(group[1])
        for part in em.render_ranges(rng, sorted(shared)):
            head.append(f"{outer(sorted(members))}:{part}")
    whole = [s for s, ids in skip.items() if ids is None]
    if len(whole) > 1 and rng.random() < 0.5:  # several whole sessions named by one outer expression
        items.append(outer(whole))
        whole = [s for s in whole if rng.random() < 0.3]
    for s in whole:
        items.append(f(s))
        if rng.random() < 0.3:  # overridden by the whole-session entry
            items.append(f"{f(s)}:0x10-0x1f")
    for s, ids in skip.items():
        if ids is None:
            continue
        own = [x for x in ids if not (s in members and x in shared and rng.random() < 0.9)]
        for part in em.render_ranges(rng, own) if own else []:
            items.append(f"{f(s)}:{part}")
        if not ids:
            items.append(f"{hex(s) if s % 2 else str(s)}:")  # an entry that names no ids
    rng.shuffle(items)
    if head and rng.random() < 0.7:
        items = head + items  # the common part first, the per-session additions after it
    else:
        items = head + items
        rng.shuffle(items)
    if len(items) > 1 and rng.random() < 0.5:  # one argument holding several blank-separated entries
        return [" ".join(items)]
    return items


def skip_elements(skip_expr: list[str]) -> list[tuple[list[int], list[int] | None]]:
    """the elements of a skip expression in the order written: (sessions named by the outer part, ids | None for a whole-session
    element); read by the documented grammar (blank-separated elements, ':' between the dimensions, ',' enumerations, '-' ranges)"""
    def ids(text: str) -> list[int]:
        out: set[int] = set()
        for piece in text.split(","):
            if not piece:
                continue  # '3:' names no ids
            if "-" in piece:
                a, b = piece.split("-")
                out.update(range(int(a, 0), int(b, 0) + 1))
            else:
                out.add(int(piece, 0))
        return sorted(out)

    els: list[tuple[list[int], list[int] | None]] = []
    for el in " ".join(skip_expr).split(" "):
        if not el:
            continue
        if ":" in el:
            a, b = el.split(":")
            els.append((ids(a), ids(b)))
        else:
            els.append((ids(el), None))
    return els


def skip_later_additions(skip_expr: list[str], skip: dict[int, list[int] | None]) -> dict[int, set[int]]:
    """The situation 'several sessions are first named together by one element, a later element gives only some of them further
    ids': {session S: ids which such a later element names for a session introduced together with S, not for S, and which the
    skip map does not hold for S}.  Those ids are to be probed in S.  Only used for reach counters."""
    together: dict[int, set[int]] = {}
    seen: set[int] = set()
    out: dict[int, set[int]] = {}
    for sess, ids in skip_elements(skip_expr):
        new = [x for x in sess if x not in seen]
        if ids is not None:
            for x in sess:
                if x in new:
                    continue
                for sib in together.get(x, set()) - set(sess):
                    if skip.get(sib, []) is None:
                        continue
                    extra = set(ids) - set(skip.get(sib) or [])
                    if extra:
                        out.setdefault(sib, set()).update(extra)
            if len(new) > 1:
                for x in new:
                    together[x] = set(new) - {x}
        seen.update(sess)
    return out


def plant_skip_group(rng: Any, skip: dict[int, list[int] | None], cand: list[int], prefer: list[int], make_ids: Any) -> tuple[list[int], list[int]] | None:
    """two or three sessions (those to be scanned preferred) get a common block of skipped ids, and at least one but not all of them
    further ids of their own; returns (sessions, common ids) for render_skip"""
    pool = [x for x in dict.fromkeys(list(prefer) + list(cand)) if skip.get(x, []) is not None]
    if len(pool) < 2:
        return None
    k = min(len(pool), rng.choice([2, 2, 3]))
    first = [x for x in pool if x in prefer][:8]
    members = rng.sample(first, min(k, len(first))) if len(first) >= 2 and rng.random() < 0.8 else rng.sample(pool, k)
    if len(members) < 2:
        members = rng.sample(pool, k)
    shared = sorted(make_ids())
    for m in members:
        skip[m] = sorted(set(skip.get(m) or []) | set(shared))
    extended = rng.sample(members, rng.randint(1, len(members) - 1))
    for m in extended:
        skip[m] = sorted(set(skip[m] or []) | set(make_ids()))
    return sorted(members), shared


class Window:
    def __init__(self, session: int | None):
        self.session = session
        self.entries: list[tuple[int, int, bytes, bytes | None, bool]] = []  # (log index, session before, request, reply, delivered)
        self.recover_refused = False
        self.recovered = 0
        # database in use (split_windows(walks=True)): the listed session whose refused change request began the run of session
        # changes that ended with the one opening this window; steps = sessions of the accepted changes in between
        self.attempt: int | None = None
        self.steps: list[int] = []


def split_windows(log: list[Any], lost: set[int], sessions_given: bool, walks: bool = False,
                  listed: set[int] | None = None) -> tuple[list[Window], list[tuple[int, bool]], list[tuple[int, bytes]]]:
    """ECU-side log -> scan windows: a window opens with a positive reply to '10 S' and lasts until a DiagnosticSessionControl
    request for another session, an ECUReset request or the end.  Without --sessions the whole log is one window.
    walks (the scan uses a database with stored session transitions): session changes that are directly followed by a further
    session change are session handling on the way (a stored path being walked), not scans: an accepted one opens no window and
    is not held against the session list, a refused / unanswered one counts as a request only if it names a session of the list
    (`listed`).  The window a run of session changes ends with remembers how it was reached (Window.attempt / Window.steps).
    Returns (windows, [(requested session, entered)], requests outside any window)."""
    wins: list[Window] = []
    asked: list[tuple[int, bool]] = []
    outside: list[tuple[int, bytes]] = []
    cur: Window | None = None
    if not sessions_given:
        cur = Window(None)
        wins.append(cur)

    def is_dsc(j: int) -> bool:
        return 0 <= j < len(log) and len(log[j][1]) == 2 and log[j][1][0] == 0x10 and log[j][1][1] != 0

    attempt: int | None = None
    steps: list[int] = []
    for i, (before, q, r, after) in enumerate(log):
        delivered = r is not None and i not in lost
        if sessions_given and len(q) == 2 and q[0] == 0x10 and q[1] != 0:
            s = q[1] & 0x7F
            positive = r is not None and len(r) >= 2 and r[0] == 0x50 and r[1] & 0x7F == s
            if cur is not None and cur.session == s:
                if positive:
                    cur.recovered += 1
                else:
                    cur.recover_refused = True
                cur.entries.append((i, before, q, r, delivered))
                continue
            cur = None
            if walks:
                if not is_dsc(i - 1):
                    attempt, steps = None, []  # a new run of session changes begins
                if is_dsc(i + 1):
                    # on the way: another session change follows at once
                    if positive:
                        steps.append(s)
                    elif s in (listed or set()):
                        asked.append((s, False))
                        if attempt is None and not steps:
                            attempt = s
                    continue
            asked.append((s, positive))
            if positive:
                cur = Window(s)
                cur.attempt, cur.steps = (attempt, list(steps)) if walks else (None, [])
                wins.append(cur)
            continue
        if sessions_given and len(q) == 2 and q[0] == 0x11 and q[1] != 0:
            cur = None
            outside.append((i, q))
            continue
        if cur is None:
            outside.append((i, q))
        else:
            cur.entries.append((i, before, q, r, delivered))
    return wins, asked, outside


def nrc_of(q: bytes, r: bytes | None) -> int | None:
    if r is not None and len(r) == 3 and r[0] == 0x7F and r[1] == q[0]:
        return r[2]
    return None


def reply_class(q: bytes, r: bytes | None, delivered: bool = True) -> str:
    if r is None or not delivered:
        return "silence"
    n = nrc_of(q, r)
    if n is not None:
        return f"nrc-{n:02x}"
    return "positive" if r[0] == (q[0] + 0x40) & 0xFF else "garbled"  # neither a positive nor a complete negative response of the requested service


GARBLE_KINDS = ("truncated", "foreign-negative", "foreign-positive")


def garbled_reply(sid: int, kind: str) -> bytes:
    """a reply that is not an answer of service `sid`: an incomplete negative response, or a response that names another service"""
    if kind == "truncated":
        return bytes([0x7F, sid])
    other = sid ^ 0x01
    if (other + 0x40) & 0xFF == 0x7F:
        other = sid ^ 0x02
    if kind == "foreign-negative":
        return bytes([0x7F, other, 0x31])
    return bytes([(other + 0x40) & 0xFF, 0x00])


def identifier_of(service: int, q: bytes) -> int | None:
    """the identifier field of a request of `service` in the ISO layout (0x27: sub-function byte, 0x31: after the sub-function)"""
    if not q or q[0] != service:
        return None
    if service == 0x27:
        return q[1] if len(q) >= 2 else None
    if service == 0x31:
        return (q[2] << 8) | q[3] if len(q) >= 4 else None
    return (q[1] << 8) | q[2] if len(q) >= 3 else None


def faulty_ecu(case: dict[str, Any], srv: Any, st: Any) -> Any:
    """ECU-side faults of the generated case, put in front of the model's request handler `st` (gallia's UDSServerTransport).  A faulty
    request is not processed by the model (no effect on the ECU state); everything else goes to the unchanged model.
      dsc_fault    {session id: 'silent' | garble kind}: DiagnosticSessionControl for that session is never answered / answered with a
                   reply that is no answer to it, from whatever session it is asked
      garble       {session: {service id: [garble kind, [payload lengths]]}}: the all-zero requests of that service with one of these
                   payload lengths are answered with such a reply while the ECU is in that session
      deaf_ids     identifiers of the scanned service whose requests are never answered
      garbled_ids  {identifier: garble kind} identifiers of the scanned service whose requests get such a reply"""
    dsc = {int(k): v for k, v in (case.get("dsc_fault") or {}).items()}
    garble = {(int(sess), int(sid)): (v[0], set(v[1])) for sess, d in (case.get("garble") or {}).items() for sid, v in d.items()}
    deaf = set(case.get("deaf_ids") or [])
    gids = {int(k): v for k, v in (case.get("garbled_ids") or {}).items()}
    if not (dsc or garble or deaf or gids):
        return st
    service = case.get("service")
    inner = st.handle_request

    async def handle_request(pdu: bytes) -> tuple[bytes | None, float]:
        q = bytes(pdu)
        if dsc and len(q) == 2 and q[0] == 0x10 and (q[1] & 0x7F) in dsc:
            kind = dsc[q[1] & 0x7F]
            if kind == "pending":
                return PENDING_DSC, 0.0  # the first of a chain of such replies that never ends (pending_chain_ecu)
            return (None if kind == "silent" else garbled_reply(0x10, kind)), 0.0
        if garble and len(q) >= 2 and not any(q[1:]):
            g = garble.get((srv.state.session, q[0]))
            if g is not None and len(q) - 1 in g[1]:
                return garbled_reply(q[0], g[0]), 0.0
        if service is not None and (deaf or gids) and q != SESSION_READ:
            did = identifier_of(service, q)
            if did is not None and did in deaf:
                return None, 0.0
            if did is not None and did in gids:
                return garbled_reply(service, gids[did]), 0.0
        return await inner(q)

    st.handle_request = handle_request
    return st


PENDING_DSC = b"\x7f\x10\x78"  # negative response of DiagnosticSessionControl: requestCorrectlyReceived-ResponsePending
PENDING_INTERVALS = (0.0, 0.01, 0.2, 0.45, 1.2, 3.0)  # seconds between two responsePending replies of one chain
PENDING_CAP = 5000  # responsePending replies of ONE chain handed to the client: it never gives up on the request


def pending_chain_ecu(case: dict[str, Any], tr: Any) -> Any:
    """ECU that answers DiagnosticSessionControl for the sessions with dsc_fault 'pending' with requestCorrectlyReceived-
    ResponsePending for ever: the first such reply comes at once (faulty_ecu), a further one every `pending_interval` seconds of the
    (virtual) clock for as long as the tester goes on reading; the session change is never completed, the ECU state is unchanged.
    The next request of the tester ends the chain (the ECU turns to the new request); every other request is handled as before.
    tr.pending_sent = per chain the number of responsePending replies the tester was handed."""
    sessions = {int(k) for k, v in (case.get("dsc_fault") or {}).items() if v == "pending"}
    tr.pending_sent = []
    if not sessions:
        return tr
    import asyncio

    from vf import ecu_models as em

    interval = float(case.get("pending_interval") or 0.0)
    nxt: list[float | None] = [None]
    inner_write, inner_read = tr.write, tr.read

    async def write(data: bytes, timeout: float | None = None, tags: list[str] | None = None) -> int:
        nxt[0] = None
        n = await inner_write(data, timeout, tags)
        q = bytes(data)
        if len(q) == 2 and q[0] == 0x10 and (q[1] & 0x7F) in sessions:
            nxt[0] = asyncio.get_running_loop().time() + interval
            tr.pending_sent.append(1)
        return n

    async def read(timeout: float | None = None, tags: list[str] | None = None) -> bytes:
        if tr.queue or nxt[0] is None:
            return await inner_read(timeout, tags)
        wait = max(0.0, nxt[0] - asyncio.get_running_loop().time())
        if timeout is not None and wait > timeout:
            await asyncio.sleep(timeout)
            raise TimeoutError("no reply from the ECU model")
        await asyncio.sleep(wait)
        nxt[0] += interval
        tr.pending_sent[-1] += 1
        if tr.pending_sent[-1] > PENDING_CAP:
            raise em.BudgetExceeded(f"{PENDING_CAP} responsePending replies to one request read")
        return PENDING_DSC

    tr.write, tr.read = write, read
    return tr


def gen_server_case(rng: Any, need: list[int] | None = None, silence_ok: bool = True) -> dict[str, Any]:
    rp = dict(rng.choice(PARAMS))
    if rng.random() < 0.5:
        rp["p_service"] = round(rng.uniform(0.1, 0.6), 2)
        rp["p_identifier"] = round(rng.uniform(0.05, 0.4), 2)
    if need:
        rp["mandatory_services"] = sorted({0x10, *need})
    off: list[str] = []
    if silence_ok and rng.random() < 0.25:
        off.append("default_response_if_none")
    return {"server_seed": f"c10-{rng.getrandbits(40):x}", "rp": rp, "behavior_off": off}


def pick_sessions(rng: Any, srv: Any) -> tuple[Any, list[int]]:
    """--sessions as given to the config class, and its meaning (order of scanning)"""
    from vf import ecu_models as em

    trans = transitions_of(srv)
    have = sorted(trans)
    r = rng.random()
    if r < 0.12:
        return None, []
    if r < 0.45:  # a walk through the transition graph: every session can be entered in the given order
        walk = []
        cur = 1
        for _ in range(rng.randint(1, 5)):
            nxt = [x for x in trans.get(cur, []) if x not in walk]
            if not nxt:
                break
            cur = rng.choice(nxt)
            walk.append(cur)
        if not walk:
            walk = [1]
        return list(walk), list(walk)
    pool = have + [x for x in (rng.randint(2, 0x7F), 0x7F) if x not in have]
    chosen = sorted(set(rng.sample(pool, rng.randint(1, min(5, len(pool))))))
    if rng.random() < 0.5:
        return em.render_ranges(rng, chosen), chosen  # CLI style: sorted, unique
    rng.shuffle(chosen)
    return list(chosen), list(chosen)  # config-file style: explicit order


# ---- services scan -------------------------------------------------------------------------------------------------
def gen_services_case(rng: Any) -> dict[str, Any]:
    if rng.random() < S3_SHARE:
        return gen_s3_case(rng)
    check = rng.random() < 0.4
    dropouts = check and rng.random() < 0.4
    case = gen_server_case(rng, need=[0x22] if dropouts else None)
    srv = make_server(case)
    sessions_opt, sessions = pick_sessions(rng, srv)
    case["session_read"] = gen_session_read(rng, srv) if check and sessions and rng.random() < (0.6 if dropouts else 0.15) else {}
    if case["session_read"]:
        srv = make_server(case)
    case["dsc_fault"] = {}
    if rng.random() < 0.12 and (plan := gen_dsc_fault(rng, srv)) is not None:
        sessions, case["dsc_fault"] = plan
        sessions_opt = list(sessions)
        if "pending" in case["dsc_fault"].values():
            case["pending_interval"] = rng.choice(PENDING_INTERVALS)
    skip: dict[int, list[int] | None] = {}
    if rng.random() < 0.5:
        cand = sorted(set(sessions) | set(model_of(srv)))
        for s in rng.sample(cand, rng.randint(1, min(3, len(cand)))):
            if rng.random() < 0.2:
                skip[s] = None
            else:
                ids: set[int] = set()
                for _ in range(rng.randint(1, 4)):
                    a = rng.choice([0, 0x10, 0x22, 0x27, 0x3E, 0x7F, 0xBF, 0xFF, rng.randrange(256)])
                    ids.update(range(a, min(256, a + rng.choice([1, 1, 4, 16, 64]))))
                skip[s] = sorted(ids)
    add_entry_without_ids(skip, sessions)
    group = None
    if rng.random() < 0.3:
        def some_sids() -> set[int]:
            a = rng.choice([0, 0x10, 0x22, 0x27, 0x31, 0x3E, 0x85, 0xBF, 0xFF, rng.randrange(256)])
            return set(range(a, min(256, a + rng.choice([1, 1, 2, 4, 16]))))
        group = plant_skip_group(rng, skip, sorted(set(sessions) | set(model_of(srv))), [x for x in sessions if x in model_of(srv)], some_sids)
    case.update({
        "kind": "services", "sessions_opt": sessions_opt, "sessions": sessions, "check_session": check,
        "scan_response_ids": rng.random() < 0.35, "reset": rng.choice([None, None, 1, 3]),
        "skip": {str(k): v for k, v in skip.items()}, "skip_expr": render_skip(rng, skip, group) if skip else [],
        "full": (not dropouts) and rng.random() < 0.25,
        "dropouts": sorted(rng.sample(range(1, 600), rng.randint(1, 4))) if dropouts and sessions else [],
        "mute": gen_mute(rng, srv) if rng.random() < 0.4 else {},
    })
    case["garble"] = gen_garble(rng, srv, case["mute"]) if rng.random() < 0.3 else {}
    return case


# ---- service scans that use a database an earlier run left behind ------------------------------------------------------
DB_TIMEOUT = 0.2  # UDS timeout of DB-backed scans (real seconds; these ECU models answer every request at once)
DB_WALL = 120.0  # real-time watchdog for one DB-backed history (earlier run + service scan; seconds of work, mostly fsync)
_db_seq = 0


def stored_paths(trans: dict[int, list[int]]) -> dict[int, list[int]]:
    """{session: the sessions to enter one after the other, from the default session on, before the session itself can be requested};
    breadth first over the transitions of the ECU model, i.e. the shortest way (for the default session and its direct successors [1])"""
    paths: dict[int, list[int]] = {1: [1]}
    level = [1]
    while level:
        nxt = []
        for a in level:
            way = paths[a] + [a] if a != 1 else [1]
            for b in trans.get(a, []):
                if b not in paths:
                    paths[b] = way
                    nxt.append(b)
        level = nxt
    return paths


def needs_path(trans: dict[int, list[int]], sessions: list[int]) -> list[tuple[int, int]]:
    """[(session of the list, session the ECU is in when it is requested)] for the sessions of the list that the ECU model refuses
    from where the scan has got to (a refused session leaves the ECU where it is unless a stored path is walked; with one, the
    scan goes on from that session) and that can be reached from the default session at all"""
    out = []
    cur = 1
    reach = stored_paths(trans)
    for s in sessions:
        if s in trans.get(cur, []):
            cur = s
        elif s in reach:
            out.append((s, cur))
            cur = s
    return out


def gen_db_case(rng: Any, history: str | None = None) -> dict[str, Any]:
    """A service scan with --db naming a database that an earlier run against the same target left behind: it holds the session
    transitions of the ECU (written by gallia's own session scan, or the rows such a scan writes: for every session the sessions to
    go through from the default session).  The session list holds at least one session that the ECU refuses from the session the
    scan has got to (a session only reachable through an intermediate session, or a first-level session asked for from another
    one); sessions, skip map, response ids, check-session and run mode vary as everywhere.  These ECUs answer every request
    (real event loop: the database works from a thread of its own)."""
    want_deep = rng.random() < 0.65
    best = None
    for _ in range(16):
        case = gen_server_case(rng, silence_ok=False)
        if "optional_sessions" not in case["rp"] or case["rp"]["p_session"] < 0.5:
            case["rp"]["p_session"] = rng.choice([0.8, 1.0])
            case["rp"].setdefault("optional_sessions", [2, 3, 4, 0x40, 0x60])
        srv = make_server(case)
        trans = transitions_of(srv)
        paths = stored_paths(trans)
        deep = sorted(x for x, way in paths.items() if len(way) > 1)
        if len(paths) < 3:
            continue
        if best is None or (deep and not best[2]):
            best = (case, trans, deep)
        if deep or not want_deep:
            break
    assert best is not None, "no ECU model with two non-default sessions in 16 draws"
    case, trans, deep = best
    srv = make_server(case)
    have = sorted(stored_paths(trans))
    sessions: list[int] = []
    for _ in range(40):
        sessions = rng.sample(have, rng.randint(2, min(4, len(have))))
        if deep and want_deep and not set(deep) & set(sessions):
            sessions[rng.randrange(len(sessions))] = rng.choice(deep)
        if rng.random() < 0.3:
            extra = rng.choice([rng.randint(2, 0x7E), 0x7F])  # a session the ECU does not have at all (no stored path either)
            if extra not in trans:
                sessions.insert(rng.randint(0, len(sessions)), extra)
        need = needs_path(trans, sessions)
        if need and (not (deep and want_deep) or any(s in deep for s, _ in need)):
            break
    skip: dict[int, list[int] | None] = {}
    if rng.random() < 0.4:
        t = rng.choice(sessions)
        a = rng.choice([0, 0x10, 0x22, 0x27, 0x3E, 0xBF, rng.randrange(256)])
        skip[t] = list(range(a, min(256, a + rng.choice([1, 4, 16, 64]))))
    check = rng.random() < 0.3
    history = history or rng.choice(["sessions-scan", "written", "written", "written"])
    depth = max(len(w) for w in stored_paths(trans).values()) + 1
    case.update({
        "kind": "services", "sessions_opt": list(sessions), "sessions": list(sessions), "check_session": check,
        "scan_response_ids": rng.random() < 0.25, "reset": None, "skip": {str(k): v for k, v in skip.items()},
        "skip_expr": render_skip(rng, skip) if skip else [], "full": rng.random() < 0.3, "dropouts": [], "mute": {},
        "session_read": {}, "dsc_fault": {},
        "db": {"history": history, "depth": max(2, min(5, depth + rng.choice([0, 0, 1])))},
    })
    case["garble"] = gen_garble(rng, srv, {}) if rng.random() < 0.2 else {}
    return case


async def leave_history(case: dict[str, Any], path: Any) -> None:
    """the earlier run against the same target that left the database behind:
    'sessions-scan'  gallia's own session scan (scan_run, every request, and the session_transition rows it finds) against the same ECU
    'written'        a scan run whose session_transition rows are what such a scan records for this ECU: one row per session the ECU
                     can be brought into, holding the sessions to enter before it, from the default session on"""
    from vf import dbharness as dh
    from vf import ecu_models as em

    srv = make_server(case)
    if case["db"]["history"] == "sessions-scan":
        from gallia.commands.scan.uds.sessions import SessionsScanner

        tr = em.InProcessTransport(srv, budget=200_000)
        sc = em.make_scanner(SessionsScanner, depth=case["db"]["depth"], db=path, timeout=DB_TIMEOUT)
        out = await em.run_scanner(sc, tr, False, db=True)
        if out["error"] is not None or out["exit"]:
            raise RuntimeError(f"the earlier session scan did not complete: {out}")  # harness error (the session scan itself is C09)
        return
    h = await dh.open_handler(path, em.TARGET, script="vf.c10.history")
    try:
        for dest, way in sorted(stored_paths(transitions_of(srv)).items()):
            await dh.guarded(h.insert_session_transition(dest, list(way)), "insert_session_transition")
    except BaseException:
        await dh.force_close(h)
        raise
    await dh.close_handler(h)


async def db_history(case: dict[str, Any], path: Any) -> dict[str, Any]:
    from vf import ecu_models as em

    await leave_history(case, path)
    stored = em.read_session_transitions(path)
    out = await scan_services(case, db=path)
    out["stored"] = [(dest, steps) for _, dest, steps in stored]
    return out


def gen_dsc_fault(rng: Any, srv: Any) -> tuple[list[int], dict[str, str]] | None:
    """an explicit session list with a session in its MIDDLE whose DiagnosticSessionControl request the ECU never answers, or answers
    with a reply that is no answer to it (the client's session change raises), while the sessions after it can be entered in the given
    order: [first, FAULTY.., (1,) later]; sessions of the first level are entered from the default session"""
    trans = transitions_of(srv)
    lvl1 = [x for x in trans.get(1, []) if x != 1]
    first = rng.choice(lvl1 + [1])
    later: list[int] = []
    if first != 1:
        later.append(1)  # every session of the model leads back to the default session
    rest = [x for x in lvl1 if x != first]
    if rest:
        later.append(rng.choice(rest))
    if not later:
        return None
    if len(later) == 2 and later[1] in trans.get(first, []) and rng.random() < 0.5:
        later = later[1:]  # directly enterable from the session scanned before the faulty one
    used = {first, *later}
    pool = [x for x in sorted(trans) if x not in used] + [x for x in (rng.randint(2, 0x7E), rng.randint(2, 0x7E)) if x not in used]
    faulty = list(dict.fromkeys(rng.sample(pool, min(len(pool), rng.choice([1, 1, 2])))))
    return [first] + faulty + later, {str(x): rng.choice(["silent", "silent", "pending", "pending", *GARBLE_KINDS]) for x in faulty}


def gen_garble(rng: Any, srv: Any, mute: dict[str, dict[str, int]]) -> dict[str, dict[str, list[Any]]]:
    """per session a few service ids (mostly implemented ones) whose all-zero requests of some of the shorter probe lengths are
    answered with a reply that is no answer of that service; the longer lengths are answered by the unchanged model"""
    out: dict[str, dict[str, list[Any]]] = {}
    for sess, sids in sorted(model_of(srv).items()):
        if rng.random() < 0.2:
            continue
        muted = {int(x) for x in (mute.get(str(sess)) or {})}
        impl = sorted(x for x in sids if x not in MUTE_EXEMPT and x not in muted and x != 0x3F)
        chosen = set(rng.sample(impl, min(len(impl), rng.randint(1, 6)))) if impl else set()
        # (not 0x3F: its positive response id would be 0x7F, a truncated negative response is indistinguishable from a positive one)
        chosen.update(x for x in (rng.randrange(256) for _ in range(rng.randint(0, 2))) if x not in MUTE_EXEMPT and x not in muted and x != 0x3F)
        if chosen:
            out[str(sess)] = {str(sid): [rng.choice(GARBLE_KINDS), rng.choice([[1], [1], [1, 2], [1, 2, 3], [2], [1, 3]])] for sid in sorted(chosen)}
    return out


MUTE_EXEMPT = (0x10, 0x11, 0x22, 0x3E)  # session handling of the scanner itself: session change, reset, session read, tester present


def gen_mute(rng: Any, srv: Any) -> dict[str, dict[str, int]]:
    """ECU that silently discards under-length requests: per session a random subset of the implemented services gets a minimum
    payload length (2, 3 or 5 bytes after the service id); shorter requests get no reply at all, longer ones are answered normally"""
    mute: dict[str, dict[str, int]] = {}
    for s, sids in sorted(model_of(srv).items()):
        cand = sorted(x for x in sids if x not in MUTE_EXEMPT)
        if not cand or rng.random() < 0.15:
            continue
        k = max(1, round(len(cand) * rng.uniform(0.2, 0.8)))
        mute[str(s)] = {str(sid): rng.choice([2, 3, 5]) for sid in rng.sample(cand, min(k, len(cand)))}
    return mute


def mute_map(case: dict[str, Any]) -> dict[tuple[int, int], int]:
    return {(int(s), int(sid)): int(m) for s, d in (case.get("mute") or {}).items() for sid, m in d.items()}


async def scan_services(case: dict[str, Any], db: Any = None) -> dict[str, Any]:
    """db = path of the sqlite file the scan is given with --db (real event loop only); None = no database (virtual time)"""
    from gallia.commands.scan.uds.services import ServicesScanner
    from vf import ecu_models as em

    srv = make_server(case)
    s3 = case.get("s3") or None
    kw: dict[str, Any] = {"budget": 200_000, "dropouts": set(case["dropouts"]), "mute": mute_map(case),
                          "drop_filter": lambda q: len(q) >= 2 and not any(q[1:]) and q[0] != 0x3E}
    tr = s3_transport_class()(srv, s3["timeout"], **kw) if s3 else em.InProcessTransport(srv, **kw)
    faulty_ecu(case, srv, tr.st)
    pending_chain_ecu(case, tr)
    cap = em.fresh_capture()
    opts: dict[str, Any] = {"sessions": case["sessions_opt"], "check_session": case["check_session"], "scan_response_ids": case["scan_response_ids"],
                            "reset": case["reset"], "skip": list(case["skip_expr"]) if case["skip_expr"] else {}}
    if s3:
        opts.update({"timeout": s3["scanner_timeout"], "tester_present_interval": s3["tp_interval"]})
    if db is not None:
        opts.update({"db": db, "timeout": DB_TIMEOUT})
    sc = em.make_scanner(ServicesScanner, **opts)
    out = await em.run_scanner(sc, tr, case["full"], db=db is not None)
    out.update({"result": list(sc.result), "log": tr.log, "lost": set(tr.lost), "records": list(cap.results), "problems": list(cap.problems),
                "cfg_sessions": sc.config.sessions, "cfg_skip": sc.config.skip, "model": model_of(srv), "n_dropouts": tr.n_dropouts,
                "pending_sent": list(tr.pending_sent)})
    if s3:
        out.update({"times": tr.times, "processed": tr.processed, "s3_expired": list(tr.expired)})
    return out


async def probe_fresh(case: dict[str, Any], session: int, sid: int, lengths: list[int]) -> dict[int, str]:
    """what a fresh copy of the ECU model, put into `session`, answers to the zero probes of `sid` with the given payload lengths"""
    from gallia.services.uds.server import UDSServerTransport
    from vf import ecu_models as em

    mute = mute_map(case)
    out: dict[int, str] = {}
    for n in lengths:
        srv = make_server(case)
        srv.state.session = session
        q = bytes([sid]) + bytes(n)
        need = mute.get((session, sid))
        if need is not None and n < need:
            out[n] = "silence"
            continue
        reply, _ = await faulty_ecu(case, srv, UDSServerTransport(srv, em.TargetURI(em.TARGET))).handle_request(q)
        out[n] = reply_class(q, reply)
    return out


def is_zero_probe(q: bytes) -> bool:
    return len(q) - 1 in LENGTHS and not any(q[1:])


def check_services(ctx: Any, case: dict[str, Any]) -> None:
    from vf import ecu_models as em

    global _db_seq

    skip: dict[int, list[int] | None] = {int(k): v for k, v in case["skip"].items()}
    sessions = list(case["sessions"])
    given = case["sessions_opt"] is not None
    ident = ("services", case["server_seed"], sorted(case["rp"].items()), case["behavior_off"], case["sessions_opt"], case["check_session"],
             case["scan_response_ids"], case["reset"], case["skip_expr"], case["full"], case["dropouts"], sorted(mute_map(case).items()),
             sorted((case.get("session_read") or {}).items()), sorted((case.get("dsc_fault") or {}).items()), repr(sorted((case.get("garble") or {}).items())),
             repr(sorted((case.get("s3") or {}).items())), case.get("pending_interval"), repr(sorted((case.get("db") or {}).items())))
    w: dict[str, Any] = {k: case[k] for k in ("kind", "server_seed", "rp", "behavior_off", "sessions_opt", "sessions", "check_session", "scan_response_ids",
                                            "reset", "skip", "skip_expr", "full", "dropouts")}
    w["mute"] = case.get("mute") or {}
    w["session_read"] = case.get("session_read") or {}
    w["dsc_fault"] = case.get("dsc_fault") or {}
    w["garble"] = case.get("garble") or {}
    if case.get("pending_interval") is not None:
        w["pending_interval"] = case["pending_interval"]
    s3 = case.get("s3") or None
    if s3:
        w["s3"] = s3
    mute = mute_map(case)
    if mute:
        ctx.reach("services.min-length-ecu")
    db = case.get("db") or None
    if db:
        # the scan is given a database an earlier run left behind (real event loop, sqlite file in the scratch directory)
        from vf import dbharness as dh

        w["db"] = db
        _db_seq += 1
        path = ctx.mkscratch() / f"c10-{_db_seq}.sqlite"
        em.remove_db(path)
        try:
            try:
                out = em.run_real(db_history(case, path), DB_WALL)
            except TimeoutError:
                # a real-time watchdog on a loaded machine proves nothing by firing once: the case is repeated, only a repeated stall is reported
                dh.stop_leaked_connections()
                ctx.reach("services.db.repeated-after-watchdog")
                em.remove_db(path)
                out = em.run_real(db_history(case, path), DB_WALL)
        except TimeoutError:
            dh.stop_leaked_connections()
            ctx.case(ident)
            ctx.violation("services/db/no-termination/wall-clock", f"an earlier run plus a service scan on its database (seconds of work) did not finish within {DB_WALL:.0f} s, twice", w)
            return
        finally:
            em.remove_db(path)
        w["stored_session_transitions"] = out["stored"][:12]
    else:
        try:
            out = vtime.run(scan_services(case))
        except vtime.Deadlock:
            ctx.case(ident)
            ctx.violation("services/blocks-forever", "the scan can never complete (nothing scheduled, nothing readable)", w)
            return
    log, model = out["log"], out["model"]
    ctx.trace([(b, q, r) for b, q, r, _ in log])
    ctx.reach("services.scans")
    if s3:
        # ECU with an S3 timer, scanned through run() with the cyclic tester present on
        ctx.reach("services.s3-ecu")
        if out["s3_expired"]:
            ctx.reach("services.s3-ecu.session-expired")  # (informative; what follows from it is judged per probe below)
            w["s3_expired"] = [{"at_request": i, "session_lost": s, "idle_s": idle, "request": log[i][1] if i < len(log) else None} for i, s, idle in out["s3_expired"][:6]]
    w["exit"] = out["exit"]
    w["requests"] = len(log)
    w["errors_logged"] = out["problems"][:4]
    if out["pending_sent"]:
        w["response_pending_replies_read_per_chain"] = out["pending_sent"][:6]
    if out["error"] is not None:
        ctx.case(ident)
        ctx.violation(f"services/raises/{type(out['error']).__name__}", f"the scan ends with an exception: {out['error']!r:.200}", {**w, "log_tail": em.hexlog(log, 12)})
        return
    # harness guard: the options mean what the generator meant (grammar itself is C20)
    if given and list(out["cfg_sessions"]) != sessions:
        ctx.violation("services/sessions-option-parsed-differently", "the --sessions expression does not denote the generated list", {**w, "parsed": out["cfg_sessions"]})
        return
    if {int(k): v for k, v in out["cfg_skip"].items()} != skip:
        # named here; what the scan then leaves out / probes is still judged below against the map the expression denotes
        ctx.violation("services/skip-option-parsed-differently", "the --skip expression does not denote the generated map", {**w, "parsed": out["cfg_skip"]})
    later_additions = skip_later_additions(case["skip_expr"], skip) if case["skip_expr"] else {}
    if any(len(sess) > 1 and ids is not None for sess, ids in skip_elements(case["skip_expr"])):
        ctx.reach("services.skip-multi-session-element")

    result: dict[int, set[int]] = {}
    for s, sid in out["result"]:
        result.setdefault(s, set()).add(sid)
    claimed = [int(m.group(1), 16) for _, msg in out["records"] if (m := re.match(r"^findings in session 0x([0-9A-Fa-f]{2}):$", msg))]
    wins, asked, outside = split_windows(log, out["lost"], given, walks=bool(db), listed=set(sessions))
    any_found = False
    if db:
        ctx.reach("services.db.scans")
        ctx.reach(f"services.db.history.{db['history']}")
        for wd in wins:
            if wd.attempt is None:
                continue
            if wd.attempt == wd.session:
                # refused from where the ECU was, then entered after the sessions of the stored path had been entered one by one
                kind = "through-intermediate-session" if any(x != 1 for x in wd.steps) else "through-default-session"
                ctx.reach("services.db.session-entered-via-stored-path")
                ctx.reach(f"services.db.session-entered-via-stored-path.{kind}")
                if any(is_zero_probe(q) and before == wd.session for _, before, q, _, _ in wd.entries):
                    ctx.reach("services.db.session-scanned-after-stored-path")
            elif wd.attempt in claimed and wd.attempt not in [x.session for x in wins]:
                # the change to a listed session was refused, other sessions were entered instead (the way there), the session itself
                # never: what is probed from here on reaches the ECU in the session entered last, and is reported for the refused one
                first = wd.entries[0][0] if wd.entries else len(log)
                n_probes = sum(1 for _, before, q, _, _ in wd.entries if is_zero_probe(q) and before != wd.attempt)
                ctx.violation("services/probe-in-wrong-session/stored-path-not-completed", "findings are reported for a session whose change request the ECU refused; after it the "
                              "scanner entered other sessions (stored session transitions) but never the session itself, and probed in the session it ended up in",
                              {**w, "session": wd.attempt, "ecu_session": wd.session, "sessions_entered_on_the_way": wd.steps, "probes_in_other_session": n_probes,
                               "log": em.hexlog(log[max(0, first - 8) : first + 3])})

    def expected_sids(s: int | None) -> list[int]:
        e = []
        for sid in range(256):
            if sid & 0x40 and not case["scan_response_ids"]:
                continue
            if s is not None and s in skip and (skip[s] is None or sid in skip[s]):
                continue
            e.append(sid)
        return e

    if case["scan_response_ids"]:
        ctx.reach("services.response-ids")
    if case["check_session"] and given:
        ctx.reach("services.check-session")
    if case["reset"] is not None and given:
        ctx.reach("services.reset")
    if case["full"]:
        ctx.reach("services.full-run")
    if not given:
        ctx.reach("services.sessions-none")

    # ---- sessions: requested / entered / claimed
    if given:
        want_sessions = [s for s in sessions if not (s in skip and skip[s] is None)]
        asked_s = [s for s, _ in asked]
        for s in want_sessions:
            if s not in asked_s:
                # a later session is legitimately not requested only if the scan ended early (it does not)
                ctx.violation("services/session-never-requested", "a requested session was never requested from the ECU", {**w, "session": s})
        for s in asked_s:
            if s not in want_sessions:
                kind = "skipped-session" if s in skip and skip[s] is None else "not-in-list"
                ctx.violation(f"services/session-requested/{kind}", "DiagnosticSessionControl was sent for a session that is not to be scanned", {**w, "session": s})
        if any(not ok for _, ok in asked):
            ctx.reach("services.session-refused")
        # a session change that got no answer / no answer to it (the client raises), followed by a later session of the list that was entered
        dsc_replies = [(q[1] & 0x7F, r) for _, q, r, _ in log if len(q) == 2 and q[0] == 0x10 and q[1] != 0]
        seen_raises = seen_pending = False
        for j, (s, r) in enumerate(dsc_replies):
            cls = reply_class(bytes([0x10, s]), r)
            if cls in ("silence", "garbled", "nrc-78") and s in sessions and not (seen_pending if cls == "nrc-78" else seen_raises):
                later_entered = [x for x, r2 in dsc_replies[j + 1 :] if x in sessions[sessions.index(s) + 1 :] and r2 is not None and r2[0] == 0x50]
                if later_entered and cls == "nrc-78":
                    # the ECU went on answering responsePending for as long as the tester read (the change was never completed);
                    # sessions scanned before it / a later session of the list entered after it
                    seen_pending = True
                    ctx.reach("services.session-change-pending-for-ever.later-session-entered")
                    ctx.reach(f"services.session-change-pending-for-ever.later-session-entered.{'back-to-back' if (case.get('pending_interval') or 0) < 0.1 else 'spaced'}")
                    if any(ok and x in sessions[: sessions.index(s)] for x, ok in asked):
                        ctx.reach("services.session-change-pending-for-ever.earlier-session-scanned")
                elif later_entered:
                    seen_raises = True
                    ctx.reach("services.session-change-raises.later-session-entered")
                    ctx.reach(f"services.session-change-raises.later-session-entered.{cls}")
        if any(s in skip and skip[s] is None for s in sessions):
            ctx.reach("services.skip-whole-session")
        if any(s in skip and skip[s] == [] for s in sessions):
            ctx.reach("services.skip-entry-without-ids")
            if any(skip.get(wd.session) == [] for wd in wins):
                ctx.reach("services.skip-entry-without-ids.session-scanned")
        entered = [wd.session for wd in wins]
        for s in entered:
            if s not in claimed:
                ctx.violation("services/entered-session-not-reported", "the ECU entered a requested session but no findings are reported for it", {**w, "session": s})
        for s in claimed:
            if s not in entered:
                ctx.violation("services/claims-session-never-entered", "findings are reported for a session the ECU never entered on request", {**w, "session": s})
    for s in result:
        if (s not in [wd.session for wd in wins]) if given else (s != 0):
            ctx.violation("services/result-for-unscanned-session", "ServicesScanner.result holds entries for a session that was not scanned", {**w, "session": s})

    # ---- per window
    for wd in wins:
        S = wd.session
        real_S = S if S is not None else 1  # without --sessions the scan claims "the current session": the ECU starts in session 1
        key_S = S if S is not None else 0
        ctx.reach("services.windows")
        if real_S != 1:
            ctx.reach("services.non-default-session-scanned")
        E = expected_sids(S)
        Eset = set(E)
        if S is not None and S in skip and skip[S] is not None:
            ctx.reach("services.skip-map-used")
        if S is not None and later_additions.get(S, set()) & Eset:
            # S was introduced by a multi-session element; a later element gives a session named with it ids that S does not skip
            ctx.reach("services.skip-multi-session-element-then-additions.scanned")
        probes: dict[int, list[tuple[int, bytes, bytes | None, bool, bool]]] = {}
        dirty = was_dirty = False
        reentered_after_dropout = unreadable_after_reentry = False
        tainted: set[int] = set()
        ww = {**w, "session": S}
        if s3 and real_S != 1 and wd.entries:
            # reach only: a non-default session of an S3 ECU; entered after an ECUReset the ECU carried out (the scanner then waited for the
            # ECU, which stops and restarts its cyclic tester present); a stretch longer than S3 in which nothing but TesterPresent reached
            # the diagnostic server and after which the ECU is still in the scanned session (only the cyclic tester present kept it alive)
            first = wd.entries[0][0]
            after_wait = any(len(q) == 2 and q[0] == 0x11 and r is not None and r[0] == 0x51 for _, q, r, _ in log[:first])
            ctx.reach("services.s3-ecu.non-default-session-scanned")
            if after_wait:
                ctx.reach("services.s3-ecu.session-entered-after-reset-and-wait")
            times, processed = out["times"], out["processed"]
            last_other, tp_between, kept = times[first], False, False
            for i, before, q, r, _ in wd.entries:
                if i not in processed:
                    continue
                if q == b"\x3e\x00":
                    tp_between = True
                    continue
                if before == real_S and tp_between and times[i] - last_other > s3["timeout"]:
                    kept = True
                last_other, tp_between = times[i], False
            if kept:
                ctx.reach("services.s3-ecu.kept-alive-by-tester-present-only")
                if after_wait:
                    ctx.reach("services.s3-ecu.kept-alive-by-tester-present-only.after-reset-and-wait")
        for i, before, q, r, delivered in wd.entries:
            if q == b"":
                dirty = was_dirty = True
                continue
            if q == b"\x22\xf1\x86":
                if r is not None and r[0] == 0x62:
                    dirty = False  # never a probe here: the scanner has been told the session, it must re-enter S or give up
                elif before == real_S:
                    ctx.reach("services.session-read-unanswered-in-scanned-session")
                    if reentered_after_dropout and not unreadable_after_reentry:
                        unreadable_after_reentry = True
                        ctx.reach("services.dropout-recovered.session-unreadable")
                        ctx.reach(f"services.dropout-recovered.session-unreadable.{reply_class(q, r)}")
                continue
            if len(q) == 2 and q[0] == 0x10 and q[1] == S:
                if r is not None and r[0] == 0x50:
                    dirty = False  # the scanner noticed the wrong session and re-entered S
                    reentered_after_dropout = reentered_after_dropout or was_dirty
                continue
            if is_zero_probe(q):
                sid = q[0]
                if sid == 0x3E and case["full"] and 0x3E not in Eset:
                    continue  # cyclic tester present of the real setup(), byte-identical to a probe of service 0x3E
                if before != real_S:
                    if sid == 0x3E and (case["full"] or case["reset"] is not None):
                        continue  # cyclic tester present / wait_for_ecu ping, not a probe
                    check_due = given and case["check_session"] and sid not in probes and session_read_answerable(case, model, before)
                    if check_due:
                        # the scanner reads the session before the first probe of every service id; the ECU can answer that read here
                        ctx.violation("services/probe-in-wrong-session/session-check-due", "with check-session on, the first probe of a service id was sent while the ECU was in "
                                      "another session (the session read is answerable there)", {**ww, "sid": sid, "ecu_session": before, "log": em.hexlog(log[max(0, i - 6) : i + 1])})
                        tainted.add(sid)
                    elif dirty:
                        tainted.add(sid)
                    else:
                        ctx.violation("services/probe-in-wrong-session", "a service id was probed while the ECU was in another session than the one the scanner claims",
                                      {**ww, "sid": sid, "ecu_session": before, "log": em.hexlog(log[max(0, i - 6) : i + 1])})
                        tainted.add(sid)
                probes.setdefault(sid, []).append((before, q, r, delivered, before == real_S))
                continue
            ctx.violation("services/unexpected-request", "a request that is neither a probe nor session handling reached the ECU during the scan", {**ww, "request": q})
        if was_dirty and not dirty and wd.recovered:
            ctx.reach("services.dropout-recovered")
        aborted = wd.recover_refused
        for sid in E:
            ps = probes.get(sid)
            if not ps:
                if not aborted:
                    ctx.violation("services/sid-not-probed", "a service id that is to be scanned was never sent to the ECU in this session", {**ww, "sid": sid})
                continue
            if len(ps[0][1]) != 2:
                ctx.violation("services/first-probe-length", "the first probe of a service id does not have payload length 1", {**ww, "sid": sid, "request": ps[0][1]})
        for sid in sorted(set(probes) - Eset):
            kind = "skipped-sid" if (S is not None and S in skip) and (skip[S] is None or sid in skip[S]) else ("response-id" if sid & 0x40 else "other")
            ctx.violation(f"services/probes-excluded-sid/{kind}", "a service id that is excluded (skip map / response ids) was sent to the ECU", {**ww, "sid": sid})
        found_gt: dict[int, str] = {}
        for sid, ps in probes.items():
            for before, q, r, delivered, _ in ps:
                cls = reply_class(q, r, delivered)
                ctx.reach(f"services.reply.{cls if cls in NO_FINDING else 'meaningful'}")
                if cls not in NO_FINDING and sid not in found_gt:
                    found_gt[sid] = cls
                    if len(q) > 2:
                        ctx.reach("services.found-at-length>1")
        got = result.get(key_S, set())
        if found_gt:
            any_found = True
        ctx.reach("services.found", len(found_gt))
        # every probe length is tried until the ECU gives a terminal answer (not-supported ends the probing of a service id, a
        # meaningful answer is the finding); silence and length errors are no reason to give up on the longer probes
        for sid, ps in probes.items():
            if sid not in Eset or aborted:
                continue
            classes = [reply_class(p[1], p[2], p[3]) for p in ps]
            if "silence" in classes:
                ctx.reach("services.sid-with-silent-probe")
                if s3 and real_S != 1 and len(classes) >= len(LENGTHS) and all(c == "silence" for c in classes) and mute.get((real_S, sid), 0) >= DEAF:
                    ctx.reach("services.s3-ecu.sid-silent-for-all-lengths")
                k = next((j for j, c in enumerate(classes) if c not in NO_FINDING), None)
                if k is not None and "silence" in classes[:k]:
                    ctx.reach("services.found-after-silence")
                    if mute.get((real_S, sid)) is not None:
                        ctx.reach("services.found-after-silence.min-length-ecu")
            if "garbled" in classes:
                ctx.reach("services.sid-with-garbled-probe")
                k = next((j for j, c in enumerate(classes) if c not in NO_FINDING), None)
                if k is not None and "garbled" in classes[:k]:
                    ctx.reach("services.found-after-garbled")
                    ctx.reach(f"services.found-after-garbled.{'malformed' if any(len(p[2] or b'') == 2 and (p[2] or b'x')[0] == 0x7F for p in ps[:k]) else 'mismatch'}")
            if any(c not in NON_TERMINAL for c in classes):
                continue
            tried = {len(p[1]) - 1 for p in ps}
            missing = [n for n in LENGTHS if n not in tried]
            if not missing:
                continue
            would = vtime.run(probe_fresh(case, real_S, sid, missing))
            wp = {**ww, "sid": sid, "probes": [(p[1], p[2]) for p in ps], "lengths_never_sent": missing, "fresh_ecu_answers": would}
            if any(c not in NO_FINDING for c in would.values()):
                ctx.violation("services/missed-service/answers-only-longer-probe", "the probing of a service id was given up after an unanswered / length-error probe; the ECU answers a longer "
                              "probe length of that service with something other than not-supported / length error, the service is not reported", wp)
            else:
                ctx.violation(f"services/probe-lengths-not-exhausted/after-{classes[-1]}", "the probing of a service id was given up after an unanswered / "
                              "length-error probe although further probe lengths remain", wp)
        for sid in sorted(set(found_gt) - got):
            ctx.violation(f"services/false-negative/{found_gt[sid] if found_gt[sid].startswith('nrc') else 'positive'}",
                          "the ECU answered a probe with something other than not-supported / length error, the service is not reported", {**ww, "sid": sid, "probes": [(p[1], p[2]) for p in probes[sid]]})
        for sid in sorted(got - set(found_gt)):
            ps = probes.get(sid, [])
            classes = [reply_class(p[1], p[2], p[3]) for p in ps]
            kind = "never-probed" if not ps else next((c for c in ("nrc-13", "nrc-7f", "nrc-11", "silence", "garbled") if c in classes), "other")
            ctx.violation(f"services/false-positive/{kind}", "a service is reported although every probe was answered with not-supported / length error / silence",
                          {**ww, "sid": sid, "probes": [(p[1], p[2]) for p in ps]})
        for sid in sorted(got - model.get(real_S, set()) - tainted):
            ctx.violation("services/reports-unimplemented-service", "a service the ECU model does not implement in this session is reported", {**ww, "sid": sid})
    ctx.case(ident, nontrivial=any_found)


# ---- identifier scan -----------------------------------------------------------------------------------------------
def gen_ident_case(rng: Any) -> dict[str, Any]:
    service = rng.choice(IDENT_SERVICES)
    check = rng.choice([None, None, 1, 1, 7, 16, 100])
    dropouts = check is not None and rng.random() < 0.35
    need = [service] if rng.random() < 0.7 else []
    if dropouts:
        need.append(0x22)
    case = gen_server_case(rng, need=need or None, silence_ok=False)
    srv = make_server(case)
    sessions_opt, sessions = pick_sessions(rng, srv)
    case["session_read"] = {}
    if check is not None and sessions and service != 0x22 and rng.random() < (0.6 if dropouts else 0.15):
        # (scans of service 0x22 keep the readable ECU: there the probe of 0xF186 and the session read are one and the same request)
        case["session_read"] = gen_session_read(rng, srv)
    size = rng.choice([64, 100, 256, 300, 1024])
    where = rng.choice(["0000", "f186", "ffff", "7f", "mid"])
    if where == "0000":
        start, end = 0, size - 1
    elif where == "ffff":
        start, end = 0x10000 - size, 0xFFFF
    elif where == "f186":
        k = rng.randint(0, size - 1)
        start = max(0, 0xF186 - k)
        end = min(0xFFFF, start + size - 1)
        if rng.random() < 0.3:
            start, end = (0xF186, min(0xFFFF, 0xF186 + size - 1)) if rng.random() < 0.5 else (0xF186 - size + 1, 0xF186)
    elif where == "7f":
        start, end = rng.choice([(0, 0x7F), (0x40, 0x7F + size), (0x7F, 0x7F + size), (0, 0x7E), (0x70, 0x80)])
    else:
        start = rng.randint(0, 0xFFFF - size)
        end = start + size - 1
    if service == 0x27 and rng.random() < 0.7:
        start, end = rng.choice([(0, 0x7F), (0, 0xFF), (1, 0x7E), (0x60, 0x1FF), (0, 0xFFFF), (0x7F, 0x80), (0x10, 0x50)])
    payload = None
    if service == 0x2E:
        payload = rng.choice(["00", "00", "ff", "0000", "c0ffee", None])
    elif rng.random() < 0.2:
        payload = rng.choice(["00", "ffff", "0102"])
    skip: dict[int, list[int] | None] = {}
    if rng.random() < 0.45:
        cand = sorted(set(sessions) | {1})
        for s in rng.sample(cand, rng.randint(1, min(2, len(cand)))):
            if rng.random() < 0.15:
                skip[s] = None
            else:
                ids: set[int] = set()
                for _ in range(rng.randint(1, 3)):
                    a = rng.choice([start, end, max(start, end - 3), (start + end) // 2, 0xF186, rng.randint(start, max(start, end))])
                    ids.update(range(a, min(0x10000, a + rng.choice([1, 1, 2, 8, 40]))))
                skip[s] = sorted(ids)
    add_entry_without_ids(skip, sessions)
    group = None
    if rng.random() < 0.3:
        def some_dids() -> set[int]:
            a = rng.choice([start, end, max(start, end - 3), (start + end) // 2, rng.randint(start, max(start, end)), rng.randint(start, max(start, end))])
            return set(range(a, min(0x10000, a + rng.choice([1, 1, 2, 8, 40]))))
        group = plant_skip_group(rng, skip, sorted(set(sessions) | {1, 2, 3}), list(sessions), some_dids)
    n_sessions = max(1, len(sessions))
    subs = 3 if service == 0x31 else 1
    # identifiers the ECU never answers (every retransmission is lost on it), identifiers answered with a reply that is no answer of
    # the scanned service; never the session identifier itself, a few of them at the very start of the range
    hi = min(end, 0x7F) if service == 0x27 else end
    span = [x for x in {start, start + 1, *(rng.randint(start, max(start, hi)) for _ in range(6))} if start <= x <= hi and x != 0xF186]
    rng.shuffle(span)
    n_deaf = rng.randint(1, 3) if rng.random() < 0.25 else 0
    n_garbled = rng.randint(1, 3) if rng.random() < 0.25 else 0
    case["deaf_ids"] = sorted(span[:n_deaf])
    case["garbled_ids"] = {str(x): rng.choice(GARBLE_KINDS) for x in sorted(span[n_deaf : n_deaf + n_garbled])}
    case.update({
        "kind": "identifiers", "service": service, "sessions_opt": sessions_opt, "sessions": sessions, "start": start, "end": end, "payload": payload,
        "check_session": check, "skip": {str(k): v for k, v in skip.items()}, "skip_expr": render_skip(rng, skip, group) if skip else [],
        "skip_not_supported": rng.random() < 0.2, "full": (not dropouts) and rng.random() < 0.25,
        "dropouts": sorted(rng.sample(range(1, max(6, (end - start + 1) * subs)), rng.randint(1, 3))) if dropouts and sessions else [],
        "losses": sorted(rng.sample(range(1, max(6, (end - start + 1) * subs * n_sessions)), rng.randint(1, 4))) if rng.random() < 0.25 else [],
    })
    return case


async def scan_identifiers(case: dict[str, Any]) -> dict[str, Any]:
    from gallia.commands.scan.uds.identifiers import ScanIdentifiers
    from vf import ecu_models as em

    srv = make_server(case)
    service = case["service"]
    tr = em.InProcessTransport(srv, budget=400_000, dropouts=set(case["dropouts"]), losses=set(case["losses"]),
                               drop_filter=lambda q: q[0] == service and q != b"\x22\xf1\x86")
    faulty_ecu(case, srv, tr.st)
    cap = em.fresh_capture()
    opts: dict[str, Any] = {"sessions": case["sessions_opt"], "start": case["start"], "end": case["end"], "service": service,
                            "payload": case["payload"], "check_session": case["check_session"], "skip": list(case["skip_expr"]) if case["skip_expr"] else {},
                            "skip_not_supported": case["skip_not_supported"]}
    sc = em.make_scanner(ScanIdentifiers, **opts)
    out = await em.run_scanner(sc, tr, case["full"])
    out.update({"log": tr.log, "lost": set(tr.lost), "records": list(cap.results), "problems": list(cap.problems),
                "cfg_sessions": sc.config.sessions, "cfg_skip": sc.config.skip, "cfg_service": int(sc.config.service), "cfg_payload": sc.config.payload,
                "model": model_of(srv)})
    return out


def parse_ident_records(records: list[tuple[str, str]], given: bool) -> list[dict[str, Any]]:
    """[{session, positive, abnormal, timeouts}] in the order the scanner reported them"""
    out: list[dict[str, Any]] = []
    cur: dict[str, Any] | None = None if given else {"session": None}
    if cur is not None:
        out.append(cur)
    for name, msg in records:
        if not name.endswith("identifiers"):
            continue
        if m := re.match(r"^Starting scan in session: (\S+)$", msg):
            cur = {"session": int(m.group(1), 16)}
            out.append(cur)
        elif cur is not None and (m := re.match(r"^(Positive replies|Abnormal replies|Timeouts): (\d+)$", msg)):
            cur[{"Positive replies": "positive", "Abnormal replies": "abnormal", "Timeouts": "timeouts"}[m.group(1)]] = int(m.group(2))
    return out


def check_identifiers(ctx: Any, case: dict[str, Any]) -> None:
    from vf import ecu_models as em

    service = case["service"]
    skip: dict[int, list[int] | None] = {int(k): v for k, v in case["skip"].items()}
    sessions = list(case["sessions"])
    given = case["sessions_opt"] is not None
    payload = bytes.fromhex(case["payload"]) if case["payload"] else b""
    start, end = case["start"], case["end"]
    end_eff = min(end, 0x7F) if service == 0x27 else end
    subs = [1, 2, 3] if service == 0x31 else [None]
    n = case["check_session"]
    ambiguous = service == 0x22 and not payload and n is not None and given
    keys = ("kind", "server_seed", "rp", "behavior_off", "service", "sessions_opt", "sessions", "start", "end", "payload", "check_session", "skip", "skip_expr",
            "skip_not_supported", "full", "dropouts", "losses")
    ident = tuple(repr(case[k]) for k in keys) + (repr(sorted((case.get("session_read") or {}).items())), repr(case.get("deaf_ids") or []),
                                                   repr(sorted((case.get("garbled_ids") or {}).items())))
    w: dict[str, Any] = {k: case[k] for k in keys}
    w["session_read"] = case.get("session_read") or {}
    w["deaf_ids"] = case.get("deaf_ids") or []
    w["garbled_ids"] = case.get("garbled_ids") or {}
    svc = f"service-{service:02x}"
    try:
        out = vtime.run(scan_identifiers(case))
    except vtime.Deadlock:
        ctx.case(ident)
        ctx.violation("identifiers/blocks-forever", "the scan can never complete (nothing scheduled, nothing readable)", w)
        return
    log = out["log"]
    ctx.trace([(b, q, r) for b, q, r, _ in log])
    ctx.reach("identifiers.scans")
    ctx.reach(f"identifiers.service:{service:02x}")
    w["exit"] = out["exit"]
    w["requests"] = len(log)
    w["errors_logged"] = out["problems"][:4]
    if out["error"] is not None:
        ctx.case(ident)
        ctx.violation(f"identifiers/raises/{type(out['error']).__name__}/{svc}", f"the scan ends with an exception: {out['error']!r:.200}", {**w, "log_tail": em.hexlog(log, 12)})
        return
    if given and list(out["cfg_sessions"]) != sessions:
        ctx.violation("identifiers/sessions-option-parsed-differently", "the --sessions expression does not denote the generated list", {**w, "parsed": out["cfg_sessions"]})
        return
    if out["cfg_service"] != service or (out["cfg_payload"] or b"") != payload:
        ctx.violation("identifiers/option-parsed-differently", "skip map / service / payload option does not denote what was generated", {**w, "parsed": repr((out["cfg_skip"], out["cfg_service"], out["cfg_payload"]))})
        return
    if {int(k): v for k, v in out["cfg_skip"].items()} != skip:
        # named here; what the scan then leaves out / probes is still judged below against the map the expression denotes
        ctx.violation("identifiers/skip-option-parsed-differently", "the --skip expression does not denote the generated map", {**w, "parsed": repr(out["cfg_skip"])[:400]})
    later_additions = skip_later_additions(case["skip_expr"], skip) if case["skip_expr"] else {}
    if any(len(sess) > 1 and ids is not None for sess, ids in skip_elements(case["skip_expr"])):
        ctx.reach("identifiers.skip-multi-session-element")

    def pdu_for(did: int, sf: int | None) -> bytes:
        if service == 0x27:
            return bytes([0x27, did]) + payload
        if service == 0x31:
            return bytes([0x31, sf or 0, did >> 8, did & 0xFF]) + payload
        return bytes([service, did >> 8, did & 0xFF]) + payload

    def decode(q: bytes) -> tuple[int, int | None] | None:
        """(identifier, sub-function) if q has the documented layout for this scan"""
        if q[0] != service:
            return None
        if service == 0x27:
            return (q[1], None) if len(q) == 2 + len(payload) and q[2:] == payload else None
        if service == 0x31:
            return ((q[2] << 8) | q[3], q[1]) if len(q) == 4 + len(payload) and q[4:] == payload else None
        return ((q[1] << 8) | q[2], None) if len(q) == 3 + len(payload) and q[3:] == payload else None

    def expected(s: int | None) -> list[tuple[int, int | None]]:
        e = []
        for did in range(start, end_eff + 1):
            if s is not None and s in skip and (skip[s] is None or did in skip[s]):
                continue
            for sf in subs:
                e.append((did, sf))
        return e

    wins, asked, outside = split_windows(log, out["lost"], given)
    tallies = parse_ident_records(out["records"], given)
    if case["full"]:
        ctx.reach("identifiers.full-run")
    if not given:
        ctx.reach("identifiers.sessions-none")
    if n is not None and given:
        ctx.reach("identifiers.check-session")
    if payload:
        ctx.reach("identifiers.payload")
    if given:
        want_sessions = [s for s in sessions if not (s in skip and skip[s] is None)]
        asked_s = [s for s, _ in asked if s != 1 or 1 in want_sessions]  # leave_session() returns to session 1 after every scan
        for s in want_sessions:
            if s not in [x for x, _ in asked]:
                ctx.violation("identifiers/session-never-requested", "a requested session was never requested from the ECU", {**w, "session": s})
        for s in asked_s:
            if s not in want_sessions:
                kind = "skipped-session" if s in skip and skip[s] is None else "not-in-list"
                ctx.violation(f"identifiers/session-requested/{kind}", "DiagnosticSessionControl was sent for a session that is not to be scanned", {**w, "session": s})
    # windows of requested sessions, in order; '10 01' of leave_session opens a window of session 1 that is not a scan
    scan_wins: list[Window] = []
    if given:
        remaining = [s for s in sessions if not (s in skip and skip[s] is None)]
        for wd in wins:
            if wd.session in remaining and any(decode(q) is not None or q == b"\x22\xf1\x86" for _, _, q, _, _ in wd.entries if q):
                scan_wins.append(wd)
                remaining.remove(wd.session)
            elif wd.session in remaining and not expected(wd.session):
                scan_wins.append(wd)  # nothing to probe in this session (everything skipped / empty range)
                remaining.remove(wd.session)
            elif wd.session in remaining and wd.session != 1:
                scan_wins.append(wd)
                remaining.remove(wd.session)
        claimed = [t["session"] for t in tallies]
        for wd in scan_wins:
            if wd.session not in claimed:
                ctx.violation("identifiers/entered-session-not-reported", "the ECU entered a requested session but no scan is reported for it", {**w, "session": wd.session})
        for s in claimed:
            if s not in [wd.session for wd in scan_wins]:
                ctx.violation("identifiers/claims-session-never-entered", "a scan is reported for a session the ECU never entered on request", {**w, "session": s})
    else:
        scan_wins = wins
    any_positive = False
    for wd in scan_wins:
        S = wd.session
        real_S = S if S is not None else 1
        ctx.reach("identifiers.windows")
        if real_S != 1:
            ctx.reach("identifiers.non-default-session-scanned")
        E = expected(S)
        if S is not None and S in skip and skip[S] is not None and any(start <= d <= end_eff for d in skip[S]):
            ctx.reach("identifiers.skip-map-used")
        if S is not None and later_additions.get(S, set()) & {d[0] for d in E}:
            ctx.reach("identifiers.skip-multi-session-element-then-additions.scanned")
        reentered_after_dropout = unreadable_after_reentry = False
        ww = {**w, "session": S}
        tx: dict[tuple[int, int | None], list[tuple[int, int, bytes | None, bool]]] = {}
        order: list[tuple[int, int | None]] = []
        dirty = False
        was_dirty = False
        f186_replies: list[bytes | None] = []
        bad_layout = 0
        wrong_reported = False
        for i, before, q, r, delivered in wd.entries:
            if q == b"":
                dirty = was_dirty = True
                continue
            if q == b"\x22\xf1\x86" and (ambiguous or service != 0x22 or payload):
                f186_replies.append(r if delivered else None)
                if not ambiguous and r is not None and r[0] == 0x62:
                    dirty = False  # a session check (not a probe): the scanner has been told the session
                elif not ambiguous and before == real_S:
                    ctx.reach("identifiers.session-read-unanswered-in-scanned-session")
                    if reentered_after_dropout and not unreadable_after_reentry:
                        unreadable_after_reentry = True
                        ctx.reach("identifiers.dropout-recovered.session-unreadable")
                        ctx.reach(f"identifiers.dropout-recovered.session-unreadable.{reply_class(q, r)}")
                continue
            if len(q) == 2 and q[0] == 0x10:
                if r is not None and r[0] == 0x50:
                    dirty = False  # the scanner noticed the wrong session and re-entered S
                    reentered_after_dropout = reentered_after_dropout or (was_dirty and q[1] == real_S)
                continue
            if len(q) == 2 and q[0] == 0x3E:
                continue
            d = decode(q)
            if d is None:
                bad_layout += 1
                if bad_layout == 1:
                    kind = f"pdu-layout/{svc}" if q[0] == service else "unexpected-request"
                    ctx.violation(f"identifiers/{kind}", "a request reached the ECU during the scan that is neither session handling nor a probe in the documented layout "
                                  "(service, [sub-function,] identifier, payload)", {**ww, "request": q, "log": em.hexlog(log[max(0, i - 3) : i + 2])})
                continue
            if d not in tx:
                order.append(d)
            tx.setdefault(d, []).append((i, before, r, delivered))
            if before != real_S and given and n is not None and d[0] % n == 0 and len(tx[d]) == 1 and session_read_answerable(case, out["model"], before):
                if not wrong_reported:
                    ctx.violation("identifiers/probe-in-wrong-session/session-check-due", "a session check was due before this identifier (check-session interval) and the ECU can answer it, "
                                  "yet the probe was sent while the ECU was in another session", {**ww, "identifier": d[0], "ecu_session": before, "log": em.hexlog(log[max(0, i - 6) : i + 1])})
                wrong_reported = True
            elif before != real_S and not dirty:
                ctx.violation("identifiers/probe-in-wrong-session", "an identifier was probed while the ECU was in another session than the one the scanner claims",
                              {**ww, "identifier": d[0], "ecu_session": before, "log": em.hexlog(log[max(0, i - 6) : i + 1])})
        if was_dirty and not dirty and wd.recovered:
            ctx.reach("identifiers.dropout-recovered")
        aborted = wd.recover_refused
        # skip_not_supported: the scan of this session legitimately stops at the first not-supported answer
        E_eff = E
        if case["skip_not_supported"]:
            for k, d in enumerate(E):
                if ambiguous and d[0] == 0xF186:
                    # probe and session check are byte-identical; in one session they are answered alike
                    if any(nrc_of(b"\x22", r) in NOT_SUPPORTED for r in f186_replies):
                        E_eff = E[: k + 1]
                        ctx.reach("identifiers.skip-not-supported-stop")
                        break
                    continue
                t = tx.get(d)
                if t and t[-1][3] and nrc_of(bytes([service]), t[-1][2]) in NOT_SUPPORTED:
                    E_eff = E[: k + 1]
                    ctx.reach("identifiers.skip-not-supported-stop")
                    break
        Eset = set(E_eff)
        considered = [d for d in E_eff if not (ambiguous and d[0] == 0xF186)]
        if E:
            dids = {d[0] for d in E}
            for b, name in ((0, "0000"), (0xF186, "f186"), (0xFFFF, "ffff")):
                if b in dids:
                    ctx.reach(f"identifiers.boundary.{name}")
            if service == 0x27 and end > 0x7F and 0x7F in dids:
                ctx.reach("identifiers.boundary.7f-clamp")
        if not aborted:
            for d in considered:
                if d not in tx:
                    if d[0] == end_eff:
                        where = "range-end"
                    elif d[0] == start:
                        where = "range-start"
                    elif service == 0x31 and any((d[0], sf) in tx for sf in subs):
                        where = "sub-function"
                    elif S is not None and S in skip and skip[S] and (d[0] - 1 in skip[S] or d[0] + 1 in skip[S]):
                        where = "next-to-skipped"
                    else:
                        where = "inside-range"
                    ctx.violation(f"identifiers/not-probed/{where}/{svc}", "an identifier (x sub-function) of the requested range was never sent to the ECU in this session", {**ww, "identifier": d[0], "sub_function": d[1]})
                    break
        for d in order:
            if d in Eset or (ambiguous and d[0] == 0xF186):
                continue
            if d[0] == end_eff + 1:
                where = "range-end+1"
            elif d[0] == start - 1:
                where = "range-start-1"
            elif S is not None and S in skip and (skip[S] is None or d[0] in skip[S]):
                where = "skipped-identifier"
            elif service == 0x31 and d[1] not in subs:
                where = "sub-function"
            elif service == 0x27 and d[0] > 0x7F:
                where = "beyond-7-bit"
            elif case["skip_not_supported"] and (d in set(E)):
                where = "after-not-supported-stop"
            else:
                where = "other"
            ctx.violation(f"identifiers/probed-outside-request/{where}/{svc}", "an identifier outside the requested range / skip map / sub-function set was sent to the ECU", {**ww, "identifier": d[0], "sub_function": d[1]})
            break
        positives = 0
        for pos, d in enumerate(order):
            t = tx[d]
            if ambiguous and d[0] == 0xF186:
                continue
            if any(x[3] for x in t[:-1]):
                ctx.violation(f"identifiers/probed-more-than-once/{svc}", "an identifier was sent again although the previous transmission had been answered", {**ww, "identifier": d[0], "transmissions": [(x[2], x[3]) for x in t]})
                break
            if len(t) > 1:
                ctx.reach("identifiers.retry")
            last = t[-1]
            if pos < len(order) - 1:
                # the scan went on to further identifiers after one that the ECU never answered / answered with a reply that is no answer
                if all(x[2] is None for x in t):
                    ctx.reach("identifiers.never-answered-identifier.later-probed")
                elif reply_class(bytes([service]), last[2]) == "garbled":
                    ctx.reach("identifiers.garbled-reply.later-probed")
                    ctx.reach(f"identifiers.garbled-reply.later-probed.{'malformed' if len(last[2] or b'') == 2 else 'mismatch'}")
            if last[3] and last[2] is not None and last[2][0] == service + 0x40:
                positives += 1
        if ambiguous and any(d[0] == 0xF186 for d in E_eff):
            # one of the byte-identical '22 F1 86' requests is the probe; it is positive iff the ECU answers that request positively here
            if any(r is not None and r[0] == 0x62 for r in f186_replies):
                positives += 1
        if positives:
            any_positive = True
            ctx.reach("identifiers.positive", positives)
            ctx.reach(f"identifiers.positive.service:{service:02x}")
        tl = [t for t in tallies if t["session"] == S]
        if not tl or "positive" not in tl[0]:
            if not aborted:
                ctx.violation(f"identifiers/no-tally-reported/{svc}", "the scan of a session ends without reporting its tallies", {**ww, "records": out["records"][-6:]})
            continue
        ctx.reach("identifiers.tally-checked")
        if tl[0]["positive"] != positives:
            ctx.violation(f"identifiers/tally-differs/{'more' if tl[0]['positive'] > positives else 'fewer'}-than-ecu/{svc}",
                          f"'Positive replies: {tl[0]['positive']}' but the ECU answered {positives} probe(s) positively", {**ww, "reported": tl[0], "ecu_positive": positives})
    ctx.case(ident, nontrivial=any_positive or len(scan_wins) > 1)


# ---- driver --------------------------------------------------------------------------------------------------------
def run(ctx: Any, params: dict[str, Any]) -> None:
    import gallia.command  # noqa: F401
    from vf import ecu_models as em

    em.capture_logging()
    rng = ctx.rng
    # DB-backed service scans first (real time, few): a database an earlier run left behind in the scratch directory
    for i in range(params.get("db", 0)):
        if ctx.out_of_time():
            break
        case = gen_db_case(rng, "sessions-scan" if (i + params.get("part", 0)) % 4 == 0 else "written")  # (an earlier session scan costs about as much as the service scan)
        check_services(ctx, case)
        ctx.sample({k: case[k] for k in ("kind", "server_seed", "rp", "sessions_opt", "skip_expr", "check_session", "scan_response_ids", "full", "db")})
    for i in range(params["n"]):
        if ctx.out_of_time():
            break
        if params["kind"] == "services":
            case = gen_services_case(rng)
            check_services(ctx, case)
            if i % 25 == 0:
                ctx.sample({k: case[k] for k in ("kind", "server_seed", "rp", "sessions_opt", "skip_expr", "check_session", "scan_response_ids", "reset", "dropouts")})
        else:
            case = gen_ident_case(rng)
            check_identifiers(ctx, case)
            if i % 25 == 0:
                ctx.sample({k: case[k] for k in ("kind", "server_seed", "service", "sessions_opt", "start", "end", "payload", "check_session", "skip_expr", "losses")})


def replay(ctx: Any, witness: dict[str, Any]) -> None:
    import gallia.command  # noqa: F401
    from vf import ecu_models as em

    em.capture_logging()
    if witness["kind"] == "services":
        check_services(ctx, witness)
    else:
        check_identifiers(ctx, witness)
