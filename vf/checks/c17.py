"""C17 Log records written by a run are read back exactly, in any navigation mode (DESIGN.md section 3, C17).

The real writer (gallia logger -> add_zst_log_handler -> remove_zst_log_handler) produces a .zst log
from a generated record sequence while a shadow list is captured at log time.  The real readers
(PenlogReader in every mode, the `hr` entry point in-process and as a subprocess) are then run on the
file and on harness-derived containers (.gz, plain, plain without '<prio>' prefix, stdin) and their
results are compared with list operations on the shadow list (vf/models/logmodel.py).

Usage variations of the writer: a part of the logs is written while a second log file of the same process is open (write_pair: both
files are judged, each against the records logged while it was open), and one log per shard list is a burst of some ten thousand
records logged back-to-back while the writer thread does not get to run (write_burst); a part of the logs is written to a path at
which a file is already present (place_preexisting: the log of an earlier run, a truncated one, a non-zstd file, an empty file).
Usage variation of the reader: a part of the histories on one reused reader object runs with a second reader object open on another
log, used in between; each reader is judged against its own log (exec_history).  Every record object a reader hands to the harness is
edited by the harness once it has been judged (consumer_edits: a consumer post-processing its copies); all later readings of the log in
the process must still yield what the file holds.  Unusual input: plain / .gz / stdin logs whose last record is not followed by a newline.
"""

from __future__ import annotations

import gzip
import io
import itertools
import os
import random
import re
import subprocess
import sys
import threading
import time
import traceback
from pathlib import Path
from typing import Any

from vf.models import logmodel as M

PROPERTY = "C17"
LEVEL = "exploration"
ENGINE = "shadow-list"
TECHNIQUE = (
    "runtime oracle: record sequences are logged through gallia's real logger and zstd file handler while a shadow "
    "list (text, level, tags, created) is captured at log time; PenlogReader (forward, reverse, offset k, priority "
    "thresholds, reused reader objects incl. len() asked in the middle of an iteration) and the hr entry point (in-process and as "
    "subprocess; --head/--tail/--reverse/--priority/--lines; .zst, .gz, plain, prefix-less, stdin file and pipe; .zst files of several zstd "
    "frames (logs of 2..4 runs of the real writer joined as `cat` does; the same bytes re-framed by the harness) and .gz files of several "
    "gzip members; one file, the same file "
    "twice, several different files of different lengths incl. an empty one) are compared with list operations on the shadow list. "
    "Usage variations of the writer: two log files open at the same time in one process (handlers on the same logger or on two logger "
    "trees, any order of opening/closing, each file judged separately against the records logged while it was open) and a burst of "
    "some ten thousand records logged back-to-back in the schedule in which the writer thread does not run meanwhile; for these logs "
    "the decompressed file itself is compared with the shadow list first (marker sequence), with a control run (the same records with "
    "one open file / a short burst) that tells whether the situation matters. History before the run: about a fifth of the logs is "
    "written to a path at which a file is already present (the complete log of an earlier run of the real writer, such a log cut short, "
    "a file that is no zstd file, an empty file); the decompressed file is compared with the shadow list of this run (control: the same "
    "log written to a fresh path). Usage variation of the reader: about half of the histories on a reused reader object run with a "
    "second reader object open on another log of another length (any container), operations on the two readers alternate and every "
    "result is compared with the slice of that reader's own log (control: the operations of the failing reader alone). "
    "Usage variation of the consumer: every record object that a PenlogReader hands out is edited by the harness after it has been judged "
    "(text redacted, tag added in place, priority, time stamp and stack trace replaced); every later reading of the same log in the process - "
    "the same reader object, a fresh reader, another container with the same lines, hr in-process - is compared with the shadow list as "
    "before (a result that shows the marks of the harness is attributed to the edits). Unusual input: plain, .gz and stdin-pipe containers "
    "whose last record is not followed by a newline, in every mode. Environment of the run: every shard writes and reads its logs in a "
    "process with another local time zone (TZ: UTC, east and west of UTC, offsets of whole hours, half hours and quarter hours, a zone "
    "with daylight saving time in force); the time stamp read back is compared with the instant Python's logging stamped on the record"
)
LEVEL_TEXT = (
    "Exploration: some hundred (quick) to ten thousand (thorough) generated logs of length 0..3000 (arbitrary Unicode scalar "
    "values, control characters, newlines, lines up to 1 MiB, all seven levels, tags, exception traces) are written by the real "
    "writer and read back by the real reader and hr in every navigation mode; each result is compared with the corresponding "
    "slice of the shadow list. About a fifth of the logs is written by several runs whose .zst files are joined; every log is also "
    "read from a .zst of several frames and a .gz of several members. About a third of the single-run logs is written while a second log "
    "file of the same process is open (both files are read back and judged); one log per quick run (four per thorough run) is a burst of "
    "26 000..110 000 records logged in one tight loop. About a fifth of the logs is written to a path at which a file exists already; "
    "about half of the reader histories run with a second reader object open on another log. All record objects handed out by in-process "
    "readers are edited by the harness after judgement, so every reading but the first of a log is a reading after a caller's edits; three of the "
    "twelve hr containers and two of the nine reader containers end without a final newline. The 16 shards run under ten local time zones (UTC-11..UTC+14, four of them west of UTC with an offset "
    "that is no whole number of hours). Held means held on those logs and mode parameters."
)
LEVEL_NOTE = (
    "Trusted: the list model in vf/models/logmodel.py, the zstandard/gzip libraries used to derive the other containers from "
    "the .zst file gallia wrote, Python's logging module for the record's `created` stamp."
)
RULE = (
    "a log = (file level, logger name, sequence of record specs: method in trace..critical/result/exception/log, text = unique "
    "marker '#id<i>#' + payload drawn from ASCII, random Unicode scalars, control characters, newline variants, JSON-significant "
    "text, %-text, boundary code points, 64Ki..1Mi long lines; tags None/[]/1..3 strings; optional raised-and-caught exception); "
    "lengths 0,1,2,3,5,7,99,100,101 enumerated plus random lengths up to 600 (quick) / 3000 (thorough); optional run boundaries "
    "(1..3 indices into the sequence, incl. 0 and the end = a run that logs nothing): every run gets its own handler lifetime and file, the "
    "files are concatenated into the .zst that is read. Containers zst-frames / gz-members: the decompressed bytes cut into >=2 parts "
    "(one per record | 1..5 cuts at record ends | 1..3 cuts at arbitrary bytes | plus parts without content, also first and last), every "
    "part one complete zstd frame (one-shot or streamed = without content size, checksum on/off, level 1..6) or gzip member. A case = (log, component "
    "reader|hr|hr-subprocess, container, mode, parameters): for logs of <=3 records every mode x threshold x container x n is "
    "enumerated, larger logs get a fixed core set plus a random sample. A case is trivial only when the log holds exactly one record "
    "and the mode is unfiltered forward reading; distinct = distinct (log content hash, component, container, mode, parameters). "
    "Per log additionally: three histories on one reused reader object (2..5 operations from len, forward, partial forward, offset k, "
    "reverse and 'iteration with len(reader) asked after k delivered records' - forward, reverse, offset; the third history starts with "
    "that operation on a forward pass) and six hr invocations naming 2..4 different files (this log, up to three earlier logs of the shard "
    "with other lengths, a log without records; empty first / ascending / descending / random order; random containers) in tail, head, "
    "plain and reverse mode with n from {default, 0, 1, shortest, shortest+1, between, longest, longest+3, random}. "
    "Two logs open at the same time (40% of the generated logs without run boundaries, five enumerated ones): a second log = (file level, logger, "
    "0..40 record specs with markers from #id500000# on), mode same-logger (both handlers on 'gallia': a record logged while both are open "
    "belongs into both files) | separate-loggers (second handler on the logger tree 'c17second'), event order = the log opened first gets "
    "1..all of its events alone, the rest is merged at random with the events of the other one (either may be opened first; closing in "
    "opening or in reverse order; optionally with points at which the harness waits until the writer threads have caught up: after every "
    "event | at 1..5 points incl. just before the later log is opened | nowhere); the log itself gets its usual cases, the second one len + forward + hr forward + 9 sampled cases + one "
    "history. Burst: one shard logs 26 000..35 000 (thorough: four shards, up to 110 000) record specs (no traces, no %-arguments) in one "
    "loop of prepared calls with the interpreter's thread switch interval raised (writer thread starved; thorough: one burst free-running), "
    "then len, forward, reverse, offset k, forward on another container, hr tail/head n<=60 and hr forward at 'critical'. "
    "File present at the log path (30% of the generated logs without a second open log, seven enumerated ones; every run file of the log): "
    "earlier-log = 0..n+20 record specs (markers from #id900000# on) logged by the real writer in a handler lifetime that ended before | "
    "truncated-log = such a file cut to a share 0..1 of its bytes (at least one byte missing) | stale-bytes = plain log lines, a gzip member, "
    "text or arbitrary bytes of 1..5000 bytes | empty-file. Two readers open: the second and half of the third histories of a log get a "
    "second reader object on an earlier log of the shard or on the second log of the pair (record count different and not 0; container "
    "drawn from all reader containers), with 1..2 operations (len 30%, offset k 30%, reverse 15%, forward, partial forward, iteration with "
    "len) in one gap between two operations of the first reader for certain and in every other gap (also before the first and after "
    "the last operation) with probability 0.45. "
    "Containers *-unterminated = the decompressed bytes without the newline after the last record (plain file, one gzip member, bytes piped "
    "to hr's stdin); they take part in the enumeration / sampling like every other container, and every log gets len and offset -1 | offset N-1 | "
    "reverse on one of them and one hr --tail. Consumer edits: after the oracle has judged the result of a reader operation (fresh reader cases and "
    "every operation of a history), each returned record object gets data = its marker + a stamp, tags.append(stamp tag) (or tags = [stamp tag]), "
    "priority = 0, _python_level_no = 50, datetime = a constant, stacktrace = 'edited'. "
    "Local time zone: shard i of seed s runs with TZ = ZONES[(i + s) mod 10] (POSIX TZ strings: unset, +05:30, -03, -03:30, +12:45, -09:30, "
    "-03:30 with DST in force for 11 months of the year, +14, -00:45, -11), set before gallia is imported; hr subprocesses inherit it"
)
ASSUMPTIONS = [
    "text is any sequence of Unicode scalar values (no lone surrogates); every text starts with a unique marker '#id<i>#' and payloads/tags never contain '#id'",
    "for records logged with exception information the reader may expose the formatted trace either in `stacktrace` or appended to the text after a newline (Python's QueueHandler merges it); both are accepted",
    "timestamps are compared at microsecond resolution (the log stores ISO-8601 with microseconds); 'the same timestamp' = the same instant "
    "as the record's `created`, whatever the local time zone of the writing process is (the statement names no zone; the UTC offset written is not judged)",
    "reader offsets k are only exercised within the valid index range -len <= k < len; for --tail both readings of 'last n' are accepted; records(reverse=True) without offset may mean the whole log reversed or just record 0",
    "gallia only writes .zst; the .gz, plain, prefix-less and stdin inputs are derived by the harness from the decompressed bytes of that file",
    "a .zst input is any sequence of zstd data frames and a .gz input any sequence of gzip members; its content is the concatenation of what "
    "the frames / members decode to (RFC 8878 section 3, RFC 1952 section 2.2; what `zstd -d` / `gzip -d` print) - so the logs of several "
    "runs joined with `cat` read back as the records of the first run followed by those of the next; skippable frames are not generated",
    "hr output: order, multiplicity and text of the records are compared exactly (marker based); tags and time of day are required as substrings of the line header; the level is only observable through the priority filter",
    "subprocess hr runs with PYTHONUTF8=1 (the sandbox has a POSIX locale); stdout is decoded as UTF-8",
    "reuse of one PenlogReader object for several passes is taken to be covered by 'any navigation mode' (offset table for random access); "
    "so is asking len(reader) while an iteration is in progress (a progress display): the iteration must still deliver its full slice",
    "several FILE arguments on one hr command line: the output is the concatenation of what each file yields alone with the same options "
    "(-n applies to every file separately)",
    "'the produced compressed log' of a run is the file of one add_zst_log_handler .. remove_zst_log_handler lifetime; a process may have "
    "several of them open at once (nested or parallel runs). A record belongs into a file iff it was logged while that handler was "
    "installed, on a logger at or below the one the handler was attached to, at or above the file level (Python logging propagation)",
    "a burst is judged like any other record sequence: every record logged is in the file, however far the writer thread is behind; "
    "raising sys.setswitchinterval only selects one legal schedule of the producer and the writer thread",
    "the produced log of a run holds what that run logged: whatever is present at the log path before add_zst_log_handler (the log of an "
    "earlier run in a re-used directory, a leftover of a killed run, a file of another format) is history and is not part of it "
    "(quantifier 'histories'; the statement names no exception for re-used paths)",
    "the statement is about each log and its reader: a PenlogReader yields the slices of the log it was opened on whether or not other "
    "PenlogReader objects are open in the process and whatever is done with them in between (operations are not nested: one reader's "
    "operation ends before the other reader is used)",
    "a PenlogRecord handed to the caller is the caller's object (a mutable dataclass; hr itself assigns record.colored): what the caller does "
    "with it afterwards is not part of the log. The statement is about what reading the log yields, for every reading of a history - a second pass, "
    "a fresh reader, hr in the same process yield the records the run logged, not the caller's edited copies",
    "a plain / .gz / stdin input whose last line is not followed by a newline holds the same record sequence as the terminated one (forward "
    "reading yields these N records); len, offset, reverse and tail address that same sequence ('each yield the corresponding slice of that sequence')",
]
EXHAUSTIVE = {"quick": False, "thorough": False}
EXHAUSTIVE_NOTE = "exhaustive sub-space: for the enumerated edge logs with <=3 records all thresholds 0..8 x modes x containers x n in {0..len+2, default} are run"

PY = "/venv/bin/python"
METHODS = ["trace", "debug", "info", "notice", "warning", "error", "critical", "result", "exception", "log"]
LEVEL_NAMES = ["trace", "debug", "info", "notice", "warning", "error", "critical"]
LOGGER_NAMES = ["gallia.c17", "gallia.scanner.\u00fc7", "gallia.a.b.c"]
# a second logger tree of the same process (its own log file handler is attached to SECOND_ROOT), for logs open at the same time
SECOND_ROOT = "c17second"
SECOND_LOGGER_NAMES = ["c17second", "c17second.run.\u00e4", "c17second.a.b"]
SECOND_ID0 = 500_000  # markers of the records of the second log start here, so that a record in the wrong file is recognisable
PRE_ID0 = 900_000  # markers of the records of an earlier run whose log is found at the log path when the run starts
# "zst-frames" / "gz-members": the same decompressed bytes as a .zst of several zstd frames / a .gz of several gzip members
# "*-unterminated": the same bytes without the newline after the last record (printf / jq -j output, a copy that ends with the last byte
# of the last record): forward reading yields the same N records, so every other mode is judged against the same N records
READER_CONTAINERS = ["zst", "plain", "gz", "noprefix", "mixedprefix", "zst-frames", "gz-members", "plain-unterminated", "gz-unterminated"]
HR_CONTAINERS = ["zst", "plain", "gz", "noprefix", "mixedprefix", "zst-frames", "gz-members", "stdin-file", "stdin-pipe",
                 "plain-unterminated", "gz-unterminated", "stdin-pipe-unterminated"]
UNTERMINATED = "last-record-not-newline-terminated"
# what the harness, as the consumer of a reading, writes into the record objects it was handed (after they have been judged)
EDIT_STAMP = " <redacted-by-the-consumer-of-an-earlier-reading>"
EDIT_TAG = "edited-by-the-consumer"
SEVERAL_PARTS = {"zst-frames": "multi-frame-zst", "gz-members": "multi-member-gz"}
MARK = re.compile(r"#id(\d+)#")
# local time zone of the process that writes (and reads) the logs: one per shard, POSIX TZ strings (no tzdata needed; the sign of a POSIX
# offset is 'west of UTC positive').  Classes: UTC | east / west of UTC x whole hours / half hours / quarter hours, incl. the largest
# offsets in use and a zone whose daylight saving time is in force for most of the year
ZONES: list[str | None] = [None, "VFA-05:30", "VFB+03", "VFC+03:30", "VFD-12:45", "VFE+09:30", "VFF+03:30VFS,M1.2.0,M12.3.0", "VFG-14",
                           "VFH+00:45", "VFI+11"]


# ---------------------------------------------------------------------------------------------
# interface
def shards(tier: str, seed: int) -> list[dict[str, Any]]:
    n = 16
    # "burst": that many records logged back-to-back in one tight loop (one shard in the quick tier: a burst is costly)
    # the shard's own limit follows the runner's budget knobs (VERIF_QUICK_BUDGET / VERIF_THOROUGH_BUDGET, defaults 75 / 600 s)
    scale = float(os.environ.get("VERIF_QUICK_BUDGET", 75)) / 75 if tier == "quick" else float(os.environ.get("VERIF_THOROUGH_BUDGET", 600)) / 600
    if tier == "quick":
        out = [{"part": i, "parts": n, "logs": 26, "maxlen": 600, "sub": 6, "wall": 42.0 * scale} for i in range(n)]
        out[5].update(burst=26000 + (seed * 3571) % 9000, logs=22)
        return out
    out = [{"part": i, "parts": n, "logs": 640, "maxlen": 3000, "sub": 40, "wall": 400.0 * scale} for i in range(n)]
    for i, b in ((1, 24000), (5, 40000), (9, 64000), (13, 100000)):
        out[i].update(burst=b + (seed * 3571) % 9000, burst_schedule="free-running" if i == 5 else "writer-starved")
    return out


def required_reach(tier: str) -> dict[str, int]:
    need = {
        "log.len0": 2, "log.len1": 5, "log.len2": 2, "log.len_ge100": 3, "log.file_level_drops": 5,
        "text.newline": 50, "text.control": 50, "text.astral": 50, "text.json_special": 20, "text.long_64k": 1, "text.long_1m": 1,
        "tags.none": 50, "tags.empty": 10, "tags.some": 50, "exc.exception": 20, "exc.exc_info": 5, "method.result": 20, "method.args": 5,
        "trace.observed": 10,
        "reader.len": 50, "reader.forward": 200, "reader.reverse-default": 50, "reader.reverse": 50, "reader.offset.pos": 50,
        "reader.offset.neg": 50, "reader.reverse-from": 50, "reader.reuse": 50, "reader.empty_log": 2,
        "hr.forward": 100, "hr.head": 100, "hr.tail": 100, "hr.reverse": 50, "hr.multi": 10, "hr.default_priority": 20,
        "hr.prio_name": 50, "hr.prio_num": 50, "hr.default_lines": 10, "hr.empty_log": 2,
        "hr.tail.n-zero": 5, "hr.tail.n-less-than-log": 20, "hr.tail.n-equals-log": 10, "hr.tail.n-greater-than-log": 20,
        "hr.head.n-zero": 5, "hr.head.n-less-than-log": 20, "hr.head.n-equals-log": 10, "hr.head.n-greater-than-log": 20,
        "hr.tail.readings_differ": 5, "hr.subprocess": 40, "hr.subprocess.stdin-pipe": 3, "hr.subprocess.stdin-file": 3,
        "filter.drops_some": 100, "filter.drops_all": 20,
        # several different files on one hr command line
        "hr.multi-files": 300, "hr.multi-files.tail": 100, "hr.multi-files.head": 60, "hr.multi-files.forward": 20, "hr.multi-files.reverse": 20,
        "hr.multi-files.different-lengths": 200, "hr.multi-files.empty-file-first": 50, "hr.multi-files.subprocess": 4,
        "hr.multi-files.tail.earlier-file-shorter-than-n-and-than-later-file": 30,
        "hr.multi-files.head.earlier-file-shorter-than-n-and-than-later-file": 15,
        # len(reader) asked inside an iteration of a reused reader object
        "reader.reuse.len-during-forward-iteration": 100, "reader.reuse.len-during-reverse-iteration": 20, "reader.reuse.len-during-offset-iteration": 20,
        "reader.reuse.len-during-forward-iteration.records-before-and-after": 50,
        "reader.reuse.len-during-reverse-iteration.records-before-and-after": 10,
        "reader.reuse.first-len-during-forward-iteration": 50,
    }
    # input files that consist of several zstd frames / gzip members (logs of several runs joined, writers that end frames)
    need.update({
        "log.written-in-several-runs": 10, "log.written-in-several-runs.records-after-first-run": 8, "log.written-in-several-runs.run-without-records": 2,
        "reader.reuse.zst-of-several-runs.content-after-first-part": 20, "hr.multi-files.file-of-several-parts": 100,
    })
    for base, scale in (("reader", 1), ("hr", 2)):
        need[f"{base}.zst-of-several-runs.content-after-first-part"] = 100 * scale
        need[f"{base}.zst-of-several-runs.part-without-content"] = 20
        need[f"{base}.multi-frame-zst.frame-without-content-size"] = 100
        for cls in SEVERAL_PARTS.values():
            need[f"{base}.{cls}.content-after-first-part"] = 150 * scale
            need[f"{base}.{cls}.cut-at-record-boundary"] = 50
            need[f"{base}.{cls}.cut-inside-record"] = 50
            need[f"{base}.{cls}.one-part-per-record"] = 30
            need[f"{base}.{cls}.part-without-content"] = 30
            need[f"{base}.{cls}.first-part-without-content"] = 20
    # two log files open at the same time in one process; a long burst of records logged back-to-back
    need.update({
        "writer.two-logs-open": 20, "writer.two-logs-open.same-logger": 6, "writer.two-logs-open.separate-loggers": 6,
        "writer.two-logs-open.records-before-the-later-log-is-opened": 8, "writer.two-logs-open.records-while-both-are-open": 10,
        "writer.two-logs-open.record-belongs-into-both-files": 4, "writer.two-logs-open.records-after-one-log-is-closed": 8,
        "writer.two-logs-open.closed-in-opening-order": 4, "writer.two-logs-open.closed-in-reverse-order-(nested)": 4,
        "writer.two-logs-open.judged-log-opened-second": 3, "writer.two-logs-open.second-log-has-records": 10,
        "reader.second-of-two-open-logs": 60, "hr.second-of-two-open-logs": 40,
        "writer.two-logs-open.later-log-opened-with-writer-of-the-earlier-idle-after-records": 5,
        "writer.two-logs-open.with-waits-for-the-writer-threads": 8, "writer.two-logs-open.without-waits": 4,
        "writer.burst": 1, "writer.burst.writer-starved": 1, "writer.burst.ge-20000-records": 1,
        "writer.burst.writer-thread-behind-by-half-the-burst": 1, "reader.burst-log": 4, "hr.burst-log": 3,
    })
    # two reader objects open at the same time on different logs, used alternately; something present at the log path before the run
    need.update({
        "reader.two-readers-open": 100, "reader.two-readers-open.logs-of-different-lengths": 100, "reader.two-readers-open.operation-on-second-reader": 300,
        "reader.two-readers-open.record-index-used-again-after-the-other-reader-used-one": 150,
        "reader.two-readers-open.len-again-after-the-other-reader-used-a-record-index": 50,
        "writer.file-exists-at-log-path": 12, "writer.file-exists-at-log-path.file-not-empty": 10,
        "writer.file-exists-at-log-path.log-of-an-earlier-run": 6, "writer.file-exists-at-log-path.earlier-log-has-records": 5,
        "writer.file-exists-at-log-path.earlier-log-has-more-records-than-this-run-logs": 2,
        "writer.file-exists-at-log-path.not-a-zstd-file": 2, "writer.file-exists-at-log-path.truncated-log-of-an-earlier-run": 2,
        "writer.file-exists-at-log-path.empty-file": 1, "writer.file-exists-at-log-path.file-not-empty.this-run-logs-nothing": 1,
        "writer.file-exists-at-log-path.file-not-empty.log-written-in-several-runs": 3,
    })
    # input whose last record is not followed by a newline; readings after the consumer of an earlier reading edited the records it got
    need.update({
        f"reader.{UNTERMINATED}": 500, f"reader.{UNTERMINATED}.len": 60, f"reader.{UNTERMINATED}.read-from-the-end": 300,
        f"reader.{UNTERMINATED}.log-of-one-record.len-or-read-from-the-end": 50,
        f"hr.{UNTERMINATED}": 1500, f"hr.{UNTERMINATED}.read-from-the-end": 800, f"hr.{UNTERMINATED}.stdin": 500,
        f"hr.{UNTERMINATED}.log-of-one-record.len-or-read-from-the-end": 200, "hr.subprocess.stdin-pipe-unterminated": 3,
        "reader.caller-edits-the-records-it-was-handed": 2000, "reader.reread-after-caller-edit": 2000,
        "reader.reread-after-caller-edit.other-container-with-the-same-lines": 1500,
        "reader.reuse.reread-after-caller-edit": 500, "reader.reuse.reread-after-caller-edit.same-reader-object": 300,
        "hr.read-after-caller-edit": 5000,
    })
    # the local time zone of the process that writes and reads the log (one zone per shard)
    z = "writer.local-time-zone."
    need.update({
        z + "utc.log-with-records": 10, z + "east-of-utc.log-with-records": 30, z + "west-of-utc.log-with-records": 30,
        z + "east-of-utc.offset-whole-hours.log-with-records": 10, z + "west-of-utc.offset-whole-hours.log-with-records": 10,
        z + "east-of-utc.offset-not-whole-hours.log-with-records": 20, z + "west-of-utc.offset-not-whole-hours.log-with-records": 30,
    })
    if tier == "thorough":
        need.update({"writer.burst": 4, "writer.burst.writer-starved": 3, "writer.burst.free-running": 1, "writer.burst.ge-20000-records": 4,
                     "writer.burst.writer-thread-behind-by-half-the-burst": 3})
    for lv in LEVEL_NAMES:
        need[f"level.{lv}"] = 20
        need[f"file_level.{lv}"] = 1
    for p in range(9):
        need[f"reader.prio.{p}"] = 10
    for c in READER_CONTAINERS:
        need[f"reader.container.{c}"] = 30
    for c in HR_CONTAINERS:
        need[f"hr.container.{c}"] = 30
    if tier == "thorough":
        need["log.len_ge1000"] = 3
    return need


# ---------------------------------------------------------------------------------------------
# generators (record specs are JSON-able literals; text_of() is the only place that expands them)
BOUNDARY = [
    "\u0000", "\u007f", "\u0080", "\u07ff", "\u0800", "\ud7ff", "\ue000", "\ufffd", "\ufffe", "\uffff", "\U00010000", "\U0001fffe",
    "\U0010ffff", "\ufeff", "\u0301", "\u202e", "\u200d", "\u00a0", "\u3000",
]
NEWLINES = ["\n", "\r", "\r\n", "\u2028", "\u2029", "\x85", "\x0b", "\x0c", "\x1c", "\x1d", "\x1e", "\n\n"]
CONTROLS = [chr(c) for c in range(0, 32)] + ["\x7f"] + [chr(c) for c in range(0x80, 0xA0)]
JSONISH = [
    '"', "\\", "\\n", '\\"', "\\u0041", '{"a": "b"}', "<3>", '<6>{"data": "x", "version": 2}', "}", "]", "\\\\", "'", "/", "\\ud800", "null", "\x1b[31m",
]
ASCII = [chr(c) for c in range(32, 127)]


def rand_scalar(rng: random.Random) -> str:
    while True:
        k = rng.randrange(5)
        if k == 0:
            c = rng.randrange(0x80)
        elif k == 1:
            c = rng.randrange(0x80, 0x800)
        elif k == 2:
            c = rng.randrange(0x800, 0x10000)
        else:
            c = rng.randrange(0x10000, 0x110000)
        if not 0xD800 <= c <= 0xDFFF:
            return chr(c)


def clean(s: str) -> str:
    while "#id" in s:
        s = s.replace("#id", "#iD")
    return s


def gen_payload(rng: random.Random) -> str:
    k = rng.randrange(100)
    if k < 3:
        return ""
    if k < 25:
        return "".join(rng.choice(ASCII) for _ in range(rng.randint(1, 60)))
    if k < 45:
        return "".join(rand_scalar(rng) for _ in range(rng.randint(1, 40)))
    if k < 60:
        parts = []
        for _ in range(rng.randint(1, 6)):
            parts.append("".join(rng.choice(ASCII) for _ in range(rng.randint(0, 12))))
            parts.append(rng.choice(NEWLINES))
        if rng.random() < 0.5:
            parts.append("end")
        return "".join(parts)
    if k < 70:
        return "".join(rng.choice(CONTROLS) if rng.random() < 0.6 else rng.choice(ASCII) for _ in range(rng.randint(1, 30)))
    if k < 80:
        return " ".join(rng.choice(JSONISH) for _ in range(rng.randint(1, 6)))
    if k < 84:
        return rng.choice(["100%", "%s %d", "%(x)s", "%%", "50% done %", "%"]) + rng.choice(["", " x", "\n%s"])
    if k < 90:
        return rng.choice([" ", "  lead", "trail  ", "\t", "\n", "\nlead-nl", "trail-nl\n", "\r\n", " \n "])
    if k < 96:
        return "".join(rng.choice(BOUNDARY) if rng.random() < 0.7 else rng.choice(ASCII) for _ in range(rng.randint(1, 20)))
    return "".join(rng.choice(["\U0001f600", "\U0001f9ea", "\U00020000", "a", "\u00e4"]) for _ in range(rng.randint(1, 300)))


def gen_tag(rng: random.Random) -> str:
    k = rng.randrange(6)
    if k < 3:
        return rng.choice(["result", "uds", "write", "read", "JSON", "a b", "x,y", "[t]", ""])
    if k == 3:
        return clean("".join(rand_scalar(rng) for _ in range(rng.randint(1, 8))))
    if k == 4:
        return clean("".join(rng.choice(CONTROLS + NEWLINES) for _ in range(rng.randint(1, 3))))
    return clean("".join(rng.choice(JSONISH) for _ in range(2)))


def gen_spec(rng: random.Random, i: int) -> dict[str, Any]:
    m = rng.choice(METHODS)
    spec: dict[str, Any] = {"i": i, "m": m, "text": clean(gen_payload(rng))}
    if m == "log":
        spec["level"] = rng.choice(LEVEL_NAMES)
    r = rng.random()
    if r < 0.45:
        spec["tags"] = None
    elif r < 0.52:
        spec["tags"] = []
    else:
        spec["tags"] = [gen_tag(rng) for _ in range(rng.randint(1, 3))]
    if m == "exception" or rng.random() < 0.06:
        spec["exc"] = {
            "type": rng.choice(["ValueError", "KeyError", "OSError", "ZeroDivisionError", "UnicodeError"]),
            "msg": clean(rng.choice(["boom", "", "line1\nline2", "\u00fc\U0001f600\x00", '"q" \\ {}'])),
            "depth": rng.randrange(4),
            "chain": rng.random() < 0.3,
        }
    elif rng.random() < 0.05:
        spec["args"] = [clean(gen_payload(rng))[:40], rng.randrange(-5, 10**6)]
    return spec


def gen_logdef(rng: random.Random, maxlen: int, force_long: bool = False) -> dict[str, Any]:
    k = rng.randrange(100)
    if k < 4:
        n = 0
    elif k < 11:
        n = 1
    elif k < 18:
        n = 2
    elif k < 55:
        n = rng.randint(3, 10)
    elif k < 88:
        n = rng.randint(11, 130)
    elif k < 97:
        n = rng.randint(131, min(400, maxlen))
    else:
        n = rng.randint(min(401, maxlen), maxlen)
    long_log = force_long or rng.random() < 0.03
    if long_log:
        n = rng.randint(1, 12)
    fl = rng.choices(LEVEL_NAMES, weights=[45, 20, 15, 5, 5, 5, 5])[0]
    specs = [gen_spec(rng, i) for i in range(n)]
    if long_log:
        for _ in range(rng.randint(1, 2)):
            s = specs[rng.randrange(n)]
            s.pop("args", None)
            unit = rng.choice(["x", "\u00e4", "\U0001f600", "line\n", '\\"', "\x00", "ab \u2028"])
            total = rng.choice([1 << 16, 1 << 16, 1 << 18, 1 << 20])
            s["rep"] = [unit, total // len(unit)]
            if s["m"] in ("trace", "debug") and rng.random() < 0.7:
                s["m"] = "info"
    ld: dict[str, Any] = {"file_level": fl, "logger": rng.choice(LOGGER_NAMES), "specs": specs}
    # some logs are written by 2..4 runs of the real writer (one file per run), the files are then joined as `cat` does;
    # "runs" = the indices into specs at which the next run starts (0 or n: a run that logs nothing)
    if rng.random() < 0.22:
        lo = min(1, n)
        ld["runs"] = sorted(rng.randint(0, n) if rng.random() < 0.2 else rng.randint(lo, max(n - 1, lo)) for _ in range(rng.choice([1, 1, 1, 2, 3])))
    elif not long_log and rng.random() < 0.4:
        ld["pair"] = gen_pair(rng, n)
    # history: something is already present at the log path when the run starts (a re-used directory, a fixed path, a retry)
    if "pair" not in ld and rng.random() < 0.3:
        ld["preexisting"] = gen_preexisting(rng, n)
    return ld


def gen_preexisting(rng: random.Random, n: int) -> dict[str, Any]:
    """What lies at the log path before the run adds its file handler (every run file of the log gets it):
    'earlier-log' = the complete log of an earlier run of the real writer (record specs with markers from #id900000# on, also none, also more
    than this run logs), 'truncated-log' = such a log cut short (the earlier run was killed), 'stale-bytes' = a file that is no zstd
    file at all (plain log lines, a gzip member, arbitrary bytes), 'empty-file' = a file of 0 bytes."""
    k = rng.randrange(100)
    if k < 55 or 75 <= k < 90:
        r = rng.randrange(10)
        m = 0 if r == 0 and k < 55 else (rng.randint(1, 3) if r < 4 else (rng.randint(4, 30) if r < 8 else n + rng.randint(1, 20)))
        pre: dict[str, Any] = {"kind": "earlier-log" if k < 55 else "truncated-log", "file_level": rng.choice(["trace", "trace", "info"]),
                               "logger": rng.choice(LOGGER_NAMES), "specs": [gen_spec(rng, PRE_ID0 + i) for i in range(min(m, 200))]}
        if k >= 75:
            pre["keep"] = rng.choice([0.0, 0.5, 0.9, 1.0, round(rng.random(), 3)])  # share of the file that is left (at least one byte is cut off)
        return pre
    if k < 75:
        return {"kind": "stale-bytes", "form": rng.choice(["plain-log-lines", "plain-log-lines", "gzip-member", "arbitrary-bytes", "text"]),
                "size": rng.choice([1, 40, 500, 5000]), "seed": rng.randrange(1 << 30)}
    return {"kind": "empty-file"}


def stale_bytes(pre: dict[str, Any]) -> bytes:
    """The content of a pre-existing file that is not a zstd file (harness made, determined by the literal)."""
    rng = random.Random(f"C17/stale/{pre['seed']}")
    size = int(pre["size"])
    if pre["form"] in ("plain-log-lines", "gzip-member"):
        lines = b"".join(b'<6>{"module": "old", "host": "h", "data": "' + marker(PRE_ID0 + i).encode() + b' stale line", "datetime": '
                         b'"2020-01-01T00:00:00.000000+00:00", "priority": 6, "version": 2}\n' for i in range(1 + size // 150))
        return lines if pre["form"] == "plain-log-lines" else gzip.compress(lines, mtime=0)
    if pre["form"] == "text":
        return (marker(PRE_ID0).encode() + b" stale leftover, not a zstd frame\n" * (1 + size // 34))[:max(size, 12)]
    out = bytes(rng.randrange(256) for _ in range(size))
    return out if out[:4] != b"\x28\xb5\x2f\xfd" else b"x" + out[1:]


def gen_pair(rng: random.Random, n: int) -> dict[str, Any]:
    """A second log file that is open at the same time as the log itself (a nested / parallel run of the same process with its own
    add_zst_log_handler): its own record specs, file level and logger, and the order of all events of both logs.

    mode 'same-logger': both file handlers are attached to the logger 'gallia' - every record logged while both are open belongs into
    both files (each filtered by its own file level); mode 'separate-loggers': the second handler is attached to another logger tree and
    gets the records logged there.  events: 'A+'/'A-' = the log itself is opened/closed, 'B+'/'B-' = the second log, 'a'/'b' = the next
    record spec of the log itself / of the second log is logged, '~' = wait until the writer threads have caught up."""
    mode = rng.choice(["same-logger", "separate-loggers"])
    k = rng.randrange(10)
    m = 0 if k == 0 else (rng.randint(1, 3) if k < 4 else rng.randint(4, 40))
    second = {"file_level": rng.choices(LEVEL_NAMES, weights=[45, 20, 15, 5, 5, 5, 5])[0],
              "logger": rng.choice(LOGGER_NAMES if mode == "same-logger" else SECOND_LOGGER_NAMES),
              "specs": [gen_spec(rng, SECOND_ID0 + i) for i in range(m)]}
    ea = ["A+"] + ["a"] * n + ["A-"]
    eb = ["B+"] + ["b"] * m + ["B-"]
    if rng.random() < 0.25:
        ea, eb = eb, ea  # the second log is the one opened first
    # the log opened first gets `cut` of its events alone (at least its opening, never its closing), then the rest of it is
    # interleaved with the events of the other one: the two lifetimes overlap in every order of closing
    r = rng.random()
    cut = 1 if r < 0.2 else (len(ea) - 1 if r < 0.3 else rng.randint(1, len(ea) - 1))
    events, rest = ea[:cut], ea[cut:]
    w = rng.choice([0.2, 0.5, 0.5, 0.8, len(rest) / (len(rest) + len(eb))])
    i = j = 0
    while i < len(rest) or j < len(eb):
        if j >= len(eb) or (i < len(rest) and rng.random() < w):
            events.append(rest[i])
            i += 1
        else:
            events.append(eb[j])
            j += 1
    # '~' = the harness waits here until the writer threads of the open files have caught up (the schedule "writer idle at this point")
    r = rng.random()
    if r < 0.35:
        events = [x for e in events for x in (e, "~")]
    elif r < 0.7:
        for _ in range(rng.randint(1, 4)):
            events.insert(rng.randint(1, len(events) - 1), "~")
        if rng.random() < 0.6:
            k = next(i for i, e in enumerate(events) if e in ("A+", "B+") and i > 0)  # just before the later log is opened
            events.insert(k, "~")
    return {"mode": mode, "second": second, "events": "".join(e if len(e) == 2 else e + " " for e in events)}


def pair_events(pair: dict[str, Any]) -> list[str]:
    ev = pair["events"]
    return [ev[i:i + 2].strip() for i in range(0, len(ev), 2)]


def gen_burst_logdef(seedstr: str, n: int, schedule: str = "writer-starved") -> dict[str, Any]:
    """A long burst: n records (no exception traces, no %-arguments) that are logged back-to-back in one tight loop."""
    rng = random.Random(seedstr)
    specs = []
    for i in range(n):
        sp = gen_spec(rng, i)
        sp.pop("exc", None)
        sp.pop("args", None)
        if sp["m"] == "exception":
            sp["m"] = "error"
        specs.append(sp)
    return {"file_level": rng.choice(["trace", "trace", "debug"]), "logger": rng.choice(LOGGER_NAMES), "specs": specs, "burst": schedule}


def simple_specs(methods: list[str], text: str = "msg") -> list[dict[str, Any]]:
    return [{"i": i, "m": m, "text": f" {text} {i}", "tags": None} for i, m in enumerate(methods)]


def edge_logdefs(tier: str) -> list[dict[str, Any]]:
    out: list[dict[str, Any]] = []
    L = LEVEL_NAMES
    out.append({"file_level": "trace", "logger": "gallia.c17", "specs": simple_specs(["info", "error"])})
    out.append({"file_level": "trace", "logger": "gallia.c17", "specs": []})
    out.append({"file_level": "info", "logger": "gallia.c17", "specs": simple_specs(["debug", "trace", "debug"])})
    for lv in L:
        out.append({"file_level": "trace", "logger": "gallia.c17", "specs": simple_specs([lv])})
    out.append({"file_level": "debug", "logger": "gallia.c17", "specs": simple_specs(["critical", "debug"])})
    out.append({"file_level": "trace", "logger": "gallia.c17", "specs": simple_specs(["warning", "trace", "notice"])})
    out.append({"file_level": "trace", "logger": "gallia.c17", "specs": simple_specs(["info"] * 5)})
    out.append({"file_level": "trace", "logger": "gallia.a.b.c", "specs": simple_specs(L)})
    out.append({"file_level": "trace", "logger": "gallia.a.b.c", "specs": simple_specs(L[::-1])})
    out.append({"file_level": "warning", "logger": "gallia.a.b.c", "specs": simple_specs(L + L[::-1])})
    for n in (99, 100, 101):
        out.append({"file_level": "trace", "logger": "gallia.c17", "specs": simple_specs([L[(i * 5) % 7] for i in range(n)])})
    out.append({"file_level": "trace", "logger": "gallia.c17", "specs": [
        {"i": 0, "m": "info", "text": " multi\nline\r\ntext\u2028end\n", "tags": ["a", "b"]},
        {"i": 1, "m": "exception", "text": " failed", "tags": None, "exc": {"type": "ValueError", "msg": "bad\nvalue", "depth": 2, "chain": True}},
        {"i": 2, "m": "warning", "text": " with exc_info", "tags": ["t"], "exc": {"type": "KeyError", "msg": "k", "depth": 0, "chain": False}},
        {"i": 3, "m": "result", "text": " a result", "tags": ["ignored"]},
        {"i": 4, "m": "info", "text": " formatted 100%", "tags": [], "args": ["50%", 7]},
    ]})
    out.append({"file_level": "trace", "logger": "gallia.c17", "specs": [
        {"i": 0, "m": "info", "text": " before", "tags": None},
        {"i": 1, "m": "notice", "text": " long ascii ", "tags": None, "rep": ["x", 1 << 20]},
        {"i": 2, "m": "debug", "text": " after", "tags": ["z"]},
    ]})
    # logs of several runs joined into one .zst file
    out.append({"file_level": "trace", "logger": "gallia.c17", "specs": simple_specs(["info", "error", "debug", "warning", "info"]), "runs": [2]})
    out.append({"file_level": "trace", "logger": "gallia.c17", "specs": simple_specs(["info", "critical"]), "runs": [1]})
    out.append({"file_level": "trace", "logger": "gallia.a.b.c", "specs": simple_specs(L + L[::-1]), "runs": [3, 3, 9]})
    out.append({"file_level": "trace", "logger": "gallia.c17", "specs": simple_specs(["notice", "trace", "error"]), "runs": [0]})
    out.append({"file_level": "info", "logger": "gallia.c17", "specs": simple_specs(["info", "debug", "trace", "warning", "debug"]), "runs": [1, 3]})
    out.append({"file_level": "trace", "logger": "gallia.c17", "specs": simple_specs([L[(i * 3) % 7] for i in range(120)]), "runs": [100, 119]})
    # two log files open at the same time
    def second(methods: list[str], logger: str, level: str = "trace") -> dict[str, Any]:
        return {"file_level": level, "logger": logger, "specs": [dict(sp, i=SECOND_ID0 + sp["i"]) for sp in simple_specs(methods, "second")]}

    out.append({"file_level": "trace", "logger": "gallia.c17", "specs": simple_specs(["info", "error", "debug"]),
                "pair": {"mode": "separate-loggers", "second": second(["warning", "info"], "c17second"), "events": "A+a ~ B+b ~ a ~ b ~ B-a A-"}})
    out.append({"file_level": "trace", "logger": "gallia.c17", "specs": simple_specs(["info", "notice"]),
                "pair": {"mode": "same-logger", "second": second(["error"], "gallia.a.b.c", "info"), "events": "A+a B+b a A-B-"}})
    out.append({"file_level": "debug", "logger": "gallia.a.b.c", "specs": simple_specs(["critical", "trace", "debug"]),
                "pair": {"mode": "separate-loggers", "second": second(["debug", "trace", "error", "info"], "c17second.a.b"), "events": "B+b ~ A+a b ~ a b A-b a B-"}})
    out.append({"file_level": "trace", "logger": "gallia.c17", "specs": simple_specs([L[(i * 3) % 7] for i in range(60)]),
                "pair": {"mode": "separate-loggers", "second": second([L[(i * 5) % 7] for i in range(30)], "c17second.run.\u00e4"),
                         "events": "A+" + "a " * 20 + "~ B+" + "a b ~ " * 30 + "B-" + "a " * 10 + "A-"}})
    out.append({"file_level": "trace", "logger": "gallia.c17", "specs": simple_specs(["info"]),
                "pair": {"mode": "same-logger", "second": second([], "gallia.c17"), "events": "A+B+a B-A-"}})
    # something is present at the log path when the run starts
    def earlier(methods: list[str], kind: str = "earlier-log", **kw: Any) -> dict[str, Any]:
        return {"kind": kind, "file_level": "trace", "logger": "gallia.c17", "specs": [dict(sp, i=PRE_ID0 + sp["i"]) for sp in simple_specs(methods, "earlier run")], **kw}

    out.append({"file_level": "trace", "logger": "gallia.c17", "specs": simple_specs(["notice", "trace", "warning", "critical"]),
                "preexisting": earlier(["info", "error", "debug"])})
    out.append({"file_level": "trace", "logger": "gallia.c17", "specs": [], "preexisting": earlier(["info", "error", "debug"])})
    out.append({"file_level": "info", "logger": "gallia.a.b.c", "specs": simple_specs(["info", "debug", "error"]), "runs": [1],
                "preexisting": earlier([L[i % 7] for i in range(12)])})
    out.append({"file_level": "trace", "logger": "gallia.c17", "specs": simple_specs(["info", "warning"]),
                "preexisting": {"kind": "stale-bytes", "form": "text", "size": 33, "seed": 1}})
    out.append({"file_level": "trace", "logger": "gallia.c17", "specs": simple_specs(["error"]),
                "preexisting": earlier(["info"] * 40, "truncated-log", keep=0.5)})
    out.append({"file_level": "debug", "logger": "gallia.c17", "specs": simple_specs(["error", "debug", "trace", "info", "notice"]),
                "preexisting": {"kind": "stale-bytes", "form": "plain-log-lines", "size": 500, "seed": 2}})
    out.append({"file_level": "trace", "logger": "gallia.c17", "specs": simple_specs(["info", "info", "debug", "critical"]), "preexisting": {"kind": "empty-file"}})
    out.append({"file_level": "trace", "logger": "gallia.c17", "specs": [
        {"i": 0, "m": "error", "text": " long lines ", "tags": None, "rep": ["line\n", (1 << 16) // 5]},
        {"i": 1, "m": "info", "text": " long astral ", "tags": None, "rep": ["\U0001f600", (1 << 20) if tier == "thorough" else (1 << 18)]},
    ]})
    return out


def marker(i: int) -> str:
    return f"#id{i}#"


def text_of(spec: dict[str, Any]) -> str:
    t = marker(spec["i"]) + spec["text"]
    if spec.get("rep"):
        unit, times = spec["rep"]
        t += unit * int(times)
    return t


def levelno_of(spec: dict[str, Any]) -> int:
    m = spec["m"]
    if m == "result":
        return 25
    if m == "exception":
        return 40
    if m == "log":
        return M.LEVELNO[spec["level"]]
    return M.LEVELNO[m]


# ---------------------------------------------------------------------------------------------
# process-wide state of one shard
class Env:
    ready = False
    scratch: Path
    created: list[tuple[float, int]] = []
    thread_errors: list[str] = []
    local_tz: Any = None
    tz: str | None = None  # TZ of this process (None: what the check was started with)
    tz_class: list[str] = []
    sub_left = 0
    multi_sub_left = 0
    log_no = 0
    companions: list[Any] = []  # earlier logs of this shard kept on disk as further FILE arguments of several-files hr runs
    empty: Any = None  # a log without records written by the real writer


def setup_process(ctx: Any, tz: str | None = None) -> None:
    if Env.ready:
        return
    import datetime
    import logging
    import tempfile

    if tz:
        os.environ["TZ"] = tz
        time.tzset()
    Env.scratch = ctx.mkscratch()
    tmp = Env.scratch / "tmp"
    tmp.mkdir(exist_ok=True)
    tempfile.tempdir = str(tmp)  # PenlogReader's temporary files stay below the scratch directory
    os.environ["TMPDIR"] = str(tmp)
    Env.local_tz = datetime.timezone(datetime.timedelta(seconds=time.localtime().tm_gmtoff))
    Env.tz = tz
    lt = time.localtime()
    off = lt.tm_gmtoff
    side = "utc" if off == 0 else ("east-of-utc" if off > 0 else "west-of-utc")
    Env.tz_class = [side]
    if off % 3600:
        Env.tz_class += ["offset-not-whole-hours", f"{side}.offset-not-whole-hours"]
    elif off:
        Env.tz_class.append(f"{side}.offset-whole-hours")
    if lt.tm_isdst > 0:
        Env.tz_class.append("daylight-saving-time-in-force")

    from gallia.log import ColorMode, Loglevel, get_logger, setup_logging

    # the console handler binds sys.stderr when it is created; keep the shard's stderr quiet
    real_stderr = sys.stderr
    devnull = open(os.devnull, "w")  # noqa: SIM115
    sys.stderr = devnull
    try:
        setup_logging(level=Loglevel.CRITICAL, color_mode=ColorMode.NEVER, no_volatile_info=True)
    finally:
        sys.stderr = real_stderr

    class Shadow(logging.Filter):
        def filter(self, record: logging.LogRecord) -> bool:
            Env.created.append((record.created, record.levelno))
            return True

    sh = Shadow()
    for name in LOGGER_NAMES + SECOND_LOGGER_NAMES:
        get_logger(name).addFilter(sh)
    # the second logger tree: every level enabled (as setup_logging does for 'gallia'), nothing handed on to the root logger
    get_logger(SECOND_ROOT).setLevel(1)
    get_logger(SECOND_ROOT).propagate = False

    def hook(args: Any) -> None:
        Env.thread_errors.append(f"{args.exc_type.__name__}: {args.exc_value}")

    threading.excepthook = hook
    Env.ready = True


class _Raise:
    """Raise-and-catch helper producing traces of some depth, optionally chained."""

    @staticmethod
    def go(exc: dict[str, Any], depth: int) -> None:
        if depth > 0:
            _Raise.go(exc, depth - 1)
            return
        et = {"ValueError": ValueError, "KeyError": KeyError, "OSError": OSError, "ZeroDivisionError": ZeroDivisionError, "UnicodeError": UnicodeError}[exc["type"]]
        if exc.get("chain"):
            try:
                raise RuntimeError("inner " + exc["msg"])
            except RuntimeError as inner:
                raise et(exc["msg"]) from inner
        raise et(exc["msg"])


def run_segments(logdef: dict[str, Any]) -> list[list[dict[str, Any]]]:
    """The record specs of each run of the writer (one run unless the log definition names run boundaries)."""
    specs = logdef["specs"]
    cuts = [0, *[min(max(int(c), 0), len(specs)) for c in logdef.get("runs") or []], len(specs)]
    return [specs[a:b] for a, b in zip(cuts, cuts[1:])]


def prepare_call(lg: Any, spec: dict[str, Any]) -> tuple[Any, tuple[Any, ...], dict[str, Any], dict[str, Any]]:
    """One record spec -> (bound logger method, positional arguments, keyword arguments, shadow entry without time stamp).
    Specs with an exception are not prepared (they need a live exception at call time): see emit_record."""
    m = spec["m"]
    fmt = text_of(spec)
    args = tuple(spec["args"]) if spec.get("args") else ()
    if args:
        fmt = fmt.replace("%", "%%") + " v=%s n=%d"
        text = fmt % args
    else:
        text = fmt
    tags = spec.get("tags")
    levelno = levelno_of(spec)
    fn = lg.log if m == "log" else getattr(lg, m)
    pre = (levelno,) if m == "log" else ()
    entry = {"id": spec["i"], "text": text, "levelno": levelno, "prio": M.PRIO_OF_LEVELNO[levelno],
             "tags": ["result"] if m == "result" else (list(tags) if tags is not None else None), "trace": None}
    return fn, (*pre, fmt, *args), {"extra": {"tags": list(tags)} if tags is not None else None}, entry


def emit_record(lg: Any, spec: dict[str, Any]) -> dict[str, Any]:
    """Log one record spec through the logger `lg`; return its shadow entry (time stamp taken from the Shadow filter)."""
    fn, pos, kw, entry = prepare_call(lg, spec)
    n0 = len(Env.created)
    if spec.get("exc"):
        try:
            _Raise.go(spec["exc"], int(spec["exc"].get("depth", 0)))
        except Exception:
            trace = "".join(traceback.format_exception(*sys.exc_info()))
            if trace.endswith("\n"):
                trace = trace[:-1]
            entry["trace"] = trace
            if spec["m"] == "exception":
                fn(*pos, **kw)
            else:
                fn(*pos, exc_info=True, **kw)
    else:
        fn(*pos, **kw)
    if len(Env.created) != n0 + 1:
        raise RuntimeError(f"shadow capture out of step: {len(Env.created) - n0} stamps for one record")
    created, lno = Env.created[-1]
    if lno != entry["levelno"]:
        raise RuntimeError("shadow capture out of step (level)")
    entry["created"] = created
    return entry


def place_preexisting(pre: dict[str, Any], paths: list[Path]) -> dict[str, Any]:
    """History before the run: leave a file at every path the run is going to log to -> facts for the reach counters.
    The log of an earlier run is written by the real writer (its own handler lifetime, ended before the run starts)."""
    from gallia.log import Loglevel, add_zst_log_handler, get_logger, remove_zst_log_handler

    kind = pre["kind"]
    facts = {"kind": kind, "earlier_records": 0, "bytes": 0}
    for path in paths:
        if kind in ("earlier-log", "truncated-log"):
            lg = get_logger(pre["logger"])
            handler = add_zst_log_handler("gallia", path, Loglevel(M.LEVELNO[pre["file_level"]]))
            try:
                entries = [emit_record(lg, spec) for spec in pre["specs"]]
            finally:
                remove_zst_log_handler("gallia", handler)
            facts["earlier_records"] = len(M.written(entries, M.LEVELNO[pre["file_level"]]))
            if kind == "truncated-log":
                data = path.read_bytes()
                path.write_bytes(data[:min(int(len(data) * float(pre["keep"])), len(data) - 1)])
        elif kind == "stale-bytes":
            path.write_bytes(stale_bytes(pre))
        else:
            path.write_bytes(b"")
        facts["bytes"] = path.stat().st_size
    return facts


def write_log(logdef: dict[str, Any], paths: list[Path]) -> list[dict[str, Any]]:
    """Log the specs through gallia's logger + zstd handler, one handler lifetime and one file per run; return the shadow list."""
    from gallia.log import Loglevel, add_zst_log_handler, get_logger, remove_zst_log_handler

    lg = get_logger(logdef["logger"])
    Env.created.clear()
    Env.thread_errors.clear()
    shadow: list[dict[str, Any]] = []
    segments = run_segments(logdef)
    assert len(segments) == len(paths)
    for run_no, (segment, path) in enumerate(zip(segments, paths)):
        handler = add_zst_log_handler("gallia", path, Loglevel(M.LEVELNO[logdef["file_level"]]))
        try:
            for spec in segment:
                entry = emit_record(lg, spec)
                entry["run"] = run_no
                shadow.append(entry)
        finally:
            remove_zst_log_handler("gallia", handler)
    if len(Env.created) != len(shadow):
        raise RuntimeError(f"shadow capture out of step: {len(Env.created)} stamps for {len(shadow)} records")
    return shadow


class _Quiet:
    """sys.stderr replacement while records are written: the logging module reports its own errors there."""

    def __init__(self) -> None:
        self.head = ""
        self.chars = 0

    def write(self, s: str) -> int:
        self.chars += len(s)
        if len(self.head) < 1500:
            self.head += s[:1500]
        return len(s)

    def flush(self) -> None:
        pass


def settle(handlers: Any) -> None:
    """Wait (bounded) until the writer threads of these log file handlers have handled everything logged so far.  Only selects a
    schedule; where the handler does not show its queue the harness just sleeps a little."""
    for h in handlers:
        q = getattr(getattr(h, "queue_listener", None), "queue", None)
        if q is None or not hasattr(q, "unfinished_tasks"):
            time.sleep(0.003)
            continue
        end = time.monotonic() + 2.0
        while q.unfinished_tasks and time.monotonic() < end:
            time.sleep(0.0003)


def _under(logger_name: str, root: str) -> bool:
    return logger_name == root or logger_name.startswith(root + ".")


def write_pair(logdef: dict[str, Any], path_a: Path, path_b: Path) -> tuple[list[dict[str, Any]], list[dict[str, Any]], dict[str, Any]]:
    """Two log files that are open at the same time, written in the event order of logdef['pair'] -> (shadow list of the log itself,
    shadow list of the second log, facts for the reach counters).  A record belongs into a file iff it was logged while the file's
    handler was installed, on a logger at or below the one the handler is attached to (Python's logging propagation)."""
    from gallia.log import Loglevel, add_zst_log_handler, get_logger, remove_zst_log_handler

    pair = logdef["pair"]
    sec = pair["second"]
    root = {"A": "gallia", "B": "gallia" if pair["mode"] == "same-logger" else SECOND_ROOT}
    lgname = {"A": logdef["logger"], "B": sec["logger"]}
    lg = {k: get_logger(v) for k, v in lgname.items()}
    level = {"A": Loglevel(M.LEVELNO[logdef["file_level"]]), "B": Loglevel(M.LEVELNO[sec["file_level"]])}
    path = {"A": path_a, "B": path_b}
    todo = {"A": iter(logdef["specs"]), "B": iter(sec["specs"])}
    shadow: dict[str, list[dict[str, Any]]] = {"A": [], "B": []}
    handler: dict[str, Any] = {}
    facts = {"before": 0, "during_own": 0, "during_other": 0, "after": 0, "closed_first": "", "opened_first": "", "idle_at_second_open": False}
    seen_both = False
    settled_with = -1  # number of records logged when the writer threads were last waited for
    logged = 0
    Env.created.clear()
    Env.thread_errors.clear()
    errors: list[BaseException] = []
    try:
        for ev in pair_events(pair):
            if ev == "~":
                settle(handler.values())
                settled_with = logged
            elif ev in ("A+", "B+"):
                if len(handler) == 1 and settled_with == logged and any(shadow[k] for k in handler):
                    facts["idle_at_second_open"] = True  # the open file has records and its writer thread has handled all of them
                handler[ev[0]] = add_zst_log_handler(root[ev[0]], path[ev[0]], level[ev[0]])
                facts["opened_first"] = facts["opened_first"] or ev[0]
                seen_both = seen_both or len(handler) == 2
            elif ev in ("A-", "B-"):
                facts["closed_first"] = facts["closed_first"] or ev[0]
                remove_zst_log_handler(root[ev[0]], handler.pop(ev[0]))
            else:
                src = ev.upper()
                entry = emit_record(lg[src], next(todo[src]))
                entry["run"] = 0
                logged += 1
                for k in handler:
                    if _under(lgname[src], root[k]):
                        shadow[k].append(entry)
                        if len(handler) == 2:
                            facts["during_own" if k == src else "during_other"] += 1
                        else:
                            facts["after" if seen_both else "before"] += 1
    finally:
        for k in list(handler):
            try:
                remove_zst_log_handler(root[k], handler.pop(k))
            except Exception as e:  # the other file is closed all the same
                errors.append(e)
    if errors:
        raise errors[0]
    if next(todo["A"], None) is not None or next(todo["B"], None) is not None:
        raise RuntimeError("pair events do not log every record spec")
    return shadow["A"], shadow["B"], facts


def write_burst(logdef: dict[str, Any], path: Path) -> tuple[list[dict[str, Any]], dict[str, Any]]:
    """All records of the log in one tight loop (every call prepared beforehand, nothing awaited, no harness work in between)
    -> (shadow list, facts).  facts['backlog'] = the largest number of records seen waiting for the writer thread (sampled).

    logdef['burst'] == 'writer-starved': the schedule in which the writer thread does not get to run while the burst is logged (a
    legal schedule of the two threads - a busy producer, a writer blocked on a slow disk); the harness selects it by raising the
    interpreter's thread switch interval for the duration of the loop, so the situation does not depend on the load of the machine.
    'free-running': the threads are scheduled as usual."""
    from gallia.log import Loglevel, add_zst_log_handler, get_logger, remove_zst_log_handler

    lg = get_logger(logdef["logger"])
    calls = [prepare_call(lg, spec) for spec in logdef["specs"]]
    Env.created.clear()
    Env.thread_errors.clear()
    quiet = _Quiet()
    backlog = -1
    handler = add_zst_log_handler("gallia", path, Loglevel(M.LEVELNO[logdef["file_level"]]))
    try:
        waiting = handler.queue_listener.queue.qsize  # only for the reach counter: how far the writer thread is behind
        waiting()
    except Exception:
        waiting = None
    real_stderr = sys.stderr
    sys.stderr = quiet  # type: ignore[assignment]
    t0 = time.monotonic()
    interval = sys.getswitchinterval()
    try:
        if logdef["burst"] == "writer-starved":
            sys.setswitchinterval(60.0)
        i = 0
        for fn, pos, kw, _ in calls:
            fn(*pos, **kw)
            i += 1
            if not i & 511 and waiting is not None:
                backlog = max(backlog, waiting())
        if waiting is not None:
            backlog = max(backlog, waiting())
        t1 = time.monotonic()
    finally:
        sys.setswitchinterval(interval)
        try:
            remove_zst_log_handler("gallia", handler)
        finally:
            sys.stderr = real_stderr
    if len(Env.created) != len(calls):
        raise RuntimeError(f"shadow capture out of step: {len(Env.created)} stamps for {len(calls)} records")
    shadow = []
    for (_, _, _, entry), (created, lno) in zip(calls, Env.created):
        if lno != entry["levelno"]:
            raise RuntimeError("shadow capture out of step (level)")
        entry["created"] = created
        entry["run"] = 0
        shadow.append(entry)
    return shadow, {"backlog": backlog, "burst_s": round(t1 - t0, 3), "stderr_chars": quiet.chars, "stderr_head": quiet.head[:600]}


# ---------------------------------------------------------------------------------------------
# .zst of several frames / .gz of several members, derived from the decompressed bytes
def _one_zstd_frame(piece: bytes, rng: random.Random) -> tuple[bytes, bool]:
    """One complete zstd frame holding `piece` -> (frame, content size announced in the frame header)."""
    import zstandard

    kw = {"level": rng.choice([1, 3, 3, 6]), "write_checksum": rng.random() < 0.5}
    if rng.random() < 0.5:
        return zstandard.ZstdCompressor(**kw).compress(piece), True
    buf = io.BytesIO()  # streamed: the frame header carries no content size (what a writer that does not know the length emits)
    w = zstandard.ZstdCompressor(**kw).stream_writer(buf, closefd=False)
    step = rng.choice([len(piece) or 1, 4096, 100])
    for a in range(0, len(piece), step):
        w.write(piece[a:a + step])
        if rng.random() < 0.2:
            w.flush(zstandard.FLUSH_BLOCK)
    w.close()
    return buf.getvalue(), False


def split_into_parts(raw: bytes, rng: random.Random) -> tuple[list[bytes], str]:
    """>= 2 pieces whose concatenation is `raw` -> (pieces, how the cut points were chosen)."""
    ends = [m.end() for m in re.finditer(rb"\n", raw)]  # every record is one line: ends of the records
    inner = ends[:-1] if ends and ends[-1] == len(raw) else ends
    k = rng.randrange(100)
    if inner and len(ends) <= 400 and k < 20:
        how, cuts = "one-part-per-record", inner
    elif inner and k < 65:
        how, cuts = "cut-at-record-boundary", sorted(set(rng.choice(inner) for _ in range(rng.choice([1, 1, 2, 3, 5]))))
    elif len(raw) >= 2 and k < 90:
        how, cuts = "cut-inside-record", sorted(set(rng.randrange(1, len(raw)) for _ in range(rng.choice([1, 1, 2, 3]))))
        if all(c in ends for c in cuts):
            how = "cut-at-record-boundary"
    else:
        how, cuts = "empty-part", []
    pieces = [raw[a:b] for a, b in zip([0, *cuts], [*cuts, len(raw)])]
    if how == "empty-part" or rng.random() < 0.15:
        # a part without content (a run that logged nothing, joined with the others)
        pieces.insert(rng.choice([0, len(pieces), rng.randint(0, len(pieces))]), b"")
        if len(pieces) < 2:
            pieces.append(b"")
    return pieces, how


def parts_info(pieces: list[bytes], how: str) -> dict[str, Any]:
    first_end = len(pieces[0])
    total = sum(len(x) for x in pieces)
    return {"how": how, "parts": len(pieces), "empty_part": any(not x for x in pieces),
            # some record starts after the end of the first part (something is left to read there)
            "content_after_first_part": total > first_end, "first_part_empty": first_end == 0 and total > 0}


class LogState:
    def __init__(self, logdef: dict[str, Any], regen: dict[str, Any] | None = None):
        self.logdef = logdef
        self.regen = regen
        self.paths: dict[str, Path] = {}
        self.all: list[dict[str, Any]] = []
        self.N = 0
        self.raw = b""
        self.hash = 0
        self.dir: Path | None = None
        self.runs = 1  # number of runs of the real writer whose files were joined into paths["zst"]
        self.parts: dict[str, dict[str, Any]] = {}  # container -> how the file is divided into frames / members
        self.situation = ""  # "two-logs-open": written while another log file of this process was open; "burst": written in one tight loop
        self.read = ""  # "second": this state describes the second log of logdef["pair"], not the log itself
        self.second: LogState | None = None
        self.alone: Any = None  # control: the same records written with no other log open (LogState, False = could not be built)
        self.facts: dict[str, Any] = {}
        self.unterminated = False  # the "*-unterminated" containers really lack the newline after the last record (the log has records)
        self.edited: set[int] = set()  # ids of the records of which the consumer (harness) edited a copy it was handed by an earlier reading

    def witness_log(self) -> dict[str, Any]:
        specs = self.logdef["specs"]
        extra: dict[str, Any] = {"read": self.read} if self.read else {}
        if Env.tz:
            extra["tz"] = Env.tz
        if len(specs) <= 150 or self.regen is None:
            return dict(self.logdef, **extra)
        return {"file_level": self.logdef["file_level"], "logger": self.logdef["logger"], "regen": self.regen,
                "n_specs": len(specs), "specs_head": specs[:5], **extra}


class _NullCtx:
    """Collector for control experiments (a log written once more in another way): nothing is counted or reported."""

    tier = "quick"

    def reach(self, *a: Any, **k: Any) -> None:
        pass

    def violation(self, *a: Any, **k: Any) -> None:
        pass

    case = trace = sample = evals = reach


PRE_KIND_NAME = {"earlier-log": "log-of-an-earlier-run", "truncated-log": "truncated-log-of-an-earlier-run", "stale-bytes": "not-a-zstd-file", "empty-file": "empty-file"}
SITUATION_KEY = {"two-logs-open": "two-logs-open", "burst": "long-burst", "pre-existing-file": "file-exists-at-log-path"}


def build_log(ctx: Any, logdef: dict[str, Any], regen: dict[str, Any] | None = None) -> LogState | None:
    """Write the log with the real writer and derive the other containers. None if the writer failed (reported).
    A log with a 'pair' also writes the second log that is open at the same time; its state is left in `.second`."""
    from vf.runner import h64

    st = LogState(logdef, regen)
    Env.log_no += 1
    d = Env.scratch / f"log{Env.log_no}"
    d.mkdir(exist_ok=True)
    st.dir = d
    zst = d / "log.json.zst"
    st.hash = h64(repr((logdef["file_level"], logdef["logger"], logdef["specs"], *([logdef["runs"]] if logdef.get("runs") else []),
                        *([logdef["pair"]] if logdef.get("pair") else []), *([logdef["burst"]] if logdef.get("burst") else []),
                        *([logdef["preexisting"]] if logdef.get("preexisting") else []))))
    st.runs = len(run_segments(logdef)) if not (logdef.get("pair") or logdef.get("burst")) else 1
    run_files = [zst] if st.runs == 1 else [d / f"run{r}.json.zst" for r in range(st.runs)]
    pre = logdef.get("preexisting") if not (logdef.get("pair") or logdef.get("burst")) else None
    st.situation = "two-logs-open" if logdef.get("pair") else ("burst" if logdef.get("burst") else ("pre-existing-file" if pre else ""))
    where = "writer/" + (SITUATION_KEY[st.situation] + "/" if st.situation else "")
    shadow_b = None
    facts: dict[str, Any] = {}
    pre_facts: dict[str, Any] = {}
    try:
        if pre:
            pre_facts = place_preexisting(pre, run_files)
        if logdef.get("pair"):
            Env.log_no += 1
            d2 = Env.scratch / f"log{Env.log_no}"
            d2.mkdir(exist_ok=True)
            shadow, shadow_b, facts = write_pair(logdef, zst, d2 / "log.json.zst")
        elif logdef.get("burst"):
            shadow, facts = write_burst(logdef, zst)
            st.facts = facts
        else:
            shadow = write_log(logdef, run_files)
    except RuntimeError:
        raise
    except Exception as e:
        ctx.violation(f"{where}raises-{type(e).__name__}", f"logging a generated record sequence raises {type(e).__name__}",
                      {"log": st.witness_log(), "error": repr(e)[:400]})
        return None
    if Env.thread_errors:
        ctx.violation(f"{where}listener-thread/raises-{Env.thread_errors[0].split(':')[0]}", "the log writer thread died with an exception",
                      {"log": st.witness_log(), "error": Env.thread_errors[0][:400]})
    if logdef.get("pair"):
        pair = logdef["pair"]
        ctx.reach("writer.two-logs-open")
        ctx.reach(f"writer.two-logs-open.{pair['mode']}")
        if facts["before"]:
            ctx.reach("writer.two-logs-open.records-before-the-later-log-is-opened")
        if facts["during_own"]:
            ctx.reach("writer.two-logs-open.records-while-both-are-open")
        if facts["during_other"]:
            ctx.reach("writer.two-logs-open.record-belongs-into-both-files")
        if facts["after"]:
            ctx.reach("writer.two-logs-open.records-after-one-log-is-closed")
        ctx.reach("writer.two-logs-open.closed-in-" + ("opening-order" if facts["closed_first"] == facts["opened_first"] else "reverse-order-(nested)"))
        if facts["opened_first"] == "B":
            ctx.reach("writer.two-logs-open.judged-log-opened-second")
        if facts["idle_at_second_open"]:
            ctx.reach("writer.two-logs-open.later-log-opened-with-writer-of-the-earlier-idle-after-records")
        if "~" in pair["events"]:
            ctx.reach("writer.two-logs-open.with-waits-for-the-writer-threads")
        else:
            ctx.reach("writer.two-logs-open.without-waits")
        st2 = LogState(logdef, regen)
        st2.read = "second"
        st2.dir = d2
        st2.situation = st.situation
        st2.hash = h64(("second", st.hash))
        if finish_log(ctx, st2, shadow_b or [], [d2 / "log.json.zst"], pair["second"]["file_level"], pair["second"]["specs"]):
            st.second = st2
            if st2.N:
                ctx.reach("writer.two-logs-open.second-log-has-records")
        else:
            drop_log(st2)
    if pre:
        base = "writer.file-exists-at-log-path"
        ctx.reach(base)
        ctx.reach(f"{base}.{PRE_KIND_NAME[pre['kind']]}")
        if pre["kind"] == "earlier-log" and pre_facts["earlier_records"]:
            ctx.reach(f"{base}.earlier-log-has-records")
            if pre_facts["earlier_records"] > len(logdef["specs"]):
                ctx.reach(f"{base}.earlier-log-has-more-records-than-this-run-logs")
        if pre_facts["bytes"]:
            ctx.reach(f"{base}.file-not-empty")
            if not logdef["specs"]:
                ctx.reach(f"{base}.file-not-empty.this-run-logs-nothing")
            if st.runs > 1:
                ctx.reach(f"{base}.file-not-empty.log-written-in-several-runs")
    if logdef.get("burst"):
        ctx.reach("writer.burst")
        ctx.reach(f"writer.burst.{logdef['burst']}")
        n = len(logdef["specs"])
        if n >= 20000:
            ctx.reach("writer.burst.ge-20000-records")
        if facts["backlog"] * 2 >= n:
            ctx.reach("writer.burst.writer-thread-behind-by-half-the-burst")
        if facts["backlog"] * 10 >= n * 9:
            ctx.reach("writer.burst.writer-thread-behind-by-nine-tenths-of-the-burst")
    if not finish_log(ctx, st, shadow, run_files, logdef["file_level"], logdef["specs"]):
        drop_log(st)
        return None
    return st


def content_failure(st: LogState) -> tuple[str, str] | None:
    """The decompressed bytes of the file (harness side, zstandard library) hold the marker of every expected record once, in order?"""
    got = [int(x) for x in MARK.findall(st.raw.decode("utf-8", "replace"))]
    want = [e["id"] for e in st.all]
    if got == want:
        return None
    pos = next((i for i, (g, w) in enumerate(zip(got, want)) if g != w), min(len(got), len(want)))
    return (f"file-content/{M.classify(got, want)}",
            f"{len(want)} records expected in the file, {len(got)} found; first difference at position {pos}: got ids {got[pos:pos + 12]} want {want[pos:pos + 12]}")


def report_writer_failure(ctx: Any, st: LogState, kind: str, detail: str) -> None:
    """The file left by the writer is wrong as such (before any reader is involved).  For a log written in a special situation a
    control decides whether the situation is part of the mechanism."""
    where = "writer/"
    if st.situation and not isinstance(ctx, _NullCtx):
        if st.situation == "two-logs-open":
            control = written_alone(st)  # the same records with this file as the only open one
            ok = control is not None and content_failure(control) is None
        elif st.situation == "pre-existing-file":
            # the same log written to a path at which nothing is present
            control = build_log(_NullCtx(), {k: v for k, v in st.logdef.items() if k != "preexisting"})
            ok = control is not None and content_failure(control) is None
            if control is not None:
                drop_log(control)
        else:
            # the first 5000 records of the same burst, written the same way
            control = build_log(_NullCtx(), dict(st.logdef, specs=st.logdef["specs"][:5000]))
            ok = control is not None
            if control is not None:
                drop_log(control)
        if ok:
            where += SITUATION_KEY[st.situation] + "/"
    what = {"file-not-decodable": "the .zst file left by the writer cannot be decompressed"}.get(
        kind, "the .zst file left by the writer does not hold exactly the records that were logged to it")
    ctx.violation(where + kind, what, {"log": st.witness_log(), "detail": detail[:600], "records_expected": st.N, **({"burst": st.facts} if st.facts else {})})


def finish_log(ctx: Any, st: LogState, shadow: list[dict[str, Any]], run_files: list[Path], file_level: str, specs: list[dict[str, Any]]) -> bool:
    """Shadow list -> expected file content; decompress what the writer left and derive the other containers from it."""
    import zstandard

    logdef = {"file_level": file_level}
    d = st.dir
    assert d is not None
    zst = d / "log.json.zst"
    st.all = M.written(shadow, M.LEVELNO[file_level])
    st.N = len(st.all)
    if len(shadow) != st.N:
        ctx.reach("log.file_level_drops")
    run_raw = []
    for rf in run_files:
        try:
            with zstandard.open(rf, "rb") as f:
                run_raw.append(f.read())
        except (zstandard.ZstdError, OSError, EOFError) as e:
            report_writer_failure(ctx, st, "file-not-decodable", repr(e))
            return False
    st.raw = b"".join(run_raw)
    if st.situation:
        bad = content_failure(st)
        if bad is not None:
            report_writer_failure(ctx, st, *bad)
            return False
    if st.runs > 1:
        # `cat run0.json.zst run1.json.zst ... > log.json.zst`: one zstd frame per run, decodes to the concatenation (RFC 8878, 3.1)
        zst.write_bytes(b"".join(rf.read_bytes() for rf in run_files))
        st.parts["zst"] = parts_info(run_raw, "one-part-per-run")
        ctx.reach("log.written-in-several-runs")
        if st.parts["zst"]["content_after_first_part"]:
            ctx.reach("log.written-in-several-runs.records-after-first-run")
        if st.parts["zst"]["empty_part"]:
            ctx.reach("log.written-in-several-runs.run-without-records")
    (d / "log.json").write_bytes(st.raw)
    prng = random.Random(f"C17/parts/{st.hash}")
    pieces, how = split_into_parts(st.raw, prng)
    frames = [_one_zstd_frame(x, prng) for x in pieces]
    (d / "frames.json.zst").write_bytes(b"".join(fr for fr, _ in frames))
    st.parts["zst-frames"] = dict(parts_info(pieces, how), no_content_size=any(not known for _, known in frames))
    pieces, how = split_into_parts(st.raw, prng)
    (d / "members.json.gz").write_bytes(b"".join(gzip.compress(x, compresslevel=prng.choice([1, 6]), mtime=0) for x in pieces))
    st.parts["gz-members"] = parts_info(pieces, how)
    with gzip.open(d / "log.json.gz", "wb", compresslevel=1) as g:
        g.write(st.raw)
    (d / "noprefix.json").write_bytes(re.sub(rb"(?m)^<\d+>", b"", st.raw))
    # both line forms in one file (e.g. concatenated or partly post-processed logs): the prefix is dropped from every line whose
    # index has an odd number of set bits, so prefixed and prefix-less lines follow each other in both directions
    mixed = [re.sub(rb"^<\d+>", b"", ln) if bin(i).count("1") % 2 else ln for i, ln in enumerate(st.raw.splitlines(keepends=True))]
    (d / "mixedprefix.json").write_bytes(b"".join(mixed))
    # the same lines, the last one not followed by a newline (what printf, jq -j or a copy that stops with the last byte leave)
    cut = st.raw[:-1] if st.raw.endswith(b"\n") else st.raw
    st.unterminated = bool(cut) and cut != st.raw
    (d / "unterminated.json").write_bytes(cut)
    with gzip.open(d / "unterminated.json.gz", "wb", compresslevel=1) as g:
        g.write(cut)
    st.paths = {"zst": zst, "plain": d / "log.json", "gz": d / "log.json.gz", "noprefix": d / "noprefix.json", "mixedprefix": d / "mixedprefix.json",
                "zst-frames": d / "frames.json.zst", "gz-members": d / "members.json.gz",
                "stdin-file": d / "log.json", "stdin-pipe": d / "log.json",
                "plain-unterminated": d / "unterminated.json", "gz-unterminated": d / "unterminated.json.gz",
                "stdin-pipe-unterminated": d / "unterminated.json"}
    # reach counters of the workload (what was actually written)
    ctx.reach(f"file_level.{logdef['file_level']}")
    ctx.reach("log.len" + (str(st.N) if st.N <= 2 else "_other"))
    if st.N >= 100:
        ctx.reach("log.len_ge100")
    if st.N >= 1000:
        ctx.reach("log.len_ge1000")
    for e in st.all:
        t = e["text"]
        ctx.reach("level." + LEVEL_NAMES[[5, 10, 20, 25, 30, 40, 50].index(e["levelno"])])
        ctx.reach("tags.none" if e["tags"] is None else ("tags.empty" if not e["tags"] else "tags.some"))
        if len(t) >= (1 << 20):
            ctx.reach("text.long_1m")
        if len(t) >= (1 << 16):
            ctx.reach("text.long_64k")
        else:
            if any(c in t for c in ("\n", "\r", "\u2028", "\x85")):
                ctx.reach("text.newline")
            if any(ord(c) < 32 and c not in "\n\r" for c in t):
                ctx.reach("text.control")
            if any(ord(c) > 0xFFFF for c in t):
                ctx.reach("text.astral")
            if '"' in t or "\\" in t:
                ctx.reach("text.json_special")
    for spec in specs:
        if spec["m"] == "result":
            ctx.reach("method.result")
        if spec.get("args"):
            ctx.reach("method.args")
        if spec.get("exc"):
            ctx.reach("exc.exception" if spec["m"] == "exception" else "exc.exc_info")
    return True


def drop_log(st: LogState) -> None:
    for other in (st.alone, st.second):
        if isinstance(other, LogState):
            drop_log(other)
    st.alone = st.second = None
    if st.dir is not None and st.dir.is_dir():
        for p in st.dir.iterdir():
            try:
                p.unlink()
            except OSError:
                pass
        try:
            st.dir.rmdir()
        except OSError:
            pass


# ---------------------------------------------------------------------------------------------
# executing one case
class OutputLimit(Exception):
    pass


class LimitedOut(io.StringIO):
    def __init__(self, limit: int):
        super().__init__()
        self.limit = limit
        self.n = 0

    def write(self, s: str) -> int:
        self.n += len(s)
        if self.n > self.limit:
            raise OutputLimit()
        return super().write(s)


def hr_argv(cand: dict[str, Any], path_arg: str | list[str]) -> list[str]:
    """path_arg: one FILE argument, or the list of FILE arguments of a several-files invocation (mode 'multi-files')."""
    a: list[str] = []
    if cand.get("pspec") is not None:
        a += [cand.get("popt", "-p"), cand["pspec"]]
    mode = cand.get("submode", cand["mode"])
    if mode == "head":
        a.append("--head")
    elif mode == "tail":
        a.append(cand.get("topt", "--tail"))
    elif mode == "reverse":
        a.append(cand.get("ropt", "--reverse"))
    if cand.get("n") is not None:
        a += [cand.get("nopt", "-n"), str(cand["n"])]
    if cand.get("color"):
        a += ["--color", cand["color"]]
    if isinstance(path_arg, list):
        return a + path_arg
    a.append(path_arg)
    if mode == "multi":
        a.append(path_arg)
    return a


def _phase_of_tb(tb: Any, mode: str) -> str:
    while tb is not None:
        co = tb.tb_frame.f_code
        if co.co_name in ("__init__", "_prepare_for_mmap", "_test_mmap") and co.co_filename.endswith("log.py"):
            return "open"
        tb = tb.tb_next
    return mode


def exec_hr_inproc(st: LogState | None, cand: dict[str, Any], files: list[tuple[LogState, str]] | None = None) -> dict[str, Any]:
    """files: the (log, container) pairs of a several-files invocation (then `st` is not used)."""
    from gallia.cli import hr

    if files is not None:
        c, stdin = "", False
        argv = hr_argv(cand, [str(f.paths[fc]) for f, fc in files])
        entries = [e for f, _ in files for e in f.all]
    else:
        assert st is not None
        c = cand["container"]
        stdin = c.startswith("stdin")
        argv = hr_argv(cand, "-" if stdin else str(st.paths[c]))
        entries = st.all
    limit = 4 * (sum(len(e["text"]) + len(e["trace"] or "") + 300 for e in entries) * (2 if cand["mode"] == "multi" else 1)) + (1 << 16)
    out = LimitedOut(limit)
    err = io.StringIO()
    old = (sys.argv, sys.stdout, sys.stderr)
    saved_fd = None
    feeder = None
    res: dict[str, Any] = {"argv": argv, "rc": None, "exc": None, "phase": cand["mode"]}
    try:
        if stdin:
            saved_fd = os.dup(0)
            assert st is not None
            if c == "stdin-file":
                fd = os.open(st.paths[c], os.O_RDONLY)
                os.dup2(fd, 0)
                os.close(fd)
            else:
                r, w = os.pipe()
                os.dup2(r, 0)
                os.close(r)
                data = st.raw if c == "stdin-pipe" else st.paths[c].read_bytes()

                def feed() -> None:
                    try:
                        with os.fdopen(w, "wb") as f:
                            f.write(data)
                    except OSError:
                        pass

                feeder = threading.Thread(target=feed, daemon=True)
                feeder.start()
        sys.argv, sys.stdout, sys.stderr = ["hr", *argv], out, err
        try:
            hr.main()
            res["rc"] = 0
        except SystemExit as e:
            res["rc"] = e.code if e.code is not None else 0
        except OutputLimit:
            res["exc"] = "OutputUnbounded"
        except Exception as e:
            res["exc"] = type(e).__name__
            res["error"] = repr(e)[:300]
            res["phase"] = _phase_of_tb(e.__traceback__, cand["mode"])
    finally:
        sys.argv, sys.stdout, sys.stderr = old
        if saved_fd is not None:
            os.dup2(saved_fd, 0)
            os.close(saved_fd)
        if feeder is not None:
            feeder.join(timeout=20)
    res["stdout"] = out.getvalue()
    res["stderr"] = err.getvalue()[-600:]
    if res["rc"] == 2 and "usage:" in res["stderr"]:
        raise RuntimeError(f"harness built an argv that hr's parser rejects: {argv}: {res['stderr']}")
    return res


def exec_hr_subprocess(st: LogState | None, cand: dict[str, Any], files: list[tuple[LogState, str]] | None = None) -> dict[str, Any]:
    from vf.runner import REPO

    if files is not None:
        c, stdin = "", False
        argv = hr_argv(cand, [str(f.paths[fc]) for f, fc in files])
    else:
        assert st is not None
        c = cand["container"]
        stdin = c.startswith("stdin")
        argv = hr_argv(cand, "-" if stdin else str(st.paths[c]))
    env = dict(os.environ)
    env["PYTHONPATH"] = str(REPO / "src")
    env["PYTHONUTF8"] = "1"
    env["PYTHONDONTWRITEBYTECODE"] = "1"
    res: dict[str, Any] = {"argv": argv, "rc": None, "exc": None, "phase": cand["mode"], "stdout": "", "stderr": ""}
    kw: dict[str, Any] = {}
    fh = None
    if c == "stdin-file":
        assert st is not None
        fh = open(st.paths[c], "rb")  # noqa: SIM115
        kw["stdin"] = fh
    elif c.startswith("stdin-pipe"):
        assert st is not None
        kw["input"] = st.raw if c == "stdin-pipe" else st.paths[c].read_bytes()
    else:
        kw["stdin"] = subprocess.DEVNULL
    try:
        cp = subprocess.run([PY, "-m", "gallia.cli.hr", *argv], capture_output=True, timeout=120, env=env, cwd=str(Env.scratch), **kw)
    except subprocess.TimeoutExpired:
        res["exc"] = "Timeout"
        return res
    finally:
        if fh is not None:
            fh.close()
    res["rc"] = cp.returncode
    try:
        res["stdout"] = cp.stdout.decode("utf-8")
    except UnicodeDecodeError:
        res["exc"] = "StdoutNotUTF8"
        return res
    stderr = cp.stderr.decode("utf-8", "replace")
    res["stderr"] = stderr[-600:]
    if cp.returncode != 0 and "Traceback (most recent call last)" in stderr:
        last = stderr.strip().splitlines()[-1]
        m = re.match(r"([A-Za-z_][\w.]*)(:|$)", last)
        res["exc"] = (m.group(1).split(".")[-1] if m else "Exception")
        res["error"] = last[:300]
        if re.search(r"log\.py\", line \d+, in (__init__|_prepare_for_mmap|_test_mmap)", stderr):
            res["phase"] = "open"
    if cp.returncode == 2 and "usage:" in stderr:
        raise RuntimeError(f"harness built an argv that hr's parser rejects: {argv}: {stderr}")
    return res


def exec_reader(st: LogState, cand: dict[str, Any], reader: Any = None) -> dict[str, Any]:
    """One reader operation; with `reader` given the same object is reused (history cases)."""
    from gallia.log import PenlogPriority, PenlogReader

    mode = cand["mode"]
    res: dict[str, Any] = {"exc": None, "phase": mode, "records": None, "len": None}
    own = reader is None
    if own:
        try:
            reader = PenlogReader(st.paths[cand["container"]])
        except Exception as e:
            res.update(exc=type(e).__name__, error=repr(e)[:300], phase="open")
            return res
    try:
        if mode == "len":
            res["len"] = len(reader)
            return res
        p = PenlogPriority(cand["p"])
        if mode == "iter-len":
            # an iteration in progress, len(reader) asked after k records (a progress display), then the iteration goes on
            d = cand["dir"]
            if d == "forward":
                gen = reader.records(priority=p)
            elif d == "reverse":
                gen = reader.records(priority=p, offset=-1, reverse=True)
            else:
                gen = reader.records(priority=p, offset=cand["off"])
            limit = 3 * st.N + 10
            recs = list(itertools.islice(gen, cand["k"]))
            res["consumed_before_len"] = len(recs)
            if cand.get("call_len", True):
                res["len"] = len(reader)
            recs += list(itertools.islice(gen, limit))
            if len(recs) >= limit:
                res["exc"] = "DoesNotTerminate"
            res["records"] = recs
            return res
        if mode in ("forward", "partial"):
            gen = reader.records(priority=p)
        elif mode == "reverse-default":
            gen = reader.records(priority=p, reverse=True)
        elif mode == "reverse":
            gen = reader.records(priority=p, offset=-1, reverse=True)
        elif mode == "offset":
            gen = reader.records(priority=p, offset=cand["k"])
        elif mode == "reverse-from":
            gen = reader.records(priority=p, offset=cand["k"], reverse=True)
        else:
            raise ValueError(mode)
        limit = cand["j"] if mode == "partial" else 3 * st.N + 10
        recs = list(itertools.islice(gen, limit))
        if mode != "partial" and len(recs) >= limit:
            res["exc"] = "DoesNotTerminate"
        res["records"] = recs
    except Exception as e:
        res.update(exc=type(e).__name__, error=repr(e)[:300])
    finally:
        if own:
            try:
                reader.close()
            except Exception:
                pass
    return res


# ---------------------------------------------------------------------------------------------
# comparing
def rec_id(data: Any) -> int:
    m = MARK.match(data) if isinstance(data, str) else None
    return int(m.group(1)) if m else -1


def merged(e: dict[str, Any]) -> str:
    """Text and trace as Python's logging.Formatter joins them (no extra newline after a text ending in one)."""
    return e["text"] + ("" if e["text"].endswith("\n") else "\n") + e["trace"]


def field_diffs(rec: Any, e: dict[str, Any]) -> list[tuple[str, str]]:
    """Fields of one PenlogRecord that differ from the shadow entry -> [(field, detail)]."""
    out: list[tuple[str, str]] = []
    data, st_ = rec.data, rec.stacktrace
    if e["trace"] is None:
        if data != e["text"]:
            out.append(("text", f"got {data[:200]!r} want {e['text'][:200]!r}"))
        if st_ is not None:
            out.append(("stacktrace", f"unexpected stack trace {st_[:100]!r}"))
    else:
        sep_ok = data == e["text"] and st_ == e["trace"]
        merged_ok = data == merged(e) and st_ is None
        if not (sep_ok or merged_ok):
            if not data.startswith(e["text"]):
                out.append(("text", f"got {data[:200]!r} want {e['text'][:200]!r}"))
            else:
                out.append(("stacktrace", f"trace neither in stacktrace nor appended: data tail {data[len(e['text']):][:200]!r} stacktrace {str(st_)[:100]!r}"))
    try:
        pv = int(rec.priority)
    except Exception:
        pv = -1
    if pv != e["prio"] or (rec._python_level_no is not None and rec._python_level_no != e["levelno"]):
        out.append(("level", f"got priority {rec.priority!r}/levelno {rec._python_level_no!r} want {e['prio']}/{e['levelno']}"))
    if rec.tags != e["tags"]:
        out.append(("tags", f"got {rec.tags!r} want {e['tags']!r}"))
    try:
        ts = rec.datetime.timestamp()
        if rec.datetime.tzinfo is None or abs(ts - e["created"]) > 1.5e-6:
            out.append(("timestamp", f"got {rec.datetime!r} ({ts!r}) want created={e['created']!r}"))
    except Exception as ex:
        out.append(("timestamp", f"unusable datetime {rec.datetime!r}: {ex!r}"))
    return out


def carries_consumer_edit(rec: Any) -> bool:
    """Does this record object show what the harness wrote into the records of an earlier reading?"""
    data, tags = getattr(rec, "data", None), getattr(rec, "tags", None)
    return (isinstance(data, str) and EDIT_STAMP in data) or (isinstance(tags, list) and EDIT_TAG in tags)


def consumer_edits(st: LogState, recs: list[Any] | None, local: set[int] | None = None) -> tuple[bool, bool]:
    """The harness as the consumer of a reading: it post-processes the record objects it was handed - its own objects, and only after
    they have been judged: text redacted (the marker stays), a tag added (in place where the record has a tag list), priority escalated
    to the most severe one (so that no filter hides the record), time stamp and stack trace replaced.  The log is what the file holds: every
    later reading (this reader object, a fresh one, hr, another container with the same lines) must be unaffected.
    -> (some record of this reading had been edited after an earlier reading of this log, ... after an earlier reading noted in `local`)"""
    import datetime

    again = again_local = False
    if not recs:
        return again, again_local
    stamp_time = datetime.datetime(2001, 2, 3, 4, 5, 6, tzinfo=datetime.timezone.utc)
    edited = st.edited
    for r in recs:
        try:
            data = r.data
            m = MARK.match(data) if isinstance(data, str) else None
            if m:
                i = int(m.group(1))
                if i in edited:
                    again = True
                    if local is not None and i in local:
                        again_local = True
                else:
                    edited.add(i)
                if local is not None:
                    local.add(i)
            r.data = (m.group(0) if m else "") + EDIT_STAMP
            if isinstance(r.tags, list):
                r.tags.append(EDIT_TAG)
            else:
                r.tags = [EDIT_TAG]
            r.priority = type(r.priority)(0)
            r._python_level_no = 50
            r.datetime = stamp_time
            r.stacktrace = "edited"
        except Exception:  # an object that is no record at all has been reported by the oracle already
            pass
    return again, again_local


def walk_hr_stdout(stdout: str, exp: list[dict[str, Any]]) -> tuple[str, str] | None:
    """Detailed check of hr's output once the marker sequence is right -> (kind, detail) or None."""
    import datetime

    cur = 0
    for e in exp:
        mk = marker(e["id"])
        pos = stdout.find(mk, cur)
        if pos < 0:
            return ("missing-records", f"marker {mk} not found after offset {cur}")
        header = stdout[cur:pos]
        text = e["text"]
        if not stdout.startswith(text, pos):
            return ("text-differs", f"record {mk}: got {stdout[pos:pos + 200]!r} want {text[:200]!r}")
        if e["trace"] is None:
            forms = [text + "\n"]
        else:  # trace merged into the text by the queue handler, or printed from a separate stacktrace field
            forms = [merged(e) + "\n", text + "\n\n" + e["trace"] + "\n", text + "\n\n" + e["trace"]]
        form = next((f for f in forms if stdout.startswith(f, pos)), None)
        if form is None:
            kind = "text-differs" if e["trace"] is None else "stacktrace-differs"
            return (kind, f"record {mk}: text not followed by newline/trace: {stdout[pos + len(text):pos + len(text) + 200]!r}")
        cur = pos + len(form)
        tod = datetime.datetime.fromtimestamp(e["created"], tz=Env.local_tz).strftime("%H:%M:%S")
        if tod not in header:
            return ("timestamp-differs", f"record {mk}: time of day {tod} not in header {header[-200:]!r}")
        at = 0
        for tg in e["tags"] or []:
            at = header.find(tg, at)
            if at < 0:
                return ("tags-differ", f"record {mk}: tag {tg!r} not in header {header[-200:]!r}")
            at += len(tg)
    if cur != len(stdout):
        return ("trailing-output", f"unexpected output after the last record: {stdout[cur:cur + 200]!r}")
    return None


def cond_of(st: LogState, cand: dict[str, Any]) -> str:
    if st.N == 0:
        return "empty-log"
    if cand["mode"] in ("head", "tail"):
        n = cand["n"] if cand.get("n") is not None else M.HR_DEFAULT_LINES
        return M.n_condition(st.N, n)
    return ""


def evaluate(st: LogState, cand: dict[str, Any], res: dict[str, Any]) -> tuple[str, str, str] | None:
    """Decide one executed case -> None (agrees with the model) or (key-without-container-suffix, what, detail)."""
    comp = "hr" if cand["component"].startswith("hr") else "reader"
    mode = cand["mode"]
    cond = cond_of(st, cand)

    def key(phase: str, kind: str, with_cond: bool = True) -> str:
        return "/".join(x for x in (comp, phase, cond if with_cond else "", kind) if x)

    if res.get("exc"):
        return (key(res["phase"], f"raises-{res['exc']}"), f"{comp} {mode}: {res['exc']} ({cond or 'any log'})", res.get("error", ""))
    if comp == "reader":
        if mode == "len":
            if res["len"] != st.N:
                return (key("len", "wrong-count"), "len(PenlogReader) differs from the number of records written", f"got {res['len']} want {st.N}")
            return None
        p = cand["p"]
        acc = M.accepted(st.all, mode, p, k=cand.get("k"))
        got = [rec_id(r.data) for r in res["records"]]
        match = next((a for a in acc if [e["id"] for e in a] == got), None)
        if match is None:
            want = [e["id"] for e in acc[0]]
            kind = M.classify(got, want, bounded=mode in ("offset", "reverse-from"))
            return (key(mode, kind), f"reader {mode}: {kind}", f"got ids {got[:40]} want {want[:40]}")
        for r, e in zip(res["records"], match):
            d = field_diffs(r, e)
            if d:
                return (f"reader/record/{d[0][0]}-differs", f"a record read back differs in {d[0][0]}", f"id {e['id']}: {d[0][1]}")
        return None
    # hr
    if res["rc"] != 0:
        return (key(mode, f"exit-code-{res['rc']}"), f"hr {mode} exits with {res['rc']}", res.get("stderr", "")[-300:])
    p = M.pspec_to_prio(cand.get("pspec"))
    n = cand.get("n") if cand.get("n") is not None else M.HR_DEFAULT_LINES
    acc = M.accepted(st.all, mode, p, n=n)
    got = [int(x) for x in MARK.findall(res["stdout"])]
    match = next((a for a in acc if [e["id"] for e in a] == got), None)
    if match is None:
        want = [e["id"] for e in acc[0]]
        kind = M.classify(got, want, bounded=mode == "head")
        return (key(mode, kind), f"hr {mode}: {kind}", f"got ids {got[:40]} want {want[:40]}")
    w = walk_hr_stdout(res["stdout"], match)
    if w:
        return (f"hr/record/{w[0]}", f"hr prints a record differently: {w[0]}", w[1])
    return None


def execute(st: LogState, cand: dict[str, Any]) -> dict[str, Any]:
    comp = cand["component"]
    if comp == "reader":
        return exec_reader(st, cand)
    if comp == "hr":
        return exec_hr_inproc(st, cand)
    return exec_hr_subprocess(st, cand)


def parts_class(container: str, info: dict[str, Any]) -> str:
    return "zst-of-several-runs" if info["how"] == "one-part-per-run" else SEVERAL_PARTS[container]


def reach_parts(ctx: Any, base: str, st: LogState, container: str) -> None:
    """Reach counters of a case whose input file consists of several zstd frames / gzip members."""
    info = st.parts.get(container)
    if info is None:
        return
    cls = parts_class(container, info)
    ctx.reach(f"{base}.{cls}")
    ctx.reach(f"{base}.{cls}.{info['how']}")
    if info["content_after_first_part"]:
        ctx.reach(f"{base}.{cls}.content-after-first-part")
    if info["empty_part"]:
        ctx.reach(f"{base}.{cls}.part-without-content")
    if info["first_part_empty"]:
        ctx.reach(f"{base}.{cls}.first-part-without-content")
    if info.get("no_content_size"):
        ctx.reach(f"{base}.{cls}.frame-without-content-size")


def written_alone(st: LogState) -> LogState | None:
    """Control for a log written while a second one was open: the records expected in this file, logged once more (one handler, no
    other log file open).  Built once per log and kept until the log is dropped."""
    if st.alone is None:
        ld = st.logdef
        by_id = {sp["i"]: sp for sp in ld["specs"] + ld["pair"]["second"]["specs"]}
        level = ld["pair"]["second"]["file_level"] if st.read == "second" else ld["file_level"]
        try:
            st.alone = build_log(_NullCtx(), {"file_level": level, "logger": LOGGER_NAMES[0], "specs": [by_id[e["id"]] for e in st.all]}) or False
        except Exception:
            st.alone = False
    return st.alone or None


def cand_ident(cand: dict[str, Any]) -> tuple[Any, ...]:
    return tuple(sorted((k, str(v)) for k, v in cand.items()))


def run_case(ctx: Any, st: LogState, cand: dict[str, Any]) -> None:
    comp = cand["component"]
    mode = cand["mode"]
    trivial = st.N == 1 and mode == "forward" and (cand.get("p") == 8 or M.pspec_to_prio(cand.get("pspec")) == 8)
    ctx.case((st.hash, cand_ident(cand)), nontrivial=not trivial)
    res = execute(st, cand)
    verdict = evaluate(st, cand, res)
    # reach: what this case exercised
    base = "hr" if comp.startswith("hr") else "reader"
    ctx.reach(f"{base}.{mode}")
    ctx.reach(f"{base}.container.{cand['container']}")
    if st.N == 0:
        ctx.reach(f"{base}.empty_log")
    reach_parts(ctx, base, st, cand["container"])
    # the consumer of an earlier reading edited the record objects it was handed: does this reading show those edits?
    shows_edits = False
    if base == "reader":
        shows_edits = verdict is not None and any(carries_consumer_edit(r) for r in res.get("records") or [])
        # ... and now the harness edits the records of this reading (they have been judged)
        if res.get("records"):
            ctx.reach("reader.caller-edits-the-records-it-was-handed")
            if consumer_edits(st, res["records"])[0]:
                ctx.reach("reader.reread-after-caller-edit")
                if cand["container"] != "zst":
                    ctx.reach("reader.reread-after-caller-edit.other-container-with-the-same-lines")
    elif comp == "hr" and st.edited:
        out = res.get("stdout") or ""
        shows_edits = verdict is not None and (EDIT_STAMP in out or EDIT_TAG in out)
        if any(int(m.group(1)) in st.edited for m in MARK.finditer(out)):
            ctx.reach("hr.read-after-caller-edit")
    if cand["container"].endswith("-unterminated") and st.unterminated:
        ctx.reach(f"{base}.{UNTERMINATED}")
        from_end = mode in ("reverse", "reverse-default", "tail") or (mode == "offset" and cand["k"] < 0)
        if mode == "len" or from_end:
            ctx.reach(f"{base}.{UNTERMINATED}.{'len' if mode == 'len' else 'read-from-the-end'}")
            if st.N == 1:
                ctx.reach(f"{base}.{UNTERMINATED}.log-of-one-record.len-or-read-from-the-end")
        if cand["container"].startswith("stdin"):
            ctx.reach(f"{base}.{UNTERMINATED}.stdin")
    if base == "reader":
        if "p" in cand:
            ctx.reach(f"reader.prio.{cand['p']}")
            sel = len(M.flt(st.all, cand["p"]))
        else:
            sel = st.N
        if mode == "offset":
            ctx.reach("reader.offset.pos" if cand["k"] >= 0 else "reader.offset.neg")
    else:
        ps = cand.get("pspec")
        ctx.reach("hr.default_priority" if ps is None else ("hr.prio_num" if ps.isdigit() else "hr.prio_name"))
        sel = len(M.flt(st.all, M.pspec_to_prio(ps)))
        if mode in ("head", "tail"):
            if cand.get("n") is None:
                ctx.reach("hr.default_lines")
            if st.N:
                ctx.reach(f"hr.{mode}.{cond_of(st, cand)}")
            if mode == "tail":
                n = cand["n"] if cand.get("n") is not None else M.HR_DEFAULT_LINES
                if len(M.accepted(st.all, "tail", M.pspec_to_prio(ps), n=n)) > 1:
                    ctx.reach("hr.tail.readings_differ")
        if comp == "hr-subprocess":
            ctx.reach("hr.subprocess")
            if cand["container"].startswith("stdin"):
                ctx.reach(f"hr.subprocess.{cand['container']}")
    if st.N and sel == 0:
        ctx.reach("filter.drops_all")
    elif sel < st.N:
        ctx.reach("filter.drops_some")
    if any(e["trace"] for e in st.all):
        ctx.reach("trace.observed")
    ctx.trace((base, mode, cond_of(st, cand), cand["container"], verdict[0] if verdict else "ok"))
    if verdict is None:
        return
    k, what, detail = verdict
    if shows_edits:
        # what this reading yields is not what the file holds but what an earlier consumer wrote into ITS copies of the records (the
        # marks of the harness are in the result): object state shared between readings.  The controls below would all read the same
        # lines again in this process and see the same, so they are not asked.
        ctx.violation(f"{base}/reading-after-caller-edit/yields-the-records-as-edited-by-the-consumer-of-an-earlier-reading",
                      f"{base} {mode}: the records carry the edits that the consumer of an earlier reading of this log made to the objects it was handed",
                      {"log": st.witness_log(), "case": cand, "argv": res.get("argv"), "detail": f"first difference: {k}: {detail[:500]}",
                       "n_records_in_file": st.N, "records_edited_before": len(st.edited),
                       "prelude": "a forward reading of the .zst file by a consumer that edits the records it was handed"})
        return
    # Is the subprocess / the container part of the mechanism?  Ask the same question in-process and on the
    # primary container (.zst): the same failure there means it is not.
    suffix = ""
    inproc = "hr" if comp.startswith("hr") else "reader"
    if comp == "hr-subprocess":
        ic = dict(cand, component="hr")
        iv = evaluate(st, ic, execute(st, ic))
        if iv is None or iv[0] != k:
            suffix = "/only-subprocess"
    if not suffix and cand["container"] != "zst":
        bc = dict(cand, component=inproc, container="zst")
        bv = evaluate(st, bc, execute(st, bc))
        if bv is None or bv[0] != k:
            suffix = f"/only-{cand['container']}"
    if not suffix and st.runs > 1 and cand["container"] in ("zst", "zst-frames"):
        # the .zst of this log is the joined output of several runs: the same question on the decompressed bytes
        pc = dict(cand, component=inproc, container="plain")
        pv = evaluate(st, pc, execute(st, pc))
        if pv is None or pv[0] != k:
            suffix = "/only-zst-of-several-runs"
    if not suffix and st.situation == "two-logs-open":
        # is the second log file that was open at the same time part of the mechanism?  The records expected in this file, logged once
        # more with this file as the only open one: the same question asked there
        alone = written_alone(st)
        if alone is not None:
            ac = dict(cand, component=inproc)
            av = evaluate(alone, ac, execute(alone, ac))
            if av is None or av[0] != k:
                suffix = "/only-with-two-logs-open"
    elif not suffix and st.situation == "burst" and "k" not in cand:
        # is the burst part of the mechanism?  The first and the last 150 records of the same log, written record by record: the same question there
        if st.alone is None:
            try:
                st.alone = build_log(_NullCtx(), {"file_level": st.logdef["file_level"], "logger": st.logdef["logger"], "specs": st.logdef["specs"][:150] + st.logdef["specs"][-150:]}) or False
            except Exception:
                st.alone = False
        if st.alone:
            ac = dict(cand, component=inproc)
            av = evaluate(st.alone, ac, execute(st.alone, ac))
            if av is None or av[0] != k:
                suffix = "/only-in-long-burst"
    ctx.violation(k + suffix, what, {"log": st.witness_log(), "case": cand, "argv": res.get("argv"), "detail": detail[:600],
                                      "n_records_in_file": st.N, **({"burst": st.facts} if st.facts else {})})


# ---------------------------------------------------------------------------------------------
# reuse of one reader object (histories)
def gen_iter_len_op(st: LogState, rng: random.Random, direction: str | None = None) -> dict[str, Any]:
    """len(reader) asked in the middle of an iteration: after k delivered records of a forward / reverse / offset pass."""
    p = rng.choice([8, 8, 8, rng.randrange(9)])
    d = direction or rng.choice(["forward", "forward", "reverse", "offset"])
    op: dict[str, Any] = {"mode": "iter-len", "dir": d, "p": p}
    if d == "offset":
        op["off"] = rng.randrange(-st.N, st.N)
    sel = len(M.accepted(st.all, d, p, k=op.get("off"))[0])
    op["k"] = rng.choice([0, 1, 1, 2, sel // 2, max(sel - 1, 0), sel, rng.randint(0, sel)])
    return op


def eval_iter_len(st: LogState, cand: dict[str, Any], res: dict[str, Any]) -> tuple[str, str, str] | None:
    """The sequence delivered around the len() call must be the full expected slice, and len() the record count."""
    d = cand["dir"]
    if res.get("exc"):
        return (f"raises-{res['exc']}", f"{d} iteration with len() in between: {res['exc']}", res.get("error", ""))
    want_e = M.accepted(st.all, d, cand["p"], k=cand.get("off"))[0]
    want = [e["id"] for e in want_e]
    got = [rec_id(r.data) for r in res["records"]]
    if cand.get("call_len", True) and res["len"] != st.N:
        return ("wrong-count", "len(reader) asked during an iteration differs from the number of records", f"got {res['len']} want {st.N}")
    if got != want:
        kind = M.classify(got, want, bounded=False)
        return (kind, f"{d} iteration with len() asked after {res.get('consumed_before_len')} records: {kind}",
                f"len() after {res.get('consumed_before_len')} records; got ids {got[:40]} want {want[:40]}")
    for r, e in zip(res["records"], want_e):
        fd = field_diffs(r, e)
        if fd:
            return (f"{fd[0][0]}-differs", f"a record delivered after the len() call differs in {fd[0][0]}", f"id {e['id']}: {fd[0][1]}")
    return None


def gen_history_op(st: LogState, rng: random.Random) -> dict[str, Any]:
    k = rng.randrange(10)
    p = rng.choice([8, 8, 8, rng.randrange(9)])
    if rng.random() < 0.25:
        return gen_iter_len_op(st, rng)
    if k < 2:
        return {"mode": "len"}
    if k < 4:
        return {"mode": "forward", "p": p}
    if k < 6:
        return {"mode": "partial", "p": 8, "j": rng.randint(1, st.N)}
    if k < 9:
        return {"mode": "offset", "p": p, "k": rng.randrange(-st.N, st.N)}
    return {"mode": "reverse", "p": p}


def gen_second_reader_op(other: LogState, rng: random.Random) -> dict[str, Any]:
    """One operation on the second live reader object (mostly the ones that navigate by record index)."""
    k = rng.randrange(20)
    p = rng.choice([8, 8, 8, rng.randrange(9)])
    if k < 6:
        op: dict[str, Any] = {"mode": "len"}
    elif k < 12:
        op = {"mode": "offset", "p": p, "k": rng.randrange(-other.N, other.N)}
    elif k < 15:
        op = {"mode": "reverse", "p": p}
    elif k < 17:
        op = {"mode": "forward", "p": p}
    elif k < 18:
        op = {"mode": "partial", "p": 8, "j": rng.randint(1, other.N)}
    else:
        op = gen_iter_len_op(other, rng)
    op["on"] = "B"
    return op


def interleave_second_reader(ops: list[dict[str, Any]], other: LogState, rng: random.Random) -> list[dict[str, Any]]:
    """Operations on a second live reader (marked on='B') before, between and after the operations of the history; one of the
    gaps between two operations of the first reader always gets one."""
    must = rng.randrange(1, len(ops)) if len(ops) > 1 else 0
    out: list[dict[str, Any]] = []
    for g in range(len(ops) + 1):
        if g == must or rng.random() < 0.45:
            out += [gen_second_reader_op(other, rng) for _ in range(rng.choice([1, 1, 2]))]
        if g < len(ops):
            out.append(ops[g])
    return out


def random_access(op: dict[str, Any]) -> bool:
    """Does the operation address a record by its index (anything but reading forward from the first record)?"""
    return op["mode"] in ("len", "reverse", "iter-len") or (op["mode"] == "offset" and op["k"] != 0)


HISTORY_OPNAME = {"partial": "forward", "offset": "seek", "reverse": "seek", "iter-len": "len-during-iteration"}


def exec_history(ctx: Any, st: LogState, ops: list[dict[str, Any]], other: LogState | None = None, other_container: str = "zst",
                 container: str = "zst") -> tuple[str, str, str, int, str] | None:
    """Run the operations on one reader object of `st` (and, for operations marked on='B', on a second reader object that is open on
    `other` at the same time; every reader is judged against its own log) -> None or (key, what, detail, index of the failing
    operation, 'A'|'B')."""
    from gallia.log import PenlogReader

    target = {"A": st, "B": other}
    cont = {"A": container, "B": other_container}
    readers: dict[str, Any] = {}
    read_before = {"A": False, "B": False}
    table_needed_before = {"A": False, "B": False}  # did an earlier operation on this reader need the offset table (len, seek, reverse)?
    used = {"A": False, "B": False}
    ra_seq: list[str] = []  # the readers that were asked for a record by index so far, in order
    edited_here: dict[str, set[int]] = {"A": set(), "B": set()}  # ids of the records this reader object handed out and the harness then edited

    def edit(who: str, tst: LogState, res: dict[str, Any]) -> None:
        """The consumer edits the records this operation handed to it (they have been judged)."""
        if res.get("records"):
            again, again_here = consumer_edits(tst, res["records"], edited_here[who])
            if again:
                ctx.reach("reader.reuse.reread-after-caller-edit")
            if again_here:
                ctx.reach("reader.reuse.reread-after-caller-edit.same-reader-object")

    def edits_shown(key: str, res: dict[str, Any]) -> str:
        """The failure key, unless the result carries the marks the harness left in the records of an earlier reading."""
        if any(carries_consumer_edit(r) for r in res.get("records") or []):
            return "reader/reuse/reading-after-caller-edit/yields-the-records-as-edited-by-the-consumer-of-an-earlier-reading"
        return key
    try:
        try:
            readers["A"] = PenlogReader(st.paths[container])
            if other is not None:
                readers["B"] = PenlogReader(other.paths[other_container])
        except Exception:
            return None  # opening is judged by the fresh-reader cases
        for idx, op in enumerate(ops):
            who = op.get("on", "A")
            tst, reader = target[who], readers[who]
            assert tst is not None
            cand = {"component": "reader", "container": cont[who], **{k: v for k, v in op.items() if k != "on"}}
            if other is not None:
                if who == "B":
                    ctx.reach("reader.two-readers-open.operation-on-second-reader")
                if random_access(op):
                    if who in ra_seq and ra_seq[-1] != who:
                        ctx.reach("reader.two-readers-open.record-index-used-again-after-the-other-reader-used-one")
                        if op["mode"] == "len":
                            ctx.reach("reader.two-readers-open.len-again-after-the-other-reader-used-a-record-index")
                    ra_seq.append(who)
            res = exec_reader(tst, cand, reader=reader)
            first_use = not used[who]
            used[who] = True
            if op["mode"] == "iter-len":
                d = op["dir"]
                if who == "A":
                    ctx.reach(f"reader.reuse.len-during-{d}-iteration")
                    sel = len(M.accepted(tst.all, d, op["p"], k=op.get("off"))[0])
                    if 0 < op["k"] < sel:
                        ctx.reach(f"reader.reuse.len-during-{d}-iteration.records-before-and-after")
                        if d == "forward" and not table_needed_before[who]:
                            ctx.reach("reader.reuse.first-len-during-forward-iteration")
                v = eval_iter_len(tst, cand, res)
                if v is not None:
                    key = f"reader/reuse/len-during-iteration/{d}/{v[0]}"
                    # control: the same pass on a fresh reader without the len() call; the same failure there is not about len()
                    ctl = dict(cand, call_len=False)
                    cres = exec_reader(tst, ctl)
                    cv = eval_iter_len(tst, ctl, cres)
                    if cv is not None and cv[0] == v[0]:
                        key = f"reader/{d}/{v[0]}"
                    return (edits_shown(key, res), f"reused reader object: operation {idx}: {v[1]}", v[2], idx, who)
                edit(who, tst, res)
                read_before[who] = True
                table_needed_before[who] = True
                continue
            if op["mode"] in ("len", "offset", "reverse"):
                table_needed_before[who] = True
            if op["mode"] == "partial":
                got = [rec_id(r.data) for r in (res["records"] or [])]
                want = [e["id"] for e in tst.all[: op["j"]]]
                verdict = None if (not res["exc"] and got == want) else ("reader/forward/" + (f"raises-{res['exc']}" if res["exc"] else M.classify(got, want)), "partial forward read", f"got {got[:40]} want {want[:40]}")
            else:
                verdict = evaluate(tst, cand, res)
            if verdict is not None:
                if first_use:
                    key = verdict[0]
                else:
                    # len needs the offset table, offset/reverse seek through it, forward reading does not use it
                    opname = HISTORY_OPNAME.get(op["mode"], op["mode"])
                    kind = verdict[0].rsplit("/", 1)[-1]
                    if not kind.startswith("raises-") and kind != "wrong-count":
                        kind = "wrong-result"
                    key = f"reader/reuse/{opname}-after-{'read' if read_before[who] else 'len'}/{kind}"
                return (edits_shown(key, res), f"reused reader object: operation {idx} ({op['mode']}) disagrees with the model", verdict[2], idx, who)
            edit(who, tst, res)
            if op["mode"] != "len":
                read_before[who] = True
        return None
    finally:
        for r in readers.values():
            try:
                r.close()
            except Exception:
                pass


def run_history(ctx: Any, st: LogState, rng: random.Random, ops: list[dict[str, Any]] | None = None, lead: str | None = None,
                other: LogState | None = None, other_container: str = "zst") -> None:
    """lead: 'iter-len' makes the first operation a forward pass with len() asked inside it (the offset table has not been
    built by anything before).  other: a second reader object is open on that log (container other_container) for the whole history and
    is used between the operations of the first one (operations marked on='B'); it is judged against its own log."""
    if st.N == 0 or (other is not None and other.N == 0):
        return
    if ops is None:
        ops = []
        if lead == "iter-len":
            ops.append(gen_iter_len_op(st, rng, "forward"))
        for _ in range(rng.randint(2, 5) - len(ops)):
            ops.append(gen_history_op(st, rng))
        if other is not None:
            ops = interleave_second_reader(ops, other, rng)
    ident = tuple(cand_ident(o) for o in ops)
    ctx.case((st.hash, "history", ident) if other is None else (st.hash, "history", other.hash, other_container, ident))
    ctx.reach("reader.reuse")
    if st.runs > 1:
        ctx.reach("reader.reuse.zst-of-several-runs")
        if st.parts["zst"]["content_after_first_part"]:
            ctx.reach("reader.reuse.zst-of-several-runs.content-after-first-part")
    if other is not None:
        ctx.reach("reader.two-readers-open")
        if other.N != st.N:
            ctx.reach("reader.two-readers-open.logs-of-different-lengths")
    fail = exec_history(ctx, st, ops, other, other_container)
    if fail is None:
        ctx.trace(("history", "ok", tuple(("B:" if o.get("on") == "B" else "") + o["mode"] for o in ops)))
        return
    key, what, detail, idx, who = fail
    wit: dict[str, Any] = {"log": st.witness_log(), "history": ops[: idx + 1], "failing_op": idx, "detail": detail[:600], "n_records_in_file": st.N}
    if other is not None:
        # control: is the second live reader part of the mechanism?  The operations of the failing reader alone, on a fresh reader
        # object with no other reader open: the same failure there is not about two readers
        solo = [{k: v for k, v in o.items() if k != "on"} for o in ops[: idx + 1] if o.get("on", "A") == who]
        tst = st if who == "A" else other
        c = exec_history(_NullCtx(), tst, solo, container="zst" if who == "A" else other_container)
        kind = key.rsplit("/", 1)[-1]
        if c is not None and c[0].rsplit("/", 1)[-1] == kind:
            key = c[0]
        else:
            if not kind.startswith("raises-") and kind != "wrong-count":
                kind = "wrong-result"
            key = f"reader/two-readers-open/{HISTORY_OPNAME.get(ops[idx]['mode'], ops[idx]['mode'])}/{kind}"
            what = f"two reader objects open on different logs: operation {idx} ({ops[idx]['mode']}, {'first' if who == 'A' else 'second'} reader) disagrees with the model of its own log"
        wit.update(other_log=other.witness_log(), other_container=other_container, n_records_in_other_file=other.N, failing_reader="first" if who == "A" else "second")
    if "/reading-after-caller-edit/" in key:
        what = "reused reader object: the records carry the edits that the consumer of an earlier reading of this log made to the objects it was handed"
        wit["prelude"] = "a forward reading of the .zst file by a consumer that edits the records it was handed"
    ctx.violation(key, what, wit)
    ctx.trace(("history", key))


# ---------------------------------------------------------------------------------------------
# hr with several different files on one command line
MAX_COMPANIONS = 3


def retire_log(st: LogState) -> None:
    """Keep a moderately sized log as a companion for later several-files runs; drop the one it replaces."""
    if st is Env.empty or any(st is c for c in Env.companions):
        return
    if st.N > 400 or len(st.raw) > (1 << 18) or any(c.N == st.N for c in Env.companions):
        drop_log(st)
        return
    Env.companions.append(st)
    while len(Env.companions) > MAX_COMPANIONS:
        drop_log(Env.companions.pop(0))


def drop_companions() -> None:
    for c in Env.companions:
        drop_log(c)
    Env.companions.clear()
    if Env.empty is not None:
        drop_log(Env.empty)
        Env.empty = None


def single_of(cand: dict[str, Any], container: str) -> dict[str, Any]:
    """The one-file invocation with the same options."""
    d = {k: v for k, v in cand.items() if k not in ("files", "submode")}
    d.update(component="hr", container=container, mode=cand["submode"])
    return d


def evaluate_multi(files: list[tuple[LogState, str]], cand: dict[str, Any], res: dict[str, Any]) -> tuple[str, str, str] | None:
    """Oracle: the output is the concatenation of the per-file slices."""
    sub = cand["submode"]

    def key(phase: str, kind: str) -> str:
        return f"hr/{phase}/multiple-files/{kind}"

    lens = [f.N for f, _ in files]
    if res.get("exc"):
        return (key(res["phase"] if res["phase"] != "multi-files" else sub, f"raises-{res['exc']}"), f"hr {sub} over {len(files)} files: {res['exc']}", res.get("error", ""))
    if res["rc"] != 0:
        return (key(sub, f"exit-code-{res['rc']}"), f"hr {sub} over {len(files)} files exits with {res['rc']}", res.get("stderr", "")[-300:])
    p = M.pspec_to_prio(cand.get("pspec"))
    n = cand.get("n") if cand.get("n") is not None else M.HR_DEFAULT_LINES
    per_file = [M.accepted(f.all, sub, p, n=n) for f, _ in files]
    got = [int(x) for x in MARK.findall(res["stdout"])]
    match = M.match_concatenation(got, per_file)
    if match is None:
        want = [e["id"] for alts in per_file for e in alts[0]]
        kind = M.classify(got, want, bounded=sub == "head")
        return (key(sub, kind), f"hr {sub} over several files: the output is not the concatenation of the per-file slices ({kind})",
                f"file lengths {lens} n={cand.get('n')} got ids {got[:60]} want {want[:60]}")
    w = walk_hr_stdout(res["stdout"], match)
    if w:
        return (f"hr/record/{w[0]}", f"hr prints a record differently: {w[0]}", w[1])
    return None


def run_multi_case(ctx: Any, files: list[tuple[LogState, str]], cand: dict[str, Any]) -> None:
    sub = cand["submode"]
    lens = [f.N for f, _ in files]
    ctx.case((tuple(f.hash for f, _ in files), cand_ident(cand)))
    res = exec_hr_subprocess(None, cand, files) if cand["component"] == "hr-subprocess" else exec_hr_inproc(None, cand, files)
    ctx.reach("hr.multi-files")
    ctx.reach(f"hr.multi-files.{sub}")
    if cand["component"] == "hr-subprocess":
        ctx.reach("hr.multi-files.subprocess")
    if any(f.parts.get(c, {}).get("content_after_first_part") for f, c in files):
        ctx.reach("hr.multi-files.file-of-several-parts")
    if len(set(lens)) > 1:
        ctx.reach("hr.multi-files.different-lengths")
    if lens[0] == 0 and max(lens) > 0:
        ctx.reach("hr.multi-files.empty-file-first")
    if sub in ("head", "tail"):
        n = cand["n"] if cand.get("n") is not None else M.HR_DEFAULT_LINES
        if M.clamp_leak_possible(lens, n):
            ctx.reach(f"hr.multi-files.{sub}.earlier-file-shorter-than-n-and-than-later-file")
    verdict = evaluate_multi(files, cand, res)
    ctx.trace(("hr", "multi-files", sub, len(files), verdict[0] if verdict else "ok"))
    if verdict is None:
        return
    k, what, detail = verdict
    logs: list[LogState] = []
    refs = []
    for f, c in files:
        if not any(f is x for x in logs):
            logs.append(f)
        refs.append([next(i for i, x in enumerate(logs) if x is f), c])
    if any(f.edited for f in logs) and cand["component"] == "hr" and (EDIT_STAMP in res.get("stdout", "") or EDIT_TAG in res.get("stdout", "")):
        # hr prints what the consumer of an earlier reading wrote into its copies of the records (see run_case)
        ctx.violation("hr/reading-after-caller-edit/yields-the-records-as-edited-by-the-consumer-of-an-earlier-reading",
                      f"hr {sub} over several files: the records carry the edits that the consumer of an earlier reading made to the objects it was handed",
                      {"logs": [x.witness_log() for x in logs], "case": dict(cand, files=refs), "argv": res.get("argv"),
                       "detail": f"first difference: {k}: {detail[:500]}", "n_records_in_files": lens,
                       "prelude": "a forward reading of every .zst file by a consumer that edits the records it was handed"})
        return
    # control: every file alone with the same options; a failure there is not about several files
    for f, c in files:
        sc = single_of(cand, c)
        sv = evaluate(f, sc, execute(f, sc))
        if sv is not None:
            k, what, detail = sv[0], sv[1], f"(also with this file alone) {sv[2]}"
            break
    ctx.violation(k, what, {"logs": [x.witness_log() for x in logs], "case": dict(cand, files=refs), "argv": res.get("argv"), "detail": detail[:600],
                            "n_records_in_files": lens})


def run_multi_files(ctx: Any, st: LogState, rng: random.Random, count: int = 6) -> None:
    """hr invocations naming several different files (this log, earlier logs of the shard, an empty log) in head/tail/plain/
    reverse mode."""
    if len(st.raw) > (1 << 19):
        return
    if Env.empty is None:
        Env.empty = build_log(ctx, {"file_level": "trace", "logger": "gallia.c17", "specs": []})
        if Env.empty is None:
            return
    pool = [st] + [c for c in Env.companions if c is not st]
    for _ in range(count):
        nfiles = rng.choice([2, 2, 3, 3, 4])
        logs = [rng.choice(pool) for _ in range(nfiles)]
        logs[rng.randrange(nfiles)] = st
        k = rng.random()
        if k < 0.3:
            logs[0] = Env.empty
        elif k < 0.4:
            logs[rng.randrange(1, nfiles)] = Env.empty
        elif k < 0.65:
            logs.sort(key=lambda x: x.N)
        elif k < 0.75:
            logs.sort(key=lambda x: -x.N)
        files = [(x, rng.choice(READER_CONTAINERS)) for x in logs]
        lens = [x.N for x in logs]
        sub = rng.choice(["tail", "tail", "tail", "head", "head", "forward", "reverse"])
        cand: dict[str, Any] = {"component": "hr", "container": "files", "mode": "multi-files", "submode": sub,
                                "pspec": rng.choice([None, "trace", "trace", "8", str(rng.randrange(9))])}
        if sub in ("head", "tail"):
            lo, hi = min(lens), max(lens)
            between = sorted(set(lens))
            mid = (between[0] + between[1] + 1) // 2 if len(between) > 1 else hi
            cand["n"] = rng.choice([None, 0, 1, lo, lo + 1, mid, mid, hi, hi, hi + 3, rng.randint(0, hi + 2)])
            if rng.random() < 0.3:
                cand["nopt"] = "--lines"
        if sub == "tail" and rng.random() < 0.4:
            cand["topt"] = "-t"
        if Env.multi_sub_left > 0 and len(set(lens)) > 1 and sum(len(x.raw) for x in logs) < (1 << 18):
            Env.multi_sub_left -= 1
            cand["component"] = "hr-subprocess"
        run_multi_case(ctx, files, cand)


# ---------------------------------------------------------------------------------------------
# planning the cases of one log
def rand_case(s: str, rng: random.Random) -> str:
    return "".join(ch.upper() if rng.random() < 0.3 else ch for ch in s)


def plan(rng: random.Random, st: LogState, budget: int, exhaustive: bool) -> list[dict[str, Any]]:
    N = st.N
    core: list[dict[str, Any]] = []
    extra: list[dict[str, Any]] = []
    rp = rng.randrange(9)

    def R(container: str, mode: str, **kw: Any) -> dict[str, Any]:
        return {"component": "reader", "container": container, "mode": mode, **kw}

    ks_all = sorted({k for k in (0, 1, N - 1, N // 2, -1, -N, -(N // 2) - 1, rng.randrange(-N, N) if N else 0, rng.randrange(-N, N) if N else 0) if M.valid_index(N, k)})
    if exhaustive:
        ks_all = list(range(-N, N))
    for c in READER_CONTAINERS:
        (core if c == "zst" else extra).append(R(c, "len"))
        for p in range(9):
            prim = c == "zst" and p in (8, rp)
            (core if prim else extra).append(R(c, "forward", p=p))
            (core if prim else extra).append(R(c, "reverse-default", p=p))
            if N:
                (core if prim else extra).append(R(c, "reverse", p=p))
        for k in ks_all:
            for p in sorted({8, rp, rng.randrange(9)}) if not exhaustive else range(9):
                (core if c == "zst" and p == 8 and k in (ks_all[0], ks_all[-1], -1) else extra).append(R(c, "offset", k=k, p=p))
                if k >= 0 or exhaustive:
                    (core if c == "zst" and p == 8 and k == ks_all[-1] else extra).append(R(c, "reverse-from", k=k, p=p))
    core.append(R(rng.choice(READER_CONTAINERS[1:]), "forward", p=8))
    # a file whose last record is not followed by a newline: the operations that need the end of the offset table
    u = rng.choice(["plain-unterminated", "gz-unterminated"])
    core.append(R(u, "len"))
    if N:
        core.append(R(u, "offset", k=rng.choice([-1, -1, N - 1]), p=8) if rng.random() < 0.7 else R(u, "reverse", p=8))

    def H(container: str, mode: str, pspec: str | None, **kw: Any) -> dict[str, Any]:
        d: dict[str, Any] = {"component": "hr", "container": container, "mode": mode, "pspec": pspec, **kw}
        if pspec is not None and rng.random() < 0.3:
            d["popt"] = "--priority"
        if mode == "tail" and rng.random() < 0.4:
            d["topt"] = "-t"
        if mode == "reverse" and rng.random() < 0.4:
            d["ropt"] = "-r"
        if d.get("n") is not None and rng.random() < 0.3:
            d["nopt"] = "--lines"
        if rng.random() < 0.15:
            d["color"] = rng.choice(["never", "auto"])
        return d

    def pspecs() -> list[str | None]:
        if exhaustive:
            return [None] + [str(p) for p in range(9)] + ["trace", "Info", "ERROR"]
        q = rng.randrange(9)
        return [None, "trace", "8", str(q), rand_case(M.PRIO_NAME[rng.randrange(9)], rng)]

    ns_all: list[int | None] = sorted({n for n in (0, 1, 2, N - 1, N, N + 1, N + 37, 100, rng.randint(0, N + 5), rng.randint(0, max(N, 1))) if n >= 0})  # type: ignore[assignment]
    if exhaustive:
        ns_all = list(range(0, N + 3)) + [100]
    ns_all = [None] + ns_all  # type: ignore[operator]
    for c in HR_CONTAINERS:
        for ps in pspecs():
            prim = c == "zst" and ps in (None, "trace")
            (core if prim else extra).append(H(c, "forward", ps))
            (core if prim and ps == "trace" else extra).append(H(c, "reverse", ps))
            if not c.startswith("stdin"):
                extra.append(H(c, "multi", ps))
            for n in ns_all:
                corn = prim and ps == "trace" and (n is None or n in (0, N, N + 1, max(N - 1, 0)))
                (core if corn else extra).append(H(c, "head", ps, n=n))
                (core if corn else extra).append(H(c, "tail", ps, n=n))
    for c in HR_CONTAINERS[1:]:
        core.append(H(c, rng.choice(["forward", "tail", "head", "reverse"]), rng.choice(["trace", "7", None]), n=None))
        if core[-1]["mode"] in ("head", "tail"):
            core[-1]["n"] = rng.choice([None, 1, N, N + 1])
    core.append(H(rng.choice(["plain-unterminated", "gz-unterminated", "stdin-pipe-unterminated"]), "tail", "trace", n=rng.choice([1, 1, 2, N, None])))
    if exhaustive:
        return core + extra
    room = max(0, budget - len(core))
    if room < len(extra):
        extra = rng.sample(extra, room)
    return core + extra


def reach_zone(ctx: Any, st: LogState) -> None:
    """Which local time zone the process has in which this log is written and read back (only logs with records show a time stamp)."""
    if st.N:
        for c in Env.tz_class:
            ctx.reach(f"writer.local-time-zone.{c}.log-with-records")


def process_log(ctx: Any, rng: random.Random, logdef: dict[str, Any], regen: dict[str, Any] | None, exhaustive: bool, deadline: float) -> None:
    st = build_log(ctx, logdef, regen)
    if st is None:
        return
    reach_zone(ctx, st)
    try:
        est = 0.0006 + st.N * 60e-6 + len(st.raw) / 25e6
        budget = int(min(160, max(45, 2.5 / est)))
        # (the enumerated logs that only add a situation of the writer get the sampled plan)
        cands = plan(rng, st, budget, exhaustive and st.N <= 3 and len(st.raw) < (1 << 16) and not logdef.get("preexisting"))
        ctx.sample({"file_level": logdef["file_level"], "records_logged": len(logdef["specs"]), "records_in_file": st.N,
                    "raw_bytes": len(st.raw), "first_specs": logdef["specs"][:2], "cases": len(cands),
                    "example_cases": cands[-2:]})
        for i, cand in enumerate(cands):
            run_case(ctx, st, cand)
            if i % 16 == 15 and (ctx.out_of_time() or ctx.elapsed() > deadline):
                break
        # a few real subprocess runs of the entry point
        if Env.sub_left > 0:
            hrc = [c for c in cands if c["component"] == "hr"]
            picks = []
            want_c = ["stdin-pipe", "stdin-file", "zst", "gz", "plain-unterminated", "stdin-pipe-unterminated"][Env.sub_left % 6]
            pool = [c for c in hrc if c["container"] == want_c] or hrc
            if pool:
                picks.append(rng.choice(pool))
            for c in picks:
                sc = dict(c)
                sc["component"] = "hr-subprocess"
                run_case(ctx, st, sc)
                Env.sub_left -= 1
        # histories on one reused reader object; the second one (and half of the third ones) with a second reader object open on
        # another log of this shard (an earlier log or the second log of the pair, of another length, in any container)
        others = [c for c in Env.companions if c is not st and c.N and c.N != st.N]
        if st.second is not None and st.second.N and st.second.N != st.N:
            others.append(st.second)
        run_history(ctx, st, rng)
        for lead in (None, "iter-len"):
            if others and (lead is None or rng.random() < 0.5):
                run_history(ctx, st, rng, lead=lead, other=rng.choice(others), other_container=rng.choice(["zst", "zst", *READER_CONTAINERS]))
            else:
                run_history(ctx, st, rng, lead=lead)
        run_multi_files(ctx, st, rng)
        if st.second is not None:
            process_second(ctx, rng, st.second)
    finally:
        if st.second is not None:
            drop_log(st.second)
            st.second = None
        retire_log(st)


def process_second(ctx: Any, rng: random.Random, st: LogState) -> None:
    """The second log of a pair (open at the same time as the log itself) is judged on its own: complete forward pass, count, and a
    sample of the other cases."""
    cands = plan(rng, st, 45, False)
    fixed = [{"component": "reader", "container": "zst", "mode": "len"}, {"component": "reader", "container": "zst", "mode": "forward", "p": 8},
             {"component": "hr", "container": "zst", "mode": "forward", "pspec": "trace"}]
    rest = [c for c in cands if c not in fixed]
    for cand in fixed + rng.sample(rest, min(9, len(rest))):
        run_case(ctx, st, cand)
        ctx.reach("reader.second-of-two-open-logs" if cand["component"] == "reader" else "hr.second-of-two-open-logs")
    run_history(ctx, st, rng)


def process_burst(ctx: Any, rng: random.Random, seedstr: str, n: int, schedule: str) -> None:
    """One log of n records logged in one tight loop; read back completely in the principal modes."""
    st = build_log(ctx, gen_burst_logdef(seedstr, n, schedule), {"burst_seedstr": seedstr, "n": n, "schedule": schedule})
    if st is None:
        return
    reach_zone(ctx, st)
    try:
        N = st.N
        ctx.sample({"burst": True, "records_logged": n, "records_in_file": N, "raw_bytes": len(st.raw), **st.facts}, force=True)
        cands: list[dict[str, Any]] = [
            {"component": "reader", "container": "zst", "mode": "len"},
            {"component": "reader", "container": "zst", "mode": "forward", "p": 8},
            {"component": "reader", "container": "zst", "mode": "reverse", "p": rng.choice([8, 8, 7, 6])},
            {"component": "reader", "container": rng.choice(["plain", "gz", "zst-frames"]), "mode": "forward", "p": rng.randrange(3, 9)},
            {"component": "hr", "container": "zst", "mode": "tail", "pspec": "trace", "n": rng.randint(1, 60)},
            {"component": "hr", "container": "zst", "mode": "head", "pspec": rng.choice(["trace", "debug"]), "n": rng.randint(1, 60)},
            {"component": "hr", "container": "zst", "mode": "forward", "pspec": "critical"},
        ]
        if N:
            cands.insert(3, {"component": "reader", "container": "zst", "mode": "offset", "p": 8, "k": rng.randrange(-N, N)})
        for cand in cands:
            run_case(ctx, st, cand)
            ctx.reach("reader.burst-log" if cand["component"] == "reader" else "hr.burst-log")
    finally:
        drop_log(st)


# ---------------------------------------------------------------------------------------------
def run(ctx: Any, params: dict[str, Any]) -> None:
    part, parts = params["part"], params["parts"]
    tz = ZONES[(part + ctx.seed) % len(ZONES)]
    setup_process(ctx, tz)
    Env.sub_left = params["sub"]
    Env.multi_sub_left = max(1, params["sub"] // 6)
    deadline = ctx.elapsed() + params["wall"]
    rng = ctx.rng
    if params.get("burst"):
        process_burst(ctx, rng, f"C17/{ctx.seed}/burst/{part}", params["burst"], params.get("burst_schedule", "writer-starved"))
    edges = edge_logdefs(ctx.tier)
    for i, ld in enumerate(edges):
        if i % parts == part:
            process_log(ctx, rng, ld, None, True, deadline)
    for j in range(params["logs"]):
        if ctx.out_of_time() or ctx.elapsed() > deadline:
            ctx.reach("stopped_by_deadline")
            break
        seedstr = f"C17/{ctx.seed}/{part}/{j}"
        lrng = random.Random(seedstr)
        force_long = j == 3 and part % 4 == 0
        ld = gen_logdef(lrng, params["maxlen"], force_long)
        process_log(ctx, rng, ld, {"seedstr": seedstr, "maxlen": params["maxlen"], "force_long": force_long}, False, deadline)
    drop_companions()


def replay(ctx: Any, witness: dict[str, Any]) -> None:
    first = (witness.get("logs") or [witness.get("log")])[0]
    setup_process(ctx, first.get("tz") if isinstance(first, dict) else None)

    def expand(log: dict[str, Any]) -> dict[str, Any]:
        if "specs" not in log:
            g = log["regen"]
            if "burst_seedstr" in g:
                return dict(gen_burst_logdef(g["burst_seedstr"], g["n"], g.get("schedule", "writer-starved")), read=log.get("read", ""))
            return dict(gen_logdef(random.Random(g["seedstr"]), g["maxlen"], g.get("force_long", False)), read=log.get("read", ""))
        return log

    def build(log: dict[str, Any]) -> tuple[LogState | None, LogState | None]:
        """-> (state to drop afterwards, state that the witness reads: the log itself or the second log of its pair)"""
        read = log.get("read", "")
        top = build_log(ctx, {k: v for k, v in log.items() if k not in ("read", "tz")}, None)
        return top, (top.second if top is not None and read == "second" else top)

    if "logs" in witness:  # several files on one hr command line
        built = [build(expand(x)) for x in witness["logs"]]
        sts = [x[1] for x in built]
        try:
            if all(x is not None for x in sts):
                cand = witness["case"]
                if witness.get("prelude"):
                    for x in sts:
                        pre = exec_reader(x, {"component": "reader", "container": "zst", "mode": "forward", "p": 8})
                        consumer_edits(x, pre.get("records"))
                run_multi_case(ctx, [(sts[i], c) for i, c in cand["files"]], cand)
        finally:
            for x, _ in built:
                if x is not None:
                    drop_log(x)
        return
    top, st = build(expand(witness["log"]))
    if st is None:
        if top is not None:
            drop_log(top)
        return
    try:
        if "case" not in witness and "history" not in witness:
            return  # a failure of the writer itself: build() has reported it again
        if witness.get("prelude"):
            # an earlier reading of this log whose consumer edits the records it was handed
            pre = exec_reader(st, {"component": "reader", "container": "zst", "mode": "forward", "p": 8})
            consumer_edits(st, pre.get("records"))
        if "history" in witness and "other_log" in witness:
            otop, ost = build(expand(witness["other_log"]))
            try:
                if ost is not None:
                    run_history(ctx, st, ctx.rng, ops=witness["history"], other=ost, other_container=witness.get("other_container", "zst"))
            finally:
                if otop is not None:
                    drop_log(otop)
        elif "history" in witness:
            run_history(ctx, st, ctx.rng, ops=witness["history"])
        else:
            run_case(ctx, st, witness["case"])
    finally:
        assert top is not None
        drop_log(top)
