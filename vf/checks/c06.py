"""C06 DoIP: frames are demultiplexed correctly under any segmentation and interleaving (DESIGN.md section 3, appendix C)."""

from __future__ import annotations

import asyncio
import itertools
import random
import struct
from typing import Any

from vf import gateway, vtime

PROPERTY = "C06"
LEVEL = "exploration"
ENGINE = "vtime-memstream"
TECHNIQUE = (
    "recorded histories + offline reference demultiplexer: the production DoIPTransport/DoIPConnection runs on in-memory streams "
    "against a scripted gateway under a virtual clock; gateway frames (with arrival times), client frames (with send times) and "
    "every connect/write/read result are logged and checked offline (routing activation bytes, ack matching within 2 s, reads = "
    "user data of target->source diagnostic messages in arrival order, alive-check answered within 0.5 s), under enumerated split "
    "points and interleavings; usage variations: a second live connection (own gateway, address pair, traffic) in the same event loop "
    "whose history is judged separately against ITS stream, several tasks (writers, a reader) using one connection at once, targets behind a "
    "gateway (routing activation answered with the gateway's own logical address), and writes whose CALLER gives up (write(timeout=t), t shorter "
    "than the gateway's acknowledgement delay) followed by further reads/writes/alive checks on the same open connection, and message sizes "
    "over the range of the 32-bit length field that is affordable (payload lengths 2**8 .. 2**20, at and around every power of two) for "
    "gateway frames of every kind that carries data and for the client's requests, inside otherwise unchanged programs"
)
LEVEL_TEXT = (
    "Exploration with exhaustive sub-spaces: all 256 activation types x protocol versions x address pairs and every routing "
    "activation response code; gateway frame scripts (exhaustive to length 3 quick / 4 thorough over an 8-letter alphabet, random to "
    "length 8) injected before the ack, after it, while the client is blocked in a read and while idle; byte stream cut at every "
    "single split point for base scripts, at seeded multi-splits, byte-wise and coalesced. Each run's history is checked against a "
    "reference demultiplexer written from ISO 13400-2 frame formats. Every family (activation types / response codes / activation "
    "variants / scripted / burst / random programs / concurrent users) also runs, for a share of its cases and in dedicated shards, with "
    "a SECOND live connection in the same event loop (own host/port and gateway, own or equal address pair, own program and user data, "
    "shifted start) - each connection is judged on its own history, data of the other stream counts as foreign. One connection used by "
    "2-3 writer tasks plus optionally a reader task: every request acknowledged in time, the whole alphabet around the acks, frames "
    "mostly in segments of their own; writes judged from the transmission of their request, reads for content/order/no loss. "
    "In every family the routing activation response carries, for about half of the cases, a logical address of the answering entity other than "
    "the target address (ECU behind a gateway). Random programs (single and paired connections): about one write in seven is given up by its "
    "caller before the - slow, mostly still legal - acknowledgement arrives (timeouts at 0.2/0.5/0.9 of the delay; positive/negative/late/no ack; "
    "other frames before the timeout); the connection is then used on (reads, writes, idle phases with alive checks) while the acknowledgement "
    "comes in, and drained; other writes carry a caller timeout that never strikes. "
    "Message size: in about 12 % of the random programs (single, paired, concurrent users) some diagnostic messages for us / for others, unknown "
    "frames, wrong-echo acks and requests (whose ack echoes a prefix or all of it) are enlarged to payload lengths of 2**k-1, 2**k, 2**k+1 "
    "(k = 8..20) or log-uniform in between, the stream cut at up to 30 points over its whole length; the frames behind them, later "
    "requests and alive checks are judged as usual (reads compare the whole user data). "
    "Held = held on those histories (known findings listed apart)."
)
LEVEL_NOTE = "Trusted: frame builders and offline checker in vf/checks/c06.py, gateway simulator vf/gateway.py, virtual clock. Only well-formed frames (corrupt headers belong to C08)."
RULE = (
    "cases = (URI parameters, routing activation response incl. the answering entity's address, client op program (with caller timeouts of reads and writes) "
    "or concurrent task programs, gateway frame script with delays, "
    "segmentation plan, sizes (filler length, seed) of enlarged frames and requests, optionally the same for a second connection of the same event loop plus its start offset); "
    "non-trivial = the script contains at least one frame other than the awaited one or a split inside a frame; distinct = distinct case "
    "tuples; distinct_traces = distinct (frame label / op result) sequences"
)
ASSUMPTIONS = [
    "gateway frames are well-formed; an ack matches iff the address pair matches and the echoed bytes are empty or a prefix of the request",
    "stray acks that would match a later request are not generated (indistinguishable from a genuine ack)",
    "after a write failed for lack of an ack the connection is closed; later operations are only required to fail with a connection error",
    "several tasks on one connection: the acknowledgement time of a write runs from the moment its request frame is on the stream; requests differ in their "
    "first bytes and acks echo at least one byte, so every ack belongs to exactly one request; no read timing is demanded while other tasks hold the connection",
    "two connections in one event loop carry different user data, so data delivered on the wrong connection is recognisable",
    "a write that its caller gives up before the acknowledgement: the request is unique and the (later) acknowledgement echoes all of it, so it matches no later "
    "request; the statement fixes no outcome for that write itself (a timeout or a connection error within the acknowledgement time is accepted, completion is not); "
    "on a timeout the connection counts as open and everything after it is judged as usual",
    "a diagnostic message for our address pair that is undelivered in the connection's queue, or arrives, while a write that its caller then gives up waits for its ack must "
    "still be delivered to a later read (generated since /repo bf4f29f repaired it; before, such messages were lost with the cancelled ack wait because "
    "DoIPConnection._read_ack kept skipped frames in a local list). DATA_BEFORE_CALLER_TIMEOUT = False switches this part of the workload off",
    "the gateway simulator sends in the order of scheduling: frames scheduled after a slow acknowledgement arrive after it",
    "message sizes: the statement sets no upper bound for a diagnostic message (the length field has 32 bits); sizes up to 2**20 + 1 bytes of payload are generated, "
    "larger ones (up to 4 GiB) are not run; a large frame arrives in the segments of the plan, each segment at once (no flow control on the in-memory stream)",
]
EXHAUSTIVE = {"quick": False, "thorough": False}
EXHAUSTIVE_NOTE = "exhaustive: 256 activation types, 256 routing activation response codes, pre-ack scripts to length 3/4, every single split point of the base scripts"

ACK_TIME = 2.0
ALIVE_TIME = 0.5
TOL = 1e-3
GTOL = 1e-5  # a caller's timeout against a frame arrival on the virtual clock (the next operation's frames may follow 1 ms later)
# a write whose CALLER gives up (write(timeout=t), t shorter than the gateway's still-legal ack delay): does the generator let a
# diagnostic message for our address pair arrive between the request and the caller's timeout? On the unchanged tree such a message is
# lost together with the cancelled ack wait (reported to the maintainers of the check, not judged) - see ASSUMPTIONS
DATA_BEFORE_CALLER_TIMEOUT = True
GIVEUP_HEADS = ["22f1a0", "1083", "3e80", "2e567800"]  # requests of writes whose caller gives up: no other request starts like them
LETTERS = ["D", "F", "A", "U", "H", "K", "X"]  # diag-for-us, foreign diag, alive check, unknown type, header nack, foreign ack, wrong-echo ack
# a negative ack with our address pair ("N") is a matching acknowledgement: it is an ack kind, never an injected frame, and nothing
# that would match follows it in the same reaction (a stale matching ack cannot be told from a genuine one)


# ---- independent frame builders (ISO 13400-2) ------------------------------------------------------
def hdr(ver: int, ptype: int, ln: int) -> bytes:
    return bytes([ver, ver ^ 0xFF]) + struct.pack("!HL", ptype, ln)


def f_rar(ver: int, tester: int, entity: int, code: int, oem: bytes | None = None) -> bytes:
    p = struct.pack("!HHBL", tester, entity, code, 0) + (oem or b"")
    return hdr(ver, 0x0006, len(p)) + p


def f_diag(ver: int, sa: int, ta: int, data: bytes) -> bytes:
    return hdr(ver, 0x8001, 4 + len(data)) + struct.pack("!HH", sa, ta) + data


def f_ack(ver: int, sa: int, ta: int, prev: bytes, code: int = 0, negative: bool = False) -> bytes:
    return hdr(ver, 0x8003 if negative else 0x8002, 5 + len(prev)) + struct.pack("!HHB", sa, ta, code) + prev


def f_alive(ver: int) -> bytes:
    return hdr(ver, 0x0007, 0)


def split_client(buf: bytearray) -> list[bytes]:
    out = []
    while len(buf) >= 8:
        ln = struct.unpack("!L", buf[4:8])[0]
        if len(buf) < 8 + ln:
            break
        out.append(bytes(buf[: 8 + ln]))
        del buf[: 8 + ln]
    return out


# ---- message size (usage variation: sizes far beyond classic ISO-TP; the DoIP length field has 32 bits) -------------------
LARGE = 256  # payload length from which a frame counts as "large" here (the rest of the workload stays below 64 bytes)
SIZE_BITS = (8, 20)  # payload lengths of enlarged frames: 2**8 .. 2**20 (+1)


def filler(n: int, seed: int) -> bytes:
    """n bytes of deterministic, non-repeating content (witnesses carry (n, seed) instead of the bytes)"""
    return random.Random(int(seed)).randbytes(int(n))


def body(spec: list[Any], i: int) -> bytes:
    """user data / payload bytes of a frame spec: the hex string at position i, plus the filler of an enlarged spec
    (spec ends in "fill", n, seed)"""
    b = bytes.fromhex(spec[i])
    if len(spec) >= 3 and spec[-3] == "fill":
        b += filler(spec[-2], spec[-1])
    return b


def op_data(op: dict[str, Any]) -> bytes:
    """request user data of a write op (op["fill"] = [n, seed] of an enlarged request)"""
    return bytes.fromhex(op["data"]) + (filler(*op["fill"]) if op.get("fill") else b"")


def pick_payload(rng: random.Random) -> int:
    """payload length for an enlarged frame: half of them at a power of two of the length field (one below, at, one above - where
    size limits and narrower length fields would sit), half log-uniform over the whole range"""
    if rng.random() < 0.5:
        return 2 ** rng.randint(*SIZE_BITS) + rng.choice([-1, 0, 1])
    return int(2 ** rng.uniform(*SIZE_BITS))


SPEC_BODY = {"D": (1, 4), "F": (1, 4), "U": (2, 0), "X": (1, 5)}  # letter -> (position of the hex string in the spec, payload bytes in front of it)


def all_ops(sc: dict[str, Any]) -> list[dict[str, Any]]:
    return [q for t in sc.get("tasks", []) for q in t] + sc["ops"]


def enlarge(sc: dict[str, Any], share: float) -> bool:
    """usage variation 'message size': for a share of the programs some of the gateway's frames (diagnostic messages for us and for
    others, unknown payload types, acks echoing other data) and some of the client's requests (whose acknowledgement then echoes a
    prefix or all of it) are enlarged to payload lengths over the whole range 2**8 .. 2**20, far beyond the 4095 bytes of classic
    ISO-TP; everything else of the program (the frames around them, later requests, alive checks, drain reads) stays as it is. The
    byte stream is cut at points over its whole length. Own random source, derived from the program: the other programs of the run
    do not change."""
    rng = random.Random("size/" + repr((sc["src"], sc["tgt"], sc["ver"], sc["ops"], sc.get("tasks"))))
    if rng.random() >= share:
        return False
    slots: list[tuple[str, Any]] = []
    for o in all_ops(sc):
        if o["op"] == "W":
            slots.append(("W", o))
        for _, spec in o.get("react", []) + o.get("arrive", []):
            if spec[0] in SPEC_BODY:
                slots.append((spec[0], spec))
    if not slots:
        return False
    chosen = [x for x in slots if rng.random() < 0.3] or [rng.choice(slots)]
    total = 0
    for kind, obj in chosen:
        p = pick_payload(rng)
        if kind == "W":
            n = max(1, p - 4 - len(obj["data"]) // 2)
            obj["fill"] = [n, rng.getrandbits(32)]
            total += 2 * n  # (the request and possibly the echo in its acknowledgement)
        else:
            i, front = SPEC_BODY[kind]
            n = max(1, p - front - len(obj[i]) // 2)
            obj.extend(["fill", n, rng.getrandbits(32)])
            total += n
    sc["enlarged"] = True
    if sc["bytewise"] and total > 5000:
        sc["bytewise"] = False  # (a callback per byte)
    if not sc["bytewise"] and rng.random() < 0.7:
        sc["cuts"] = sorted(set(sc["cuts"]) | set(rng.sample(range(1, total + 400), rng.randint(1, 30))))
    return True


def shards(tier: str, seed: int) -> list[dict[str, Any]]:
    if tier == "quick":
        return ([{"mode": "connect", "part": i, "parts": 2} for i in range(2)] + [{"mode": "exh", "maxlen": 3, "part": i, "parts": 6, "splits": 30} for i in range(6)]
                + [{"mode": "rand", "n": 1200, "part": i} for i in range(8)] + [{"mode": "pair", "n": 700, "part": 0}, {"mode": "conc", "n": 800, "part": 0}])
    return ([{"mode": "connect", "part": i, "parts": 4, "full": True} for i in range(4)] + [{"mode": "exh", "maxlen": 4, "part": i, "parts": 16, "splits": 200} for i in range(16)]
            + [{"mode": "rand", "n": 12000, "part": i} for i in range(12)] + [{"mode": "pair", "n": 8000, "part": i} for i in range(4)] + [{"mode": "conc", "n": 8000, "part": i} for i in range(4)])


def required_reach(tier: str) -> dict[str, int]:
    return {"connect.activation-types": 256, "connect.response-codes": 256, "connect.success": 100, "connect.denied": 100, "alive.phase.before-ack": 20,
            "alive.phase.blocked-in-read": 20, "alive.phase.idle": 20, "alive.phase.before-activation": 5, "data-before-ack": 20, "split.in-header": 50, "split.in-payload": 50,
            "bytewise": 10, "coalesced-frames": 20, "write.acked": 500, "write.nack-target-unreachable": 10, "write.nack-other": 10, "write.ack-timeout": 20,
            "read.delivered": 500, "read.timeout": 50, "histories": 1000, "burst-then-alive": 20, "concurrent-writers": 20,
            # a second live connection in the same event loop (each history judged separately)
            "pair.histories": 300, "pair.both-usable": 300, "pair.same-address-pair": 50, "pair.distinct-address-pairs": 100, "pair.ops-overlap": 300,
            "pair.activations-overlap": 50, "pair.activation-during-other-op": 100, "pair.other-wait-ends-while-frame-set-aside": 100,
            "pair.other-wait-ends-while-data-set-aside-in-ack-wait": 100, "#pair.family.": 7,
            # several tasks on one connection, the gateway alphabet around the acks, frames in segments of their own
            "conc.histories": 200, "conc.writes-overlap": 200, "conc.read-overlaps-write": 50, "conc.non-ack-frame-while-writes-pending.own-segment": 200,
            "conc.ack-while-other-write-pending": 200, "conc.write-acked": 500, "conc.write-nacked": 20,
            # the target is an ECU behind a gateway: the routing activation response carries the gateway's own logical address
            "connect.success.entity-other-than-target": 500,
            # a write whose caller gives up (own timeout shorter than the gateway's ack delay), then further use of the same connection
            "write.caller-timeout-before-ack": 500, "write.caller-timeout-before-ack.ack-arrives-later": 300, "write.caller-timeout-before-ack.frames-before-it": 100,
            "write.caller-timeout-generous": 200, "caller-timeout.then-read-delivered": 500, "caller-timeout.then-write-acked": 200,
            # message sizes far beyond classic ISO-TP: payload lengths 2**8 .. 2**20 (bits.N = payload length has N binary digits; 17 = from 64 KiB)
            "large-frame": 1000, **{f"large-frame.payload-bits.{n}": 20 for n in range(9, 22)}, "large-frame.kind.D": 500, "large-frame.kind.F": 100,
            "large-frame.kind.U": 100, "large-frame.kind.ACK": 100, "large-frame.kind.X": 30, "large-frame.phase.before-ack": 300,
            "large-frame.phase.blocked-in-read": 100, "large-frame.phase.idle": 300, "large-frame.other-frames-behind-it": 1000,
            "large-frame.split-in-payload": 300, "large-frame.split-in-header": 30, "read.delivered.large": 400, "read.delivered.behind-large-frame": 500,
            "write.acked.after-large-frame": 100, "write.acked.large-request": 100, "write.acked.large-echo": 30}


# ---- scenario -----------------------------------------------------------------------------------------
def spec_frame(sc: dict[str, Any], spec: list[Any], req: bytes | None) -> tuple[bytes, str]:
    ver, src, tgt = sc["ver"], sc["src"], sc["tgt"]
    k = spec[0]
    if k == "D":
        return f_diag(ver, tgt, src, body(spec, 1)), "D"
    if k == "F":
        sa, ta = spec[2], spec[3]
        return f_diag(ver, sa, ta, body(spec, 1)), "F"
    if k == "A":
        return f_alive(ver), "A"
    if k == "U":
        return hdr(ver, spec[1], len(body(spec, 2))) + body(spec, 2), "U"
    if k == "H":
        return hdr(ver, 0x0000, 1) + bytes([spec[1]]), "H"
    if k == "K":  # ack for another address pair
        return f_ack(ver, spec[1], spec[2], (req or b"")[: spec[3]]), "K"
    if k == "X":  # ack with our addresses but echoing other data
        return f_ack(ver, tgt, src, body(spec, 1)), "X"
    if k == "N":  # negative ack, code other than TargetUnreachable
        return f_ack(ver, tgt, src, (req or b"")[: spec[2]], spec[1], negative=True), "N"
    if k == "ACK":
        return f_ack(ver, tgt, src, (req or b"")[: spec[1]] if spec[1] is not None else (req or b"")), "ACK"
    if k == "TU":
        return f_ack(ver, tgt, src, (req or b"")[: spec[1]], 0x06, negative=True), "TU"
    raise AssertionError(spec)


def letter_spec(rng: random.Random, sc: dict[str, Any], letter: str, uid: list[int]) -> list[Any]:
    uid[0] += 1
    tag = uid[0].to_bytes(2, "big").hex()
    if letter == "D":
        return ["D", "62f190" + tag + rng.randbytes(rng.choice([0, 1, 7, 40])).hex()]
    if letter == "F":
        other = rng.choice([(sc["tgt"] ^ 1, sc["src"]), (sc["tgt"], sc["src"] ^ 0x100), (sc["src"], sc["tgt"]), (0x1234, 0x4321)])
        return ["F", "62f190" + tag, other[0] & 0xFFFF, other[1] & 0xFFFF]
    if letter == "A":
        return ["A"]
    if letter == "U":
        return ["U", rng.choice([0x0001, 0x0004, 0x4002, 0x4004, 0x9000, 0xFFFF]), rng.randbytes(rng.choice([0, 1, 7])).hex()]
    if letter == "H":
        return ["H", rng.choice([0, 1, 2, 3, 4, 0x55])]
    if letter == "K":
        other = rng.choice([(sc["tgt"] ^ 1, sc["src"]), (sc["tgt"], sc["src"] ^ 0x100), (sc["src"], sc["tgt"])])
        return ["K", other[0] & 0xFFFF, other[1] & 0xFFFF, rng.choice([0, 2, 99])]
    if letter == "X":
        return ["X", "ff" + tag]
    if letter == "N":
        return ["N", rng.choice([0x02, 0x03, 0x04, 0x05, 0x07, 0x08, 0x55]), rng.choice([0, 2, 99])]
    raise AssertionError(letter)


def base_scenario(rng: random.Random) -> dict[str, Any]:
    src = rng.choice([0x0E00, 0x0E80, 0x00F4, 0xFFFE, rng.randrange(1, 0xFFFF)])
    tgt = rng.choice([0x001D, 0x1D, 0x0040, 0xE400, rng.randrange(1, 0xFFFF)])
    if tgt == src:
        tgt ^= 0x10
    return {"src": src, "tgt": tgt, "ver": rng.choice([1, 2, 3]), "act": rng.choice([0, 1, 0xE0]), "rar_code": 0x10, "rar_oem": None, "rar_delay": 0.01,
            # logical address of the DoIP entity that answers the routing activation: None = the target itself (direct ECU), else a
            # gateway with its own address in front of the target
            "entity": rng.choice([None, None, 0x1010, 0x0001, rng.randrange(1, 0xFFFF)]),
            "pre_rar": [], "connect_timeout": rng.choice([None, 5.0]), "ops": [], "cuts": [], "bytewise": False,
            "dup": rng.choice([None, None, None, ("src_addr", "0x1"), ("target_addr", "0x2"), ("activation_type", "0x1" if rng.random() < 0.5 else "0xe1"), ("protocol_version", "1")])}


def entity_of(sc: dict[str, Any]) -> int:
    e = sc.get("entity")
    return sc["tgt"] if e is None or e == sc["src"] else e  # (a gateway does not have the tester's address)


def uri(sc: dict[str, Any]) -> str:
    u = f"doip://{sc.get('host', '192.0.2.9')}:{sc.get('port', 13400)}?src_addr={sc['src']:#x}&target_addr={sc['tgt']:#x}&activation_type={sc['act']:#x}&protocol_version={sc['ver']}"
    if sc.get("dup"):
        # a key written twice: the documented reading of a target URI is the first value
        k, v = sc["dup"]
        u += f"&{k}={v}"
    return u


# ---- run one scenario ---------------------------------------------------------------------------------
class Hub:
    """stands in for asyncio.open_connection for SEVERAL connections living in one event loop: every port has its own gateway
    factory (own copy of the idea of gateway.GatewayHub, which hands out gateways by attempt number only)"""

    def __init__(self) -> None:
        self.factories: dict[int, Any] = {}
        self._orig: Any = None

    def register(self, port: int, factory: Any) -> None:
        self.factories[port] = factory

    async def open_connection(self, host: Any = None, port: Any = None, **kw: Any) -> tuple[Any, Any]:
        g = self.factories[port]()
        if kw.get("limit") is not None:
            g.reader._limit = kw["limit"]
        return g.reader, g.writer

    def __enter__(self) -> "Hub":
        self._orig = asyncio.open_connection
        asyncio.open_connection = self.open_connection  # type: ignore[assignment]
        return self

    def __exit__(self, *a: Any) -> None:
        # (the scenario coroutine of a run that ended in Deadlock is only unwound when it is collected, possibly while a later
        # scenario - with its own Hub - is running: never take away another Hub's patch)
        if asyncio.open_connection == self.open_connection:
            asyncio.open_connection = self._orig  # type: ignore[assignment]


async def run_conn(sc: dict[str, Any], hub: Hub) -> dict[str, Any]:
    """one connection: own gateway, own address pair, own op program. sc["tasks"] (optional): op programs that run as concurrent
    tasks on this one connection before the sequential sc["ops"]. The op log is in order of completion."""
    from gallia.transports.doip import DoIPTransport

    loop = asyncio.get_running_loop()
    gws: list[gateway.Gateway] = []
    reactions: dict[bytes, list[Any]] = {}  # request user data -> reactions of the gateway still to be played for such a request
    oplog: list[dict[str, Any]] = []

    def factory() -> gateway.Gateway:
        g = gateway.Gateway(split_client, cuts=set(sc["cuts"]), bytewise=sc["bytewise"])

        def on_frame(now: float, fr: bytes) -> None:
            ptype = struct.unpack("!H", fr[2:4])[0]
            if ptype == 0x0005:
                for d, spec in sc["pre_rar"]:
                    b, lab = spec_frame(sc, spec, None)
                    g.send(d, b, lab)
                if sc["rar_code"] is not None:
                    g.send(sc["rar_delay"], f_rar(sc["ver"], sc["src"], entity_of(sc), sc["rar_code"], bytes.fromhex(sc["rar_oem"]) if sc["rar_oem"] else None), "RAR")
            elif ptype == 0x8001 and reactions.get(fr[12:]):
                react = reactions[fr[12:]].pop(0)
                req = fr[12:]
                prev_d = None
                for d, spec in react:
                    b, lab = spec_frame(sc, spec, req)
                    g.send(d, b, lab, glue=(prev_d is not None and d == prev_d))
                    prev_d = d

        g.on_client_frame = on_frame
        gws.append(g)
        return g

    hub.register(sc.get("port", 13400), factory)
    if sc.get("start"):
        await asyncio.sleep(sc["start"])
    out: dict[str, Any] = {"ops": oplog}
    t0 = loop.time()
    tr = None
    try:
        tr = await DoIPTransport.connect(uri(sc), timeout=sc["connect_timeout"])
        out["connect"] = ("ok", loop.time() - t0)
    except BaseException as e:
        out["connect"] = ("exc", loop.time() - t0, type(e).__name__, isinstance(e, (ConnectionError, TimeoutError)))

    async def do(op: dict[str, Any], task: int | None) -> None:
        assert tr is not None
        g = gws[0]
        ts = loop.time()
        rec: dict[str, Any] = {"op": op["op"], "ts": ts, "task": task, "data": op.get("data"), "fill": op.get("fill"), "timeout": op.get("timeout")}
        for d, spec in op.get("arrive", []):
            b, lab = spec_frame(sc, spec, None)
            g.send(d, b, lab)
        try:
            if op["op"] == "W":
                data = op_data(op)
                reactions.setdefault(data, []).append(op["react"])
                n = await tr.write(data, timeout=op.get("timeout"))
                rec["res"] = ("ok", n)
            elif op["op"] == "R":
                r = await tr.read(timeout=op["timeout"])
                rec["res"] = ("ok", r)
            else:
                await asyncio.sleep(op["dt"])
                rec["res"] = ("ok", None)
        except BaseException as e:
            rec["res"] = ("exc", type(e).__name__, isinstance(e, ConnectionError), isinstance(e, TimeoutError))
        rec["te"] = loop.time()
        oplog.append(rec)

    async def prog(i: int, ops: list[dict[str, Any]]) -> None:
        for op in ops:
            await do(op, i)

    if tr is not None:
        if sc.get("tasks"):
            await asyncio.gather(*(prog(i, ops) for i, ops in enumerate(sc["tasks"])))
        for op in sc["ops"]:
            await do(op, None)
        try:
            await tr.close()
            await tr.close()
            out["close"] = "ok"
        except BaseException as e:
            out["close"] = type(e).__name__
    g0 = gws[0] if gws else None
    out["g_frames"] = g0.frames_out if g0 else []
    out["c_frames"] = g0.client_frames if g0 else []
    out["t0"] = t0
    out["split_in_header"] = bool(g0 and g0.split_in_header)
    out["split_in_payload"] = bool(g0 and g0.split_in_payload)
    out["fed"] = g0.fed if g0 else []
    return out


async def run_scenario(sc: dict[str, Any]) -> list[dict[str, Any]]:
    """the scenario's connection and - if sc["peer"] is given - a SECOND live connection (own port, own gateway, own address pair,
    own traffic) in the same event loop; their operations interleave in virtual time. One history per connection."""
    with Hub() as hub:
        jobs = [asyncio.ensure_future(run_conn(sc, hub))]
        if sc.get("peer"):
            jobs.append(asyncio.ensure_future(run_conn(sc["peer"], hub)))
        return list(await asyncio.gather(*jobs))


# ---- offline checker ----------------------------------------------------------------------------------
def witness(sc: dict[str, Any], top: dict[str, Any] | None, role: str) -> dict[str, Any]:
    # the witness always carries the whole scenario (both connections); `connection` says whose history was judged
    t = top if top is not None else sc
    return {"scenario": t, "connection": role} if t.get("peer") else {"scenario": t}


def check_connect(ctx: Any, sc: dict[str, Any], out: dict[str, Any], w: dict[str, Any]) -> bool:
    """history bookkeeping + routing activation part of the statement; True = the connection is usable and the op program is to be judged"""
    ver, src, tgt = sc["ver"], sc["src"], sc["tgt"]
    ctx.reach("histories")
    gfr = out["g_frames"]
    cfr = out["c_frames"]
    labels = tuple(l for _, _, l in gfr) + tuple((o["op"], o["res"][0] if o["res"][0] == "ok" else o["res"][1]) for o in out["ops"])
    ctx.trace(labels)
    if out["split_in_header"]:
        ctx.reach("split.in-header")
    if out["split_in_payload"]:
        ctx.reach("split.in-payload")
    if sc["bytewise"]:
        ctx.reach("bytewise")
    if any(len(d) > 8 and len(split_client(bytearray(d))) > 1 for _, d in out["fed"]):
        ctx.reach("coalesced-frames")
    # 1. routing activation request
    want_ra = hdr(ver, 0x0005, 7) + struct.pack("!HBL", src, sc["act"], 0)
    if not cfr:
        ctx.violation("connect/no-routing-activation-request", "no routing activation request was sent", w)
        return False
    if cfr[0][1] != want_ra:
        field = "activation-type" if cfr[0][1][:10] == want_ra[:10] and cfr[0][1][11:] == want_ra[11:] else "other"
        ctx.violation(f"connect/routing-activation-request-bytes/{field}", "routing activation request does not carry the configured source address / activation type / protocol version",
                      {**w, "got": cfr[0][1], "want": want_ra})
    # 2. connection usable iff success code
    t0 = out["t0"]
    rar = [(t, f) for t, f, l in gfr if l == "RAR"]
    ok_expected = sc["rar_code"] == 0x10 and bool(rar) and rar[0][0] - t0 <= ACK_TIME
    c = out["connect"]
    if ok_expected:
        ctx.reach("connect.success")
        behind = entity_of(sc) != tgt
        if behind:
            ctx.reach("connect.success.entity-other-than-target")
        if c[0] != "ok":
            ctx.violation(f"connect/success-code-not-usable/{'+'.join((['oem-field'] if sc['rar_oem'] else []) + (['entity-other-than-target'] if behind else [])) or 'plain'}/{c[2]}", "gateway answered routing activation with the success code but connect() failed", {**w, "connect": c})
            return False
    else:
        ctx.reach("connect.denied")
        if c[0] == "ok":
            ctx.violation(f"connect/usable-without-success-code/{sc['rar_code']}", "connect() succeeded although the gateway did not answer with the success code", {**w, "connect": c})
            return False
        if not c[3]:
            ctx.violation(f"connect/denied-with-foreign-exception/{c[2]}", "a denied routing activation does not surface as a connection error", {**w, "connect": c})
        limit = ACK_TIME if sc["connect_timeout"] is None else min(ACK_TIME, sc["connect_timeout"])
        if c[1] > limit + TOL:
            ctx.violation("connect/denied-too-late", "connect() did not fail within the routing activation time", {**w, "connect": c})
        check_alive(ctx, sc, out, w, closed_at=t0 + c[1])
        return False
    return True


def large_reach(ctx: Any, sc: dict[str, Any], out: dict[str, Any]) -> list[float]:
    """situations around large gateway frames (payload length >= LARGE), read off the history; returns their arrival times"""
    gfr, ops = out["g_frames"], out["ops"]
    times: list[float] = []
    off = 0
    for gi, (t, f, l) in enumerate(gfr):
        start, off = off, off + len(f)
        p = len(f) - 8
        if p < LARGE:
            continue
        times.append(t)
        ctx.reach("large-frame")
        ctx.reach(f"large-frame.kind.{l}")
        ctx.reach(f"large-frame.payload-bits.{p.bit_length()}")  # 9 = 256..511, ..., 17 = 65536..131071, ..., 21 = 2**20 ..
        phase = "idle"
        for o in ops:
            if o["ts"] <= t <= o["te"]:
                phase = {"W": "before-ack", "R": "blocked-in-read", "idle": "idle"}[o["op"]]
        ctx.reach(f"large-frame.phase.{phase}")
        if gi + 1 < len(gfr):
            ctx.reach("large-frame.other-frames-behind-it")
        if not sc["bytewise"] and any(start + 8 < c < off for c in sc["cuts"]):
            ctx.reach("large-frame.split-in-payload")
        if not sc["bytewise"] and any(start < c < start + 8 for c in sc["cuts"]):
            ctx.reach("large-frame.split-in-header")
    return times


def check(ctx: Any, sc: dict[str, Any], out: dict[str, Any], top: dict[str, Any] | None = None, role: str = "first", other: dict[str, Any] | None = None) -> None:
    """judges the history of ONE connection against the statement; `other` = history of the second connection of the same run (only
    used to name the origin of data that was never sent on this connection's stream)"""
    ver, src, tgt = sc["ver"], sc["src"], sc["tgt"]
    w = witness(sc, top, role)
    if not check_connect(ctx, sc, out, w):
        return
    gfr = out["g_frames"]
    cfr = out["c_frames"]
    big_t = large_reach(ctx, sc, out)  # arrival times of large frames (message sizes beyond classic ISO-TP)
    # 3..6 op program
    our = [(t, f[12:]) for t, f, l in gfr if l == "D"]  # target->source diagnostic messages: (arrival, user data)
    delivered: list[bytes] = []
    closed_at: float | None = None
    diag_out = [(t, f) for t, f in cfr if f[2:4] == b"\x80\x01"]
    wi = 0
    data_before_ack = False
    undelivered_during_ack = False
    used_acks: set[int] = set()
    gave_up = False  # an earlier write of this connection ended by its CALLER's timeout, the connection stayed open
    data_in_gave_up = False  # ... and a diagnostic message for us was undelivered in the queue / arrived while that write waited for its ack
    for o in out["ops"]:
        ts, te, res = o["ts"], o["te"], o["res"]
        if closed_at is not None:
            if res[0] == "ok" and o["op"] != "idle":
                ctx.violation(f"after-close/{o['op']}-succeeds", "operation succeeds on a connection that was closed after a missing ack", {**w, "op": o})
            elif res[0] == "exc" and not (res[2] or res[3]) and o["op"] != "idle":
                ctx.violation(f"after-close/{o['op']}/{res[1]}", "operation on the closed connection fails with something other than a connection error", {**w, "op": o})
            continue
        if o["op"] == "W":
            spec_op = sc["ops"][out["ops"].index(o)]
            data = op_data(spec_op)
            if wi >= len(diag_out) or diag_out[wi][1] != f_diag(ver, src, tgt, data) or abs(diag_out[wi][0] - ts) > TOL:
                ctx.violation("write/request-frame", "write() did not put exactly the diagnostic message source->target on the stream", {**w, "op": o})
                return
            wi += 1
            # first matching ack within the ack time - and, when the caller passed a timeout of its own (write(timeout=t)), before the
            # caller gives up: an acknowledgement that arrives after the write has returned to its caller cannot complete it
            limit = ts + ACK_TIME
            t_giveup = ts + spec_op["timeout"] if spec_op.get("timeout") is not None else None
            match = None
            for gi, (t, f, l) in enumerate(gfr):
                if gi in used_acks or t < ts - TOL or t > limit + TOL or (t_giveup is not None and t > t_giveup + GTOL):
                    continue
                pt = struct.unpack("!H", f[2:4])[0]
                if pt in (0x8002, 0x8003):
                    sa, ta, code = struct.unpack("!HHB", f[8:13])
                    prev = f[13:]
                    if sa == tgt and ta == src and (len(prev) == 0 or prev == data[: len(prev)]):
                        match = (t, pt, code, gi)
                        used_acks.add(gi)
                        break
            # the CALLER's own timeout strikes before the gateway's - still legal - acknowledgement / before the acknowledgement time is
            # over: the statement fixes no outcome for that write beyond "no completion without an ack, over within the acknowledgement
            # time"; nothing was refused, so the connection stays open and every later operation is judged as usual (reads, writes,
            # alive checks). The acknowledgement that arrives later echoes that whole request and belongs to no other one.
            t_event, tol = (match[0], GTOL) if match is not None else (limit, TOL)
            if t_giveup is not None and t_giveup <= t_event + tol:
                if t_giveup > t_event - tol:
                    ctx.reach("write.caller-timeout-at-ack")  # boundary (ack or end of the acknowledgement time): either outcome
                    if res[0] != "ok" and res[2]:
                        closed_at = te
                    continue
                ctx.reach("write.caller-timeout-before-ack")
                if any(t_giveup < t <= limit and l in ("ACK", "TU", "N") and f[13:] == data for t, f, l in gfr):
                    ctx.reach("write.caller-timeout-before-ack.ack-arrives-later")  # in time, on a connection that is in use for other things by then
                if any(ts < t < t_giveup and l not in ("ACK", "TU", "N") for t, _, l in gfr):
                    ctx.reach("write.caller-timeout-before-ack.frames-before-it")
                if res[0] == "ok":
                    ctx.violation("write/completes-without-ack/caller-timeout", "write() completed although no matching acknowledgement had arrived", {**w, "op": o})
                elif res[2]:
                    closed_at = te  # reported as a connection error: the connection counts as closed
                elif not res[3]:
                    ctx.violation(f"write/caller-timeout/{res[1]}", "a write that its caller gave up ends with something other than a timeout or a connection error", {**w, "op": o})
                if te > limit + TOL:
                    ctx.violation("write/no-ack/too-late", "write() did not end within the acknowledgement time", {**w, "op": o})
                gave_up = gave_up or closed_at is None
                if sum(1 for t, _, l in gfr if l == "D" and t < te) > len(delivered):
                    data_in_gave_up = True  # (only generated with DATA_BEFORE_CALLER_TIMEOUT)
                continue
            if t_giveup is not None:
                ctx.reach("write.caller-timeout-generous")
            if match is not None and match[0] > limit - TOL:
                ctx.reach("write.ack-at-deadline")
                if res[0] != "ok":
                    if match[1] == 0x8003 and match[2] != 0x06:
                        # a negative ack at the deadline: the write failed either by the nack (connection open) or by the ack time
                        # (connection closed) - the API result does not tell which, the rest of this history is not judged
                        return
                    closed_at = te
                continue
            if match is not None and any(ts < a < match[0] for a, _ in our):
                data_before_ack = True
                ctx.reach("data-before-ack")
            # diagnostic messages for us that sit undelivered in the connection's queue while this write waits for its ack
            if match is not None and sum(1 for _, _, l in gfr[: match[3]] if l == "D") > len(delivered):
                undelivered_during_ack = True
            if match is None:
                ctx.reach("write.ack-timeout")
                if res[0] == "ok":
                    ctx.violation("write/completes-without-ack", "write() completed although no matching acknowledgement arrived", {**w, "op": o})
                elif not res[2]:
                    ctx.violation(f"write/no-ack/{res[1]}", "missing acknowledgement does not surface as a connection error", {**w, "op": o})
                elif te > limit + TOL:
                    ctx.violation("write/no-ack/too-late", "write() did not fail within the acknowledgement time", {**w, "op": o})
                closed_at = te
                continue
            t_ack, pt, code, _ = match
            positive = pt == 0x8002 or code == 0x06
            if pt == 0x8002:
                ctx.reach("write.acked")
                if gave_up:
                    ctx.reach("caller-timeout.then-write-acked")
                if len(data) + 4 >= LARGE:
                    ctx.reach("write.acked.large-request")
                if len(gfr[match[3]][1]) - 8 >= LARGE:
                    ctx.reach("write.acked.large-echo")
                if any(t < ts for t in big_t):
                    ctx.reach("write.acked.after-large-frame")
            elif code == 0x06:
                ctx.reach("write.nack-target-unreachable")
            else:
                ctx.reach("write.nack-other")
            if positive:
                if res[0] != "ok":
                    phase = "alive-before-ack" if any(ts < t < t_ack and l == "A" for t, _, l in gfr) else "plain"
                    if any(ts - TOL <= t <= t_ack + TOL for t in big_t):
                        phase = "large-frame-before-or-as-ack"
                    ctx.violation(f"write/acked-but-fails/{phase}/{res[1]}", "the gateway acknowledged the message in time but write() failed", {**w, "op": o, "ack_at": t_ack})
                    closed_at = te
                    continue
                if abs(te - t_ack) > TOL:
                    ctx.violation("write/completion-time", "write() did not complete when the acknowledgement arrived", {**w, "op": o, "ack_at": t_ack})
            else:
                if res[0] == "ok":
                    ctx.violation("write/negative-ack-ignored", "a negative acknowledgement (not TargetUnreachable) did not fail the write", {**w, "op": o})
                elif not res[2]:
                    ctx.violation(f"write/negative-ack/{res[1]}", "negative acknowledgement surfaces as something other than a connection error", {**w, "op": o})
        elif o["op"] == "R":
            if res[0] == "ok":
                delivered.append(res[1])
                ctx.reach("read.delivered")
                if gave_up:
                    ctx.reach("caller-timeout.then-read-delivered")
                if len(res[1]) + 4 >= LARGE:
                    ctx.reach("read.delivered.large")
            elif res[3]:
                ctx.reach("read.timeout")
            else:
                ctx.violation(f"read/{res[1]}" + ("/large-frame-on-the-stream" if any(t <= te + TOL for t in big_t) else ""),
                              "read() on an open connection fails with something other than a timeout", {**w, "op": o})
                closed_at = te
    # reads: exactly the user data of our diagnostic messages, in arrival order
    end = out["ops"][-1]["te"] if out["ops"] else 0.0
    horizon = closed_at if closed_at is not None else end
    expect = [d for a, d in our if a <= horizon + 1e-9]  # (+1e-9: the virtual clock may be an ulp behind the scheduled arrival time)
    if delivered == expect[: len(delivered)] and big_t:
        # messages that arrived behind a large frame (and the large ones themselves) came out of the reads, in order and unmodified
        ctx.reach("read.delivered.behind-large-frame", sum(1 for a, _ in our[: len(delivered)] if a > big_t[0]))
    if delivered != expect[: len(delivered)]:
        it = iter(expect)
        if data_in_gave_up and all(d in it for d in delivered):  # (delivered is expect with omissions)
            ctx.violation("read/lost/data-skipped-by-a-write-its-caller-gave-up", "a diagnostic message that was set aside by the ack wait of a write, which its caller then gave up, was never returned by a read",
                          {**w, "delivered": delivered, "expected": expect})
        elif sorted(delivered) == sorted(expect[: len(delivered)]) or (set(delivered) <= set(expect) and len(set(delivered)) == len(delivered)):
            ctx.violation(f"read/out-of-order/{'requeue-during-ack-wait' if undelivered_during_ack else 'other'}", "reads deliver the diagnostic messages in another order than they arrived", {**w, "delivered": delivered, "expected": expect})
        elif other is not None and any(d not in expect and d in other_data(other) for d in delivered):
            ctx.violation("read/data-of-the-other-connection", "a read returned the user data of a diagnostic message that was sent on ANOTHER connection's stream", {**w, "delivered": delivered, "expected": expect})
        elif any(d not in expect for d in delivered):
            ctx.violation("read/foreign-or-fabricated-data", "a read returned data that is not the user data of a target->source diagnostic message", {**w, "delivered": delivered, "expected": expect})
        else:
            ctx.violation("read/duplicated", "a diagnostic message was delivered more than once", {**w, "delivered": delivered, "expected": expect})
        return
    # per-read timing: returns when the frame is there, times out otherwise
    k = 0
    for o in out["ops"]:
        if o["op"] != "R" or (closed_at is not None and o["ts"] >= closed_at):
            continue
        ts, te, res = o["ts"], o["te"], o["res"]
        to = sc["ops"][out["ops"].index(o)]["timeout"]
        nxt = our[k] if k < len(our) else None
        if res[0] == "ok":
            a = nxt[0] if nxt else 0.0
            want_t = max(ts, a)
            if abs(te - want_t) > TOL:
                blocked_alive = any(ts < t < te and l == "A" for t, _, l in out["g_frames"])
                ctx.violation(f"read/late-delivery/{'alive-while-blocked' if blocked_alive else 'other'}", "a diagnostic message that had arrived was not delivered to the waiting read in time", {**w, "op": o, "arrived": a})
            k += 1
        else:
            if nxt is not None and nxt[0] < ts + to - TOL:
                blocked_alive = any(ts < t < te and l == "A" for t, _, l in out["g_frames"])
                ctx.violation(f"read/lost-or-stalled/{'write-its-caller-gave-up' if data_in_gave_up else 'alive-while-blocked' if blocked_alive else ('data-before-ack' if data_before_ack else 'other')}",
                              "a read timed out although a diagnostic message for it had arrived in time (frame lost or reader stalled)", {**w, "op": o, "arrived": nxt[0]})
                return
    if closed_at is None and len(delivered) < len(expect) and sc.get("drained"):
        ctx.violation(f"read/lost/{'data-before-ack' if data_before_ack else 'other'}", "a diagnostic message that arrived was never returned by a later read", {**w, "delivered": delivered, "expected": expect})
    check_alive(ctx, sc, out, w, closed_at)
    if out.get("close") != "ok":
        ctx.violation(f"close/{out.get('close')}", "closing the transport twice raises", w)


def other_data(other: dict[str, Any]) -> set[bytes]:
    return {f[12:] for _, f, _ in other["g_frames"] if f[2:4] == b"\x80\x01"}


def check_alive(ctx: Any, sc: dict[str, Any], out: dict[str, Any], w: dict[str, Any], closed_at: float | None) -> None:
    ver, src = sc["ver"], sc["src"]
    want = hdr(ver, 0x0008, 2) + struct.pack("!H", src)
    reqs = [t for t, f, l in out["g_frames"] if l == "A" and (closed_at is None or t + ALIVE_TIME < closed_at)]
    resp = [(t, f) for t, f in out["c_frames"] if f[2:4] == b"\x00\x08"]
    end = out["ops"][-1]["te"] if out["ops"] else out["t0"] + out["connect"][1]
    ops = out["ops"]
    for i, t in enumerate(reqs):
        # phase of the client when the request arrived
        phase = "idle"
        if t <= out["t0"] + out["connect"][1]:
            phase = "before-activation"
        for o in ops:
            if o["ts"] <= t <= o["te"]:
                phase = {"W": "before-ack", "R": "blocked-in-read", "idle": "idle"}[o["op"]]
        ctx.reach(f"alive.phase.{phase}")
        if i >= len(resp) and t + ALIVE_TIME > end:
            break  # the run ended before the answer was due
        if i >= len(resp):
            ctx.violation(f"alive-check/unanswered/{phase}", "an alive-check request was not answered", {**w, "request_at": t})
            return
        rt, rf = resp[i]
        if rf != want:
            ctx.violation("alive-check/response-bytes", "alive-check response does not carry the configured source address", {**w, "got": rf, "want": want})
            return
        if rt < t - TOL or rt > t + ALIVE_TIME + TOL:
            ctx.violation(f"alive-check/late/{phase}", f"alive-check request answered after {rt - t:.3f}s (limit {ALIVE_TIME}s)", {**w, "request_at": t, "answered_at": rt})
            return


def check_conc(ctx: Any, sc: dict[str, Any], out: dict[str, Any], top: dict[str, Any] | None = None, role: str = "first", other: dict[str, Any] | None = None) -> None:
    """history of a connection that was used by several tasks at once (sc["tasks"]), then drained by sequential reads.
    Writes are judged from the moment THEIR request frame is on the stream (time spent queued behind another user of the connection
    does not count): acknowledged (positive / TargetUnreachable) within the acknowledgement time -> completes, when the ack arrives;
    negative ack -> connection error. Every gateway reaction here contains an acknowledgement in time and echoes at least one byte,
    and the requests differ in their first bytes, so each ack belongs to exactly one request.
    Reads (in order of completion) are judged for content only: exactly the user data of the target->source diagnostic messages in
    arrival order, nothing lost once the connection is idle and drained. No read timing is demanded while other tasks hold the connection."""
    ver, src, tgt = sc["ver"], sc["src"], sc["tgt"]
    w = witness(sc, top, role)
    if not check_connect(ctx, sc, out, w):
        return
    ctx.reach("conc.histories")
    gfr, cfr = out["g_frames"], out["c_frames"]
    big_t = large_reach(ctx, sc, out)
    our = [(t, f[12:]) for t, f, l in gfr if l == "D"]
    ops = out["ops"]
    writes = [o for o in ops if o["op"] == "W"]
    if sum(1 for x in writes for y in writes if x is not y and x["ts"] < y["te"] and y["ts"] < x["te"]) > 0:
        ctx.reach("conc.writes-overlap")
    if any(r["op"] == "R" and r["task"] is not None and any(x["ts"] < r["te"] and r["ts"] < x["te"] for x in writes) for r in ops):
        ctx.reach("conc.read-overlaps-write")
    # a frame that is not an acknowledgement and goes through the connection's queue arrives, in a segment of its own, while
    # two or more writes are under way
    fed_t = [t for t, _ in out["fed"]]
    for gi, (t, f, l) in enumerate(gfr):
        if l in ("D", "F", "H") and sum(1 for x in writes if x["ts"] < t < x["te"]) >= 2:
            alone = (gi == 0 or gfr[gi - 1][0] < t - gateway.EPS / 2) and (gi + 1 == len(gfr) or gfr[gi + 1][0] > t + gateway.EPS / 2) and sum(1 for x in fed_t if abs(x - t) < gateway.EPS / 2) == 1
            ctx.reach("conc.non-ack-frame-while-writes-pending" + (".own-segment" if alone and not sc["bytewise"] else ""))
    used: set[int] = set()
    broken = False
    found: list[tuple[str, str, dict[str, Any]]] = []
    for o in sorted(writes, key=lambda x: x["ts"]):
        data = op_data(o)
        res, te = o["res"], o["te"]
        sent = [t for t, f in cfr if f == f_diag(ver, src, tgt, data) and o["ts"] - TOL <= t <= te + TOL]
        if len(sent) != 1:
            found.append(("write/concurrent/request-frame", "a write() issued while other tasks use the connection did not put exactly one diagnostic message source->target on the stream", {**w, "op": o}))
            continue
        t_send = sent[0]
        match = None
        for gi, (t, f, l) in enumerate(gfr):
            if gi in used or t < t_send - TOL or t > t_send + ACK_TIME - TOL:
                continue
            if f[2:4] in (b"\x80\x02", b"\x80\x03"):
                sa, ta, code = struct.unpack("!HHB", f[8:13])
                prev = f[13:]
                if sa == tgt and ta == src and len(prev) > 0 and prev == data[: len(prev)]:
                    match = (t, f[2:4] == b"\x80\x02", code)
                    used.add(gi)
                    break
        if match is None:
            continue  # not generated in this family (ack missing or at the deadline): nothing demanded
        t_ack, pos, code = match
        if any(x is not o and x["ts"] < t_ack and t_send < x["te"] for x in writes):
            ctx.reach("conc.ack-while-other-write-pending")
        if pos or code == 0x06:
            ctx.reach("conc.write-acked")
            if res[0] != "ok":
                found.append((f"write/concurrent/acked-but-fails/{res[1]}" + ("/large-frame-before-or-as-ack" if any(o["ts"] - TOL <= t <= t_ack + TOL for t in big_t) else ""), "the gateway acknowledged the message within the acknowledgement time of its transmission, but the write() - issued while other "
                              "tasks were using the connection - failed", {**w, "op": o, "sent_at": t_send, "ack_at": t_ack}))
                broken = True
            elif abs(te - t_ack) > TOL:
                found.append(("write/concurrent/completion-time", "a write() issued while other tasks use the connection did not complete when its acknowledgement arrived", {**w, "op": o, "sent_at": t_send, "ack_at": t_ack}))
        else:
            ctx.reach("conc.write-nacked")
            if res[0] == "ok":
                found.append(("write/concurrent/negative-ack-ignored", "a negative acknowledgement (not TargetUnreachable) did not fail the write", {**w, "op": o}))
            elif not res[2]:
                found.append((f"write/concurrent/negative-ack/{res[1]}", "negative acknowledgement surfaces as something other than a connection error", {**w, "op": o}))
    for key, what, wit in found:
        # a write that failed although it was acknowledged may have torn the connection down: what the other operations did
        # afterwards is a consequence and is not reported separately
        if not broken or key.startswith("write/concurrent/acked-but-fails/"):
            ctx.violation(key, what, wit)
    if broken or any(k == "write/concurrent/request-frame" for k, _, _ in found):
        return
    delivered = [o["res"][1] for o in ops if o["op"] == "R" and o["res"][0] == "ok"]
    for o in ops:
        if o["op"] == "R" and o["res"][0] != "ok":
            if o["res"][3]:
                ctx.reach("read.timeout")
            else:
                ctx.violation(f"read/concurrent/{o['res'][1]}" + ("/large-frame-on-the-stream" if any(t <= o["te"] + TOL for t in big_t) else ""), "read() on an open connection fails with something other than a timeout", {**w, "op": o})
                return
    ctx.reach("read.delivered", len(delivered))
    ctx.reach("read.delivered.large", sum(1 for d in delivered if len(d) + 4 >= LARGE))
    expect = [d for _, d in our]
    if delivered != expect[: len(delivered)]:
        if other is not None and any(d not in expect and d in other_data(other) for d in delivered):
            ctx.violation("read/data-of-the-other-connection", "a read returned the user data of a diagnostic message that was sent on ANOTHER connection's stream", {**w, "delivered": delivered, "expected": expect})
        elif any(d not in expect for d in delivered):
            ctx.violation("read/foreign-or-fabricated-data", "a read returned data that is not the user data of a target->source diagnostic message", {**w, "delivered": delivered, "expected": expect})
        elif len(set(delivered)) != len(delivered):
            ctx.violation("read/duplicated", "a diagnostic message was delivered more than once", {**w, "delivered": delivered, "expected": expect})
        else:
            ctx.violation("read/out-of-order/concurrent-users", "reads deliver the diagnostic messages in another order than they arrived", {**w, "delivered": delivered, "expected": expect})
        return
    # drained: a sequential read at the end timed out although an undelivered message had arrived before its deadline
    for o in ops:
        if o["op"] == "R" and o["task"] is None and o["res"][0] != "ok" and len(delivered) < len(our) and our[len(delivered)][0] < o["ts"] + o["timeout"] - TOL:
            ctx.violation("read/lost/concurrent-users", "a diagnostic message that arrived while several tasks used the connection was never returned by a later read", {**w, "delivered": delivered, "expected": expect})
            return
    check_alive(ctx, sc, out, w, None)
    if out.get("close") != "ok":
        ctx.violation(f"close/{out.get('close')}", "closing the transport twice raises", w)


QUEUED_NOT_AWAITED = {"W": ("D", "F", "H", "K", "X"), "R": ("F", "H", "K", "X")}


def pair_reach(ctx: Any, scs: list[dict[str, Any]], outs: list[dict[str, Any]]) -> None:
    """situations that need two live connections, read off the two histories (API level: op intervals and gateway arrival times)"""
    ctx.reach("pair.histories")
    if all(o["connect"][0] == "ok" for o in outs):
        ctx.reach("pair.both-usable")
    ctx.reach("pair.same-address-pair" if (scs[0]["src"], scs[0]["tgt"]) == (scs[1]["src"], scs[1]["tgt"]) else "pair.distinct-address-pairs")
    t_conn = [(o["t0"], o["t0"] + o["connect"][1]) for o in outs]
    if t_conn[0][0] < t_conn[1][1] and t_conn[1][0] < t_conn[0][1]:
        ctx.reach("pair.activations-overlap")
    for x in (0, 1):
        y = 1 - x
        if any(a["op"] != "idle" and t_conn[y][0] < a["te"] and a["ts"] < t_conn[y][1] for a in outs[x]["ops"]):
            ctx.reach("pair.activation-during-other-op")
    if any(a["op"] != "idle" and b["op"] != "idle" and a["ts"] < b["te"] and b["ts"] < a["te"] for a in outs[0]["ops"] for b in outs[1]["ops"]):
        ctx.reach("pair.ops-overlap")
    # connection X is inside a wait (ack wait of a write / blocked read) and a frame it has to set aside for later has arrived;
    # before X's wait ends, a wait of connection Y ends (its write is acknowledged, its read returns or times out, its activation completes)
    seen: set[str] = set()
    for x in (0, 1):
        y = 1 - x
        ends = [b["te"] for b in outs[y]["ops"] if b["op"] != "idle"] + [t_conn[y][1]]
        for a in outs[x]["ops"]:
            if a["op"] == "idle":
                continue
            for t, _, l in outs[x]["g_frames"]:
                if l in QUEUED_NOT_AWAITED[a["op"]] and a["ts"] < t < a["te"] - TOL and any(t + TOL < e < a["te"] - TOL for e in ends):
                    seen.add("pair.other-wait-ends-while-frame-set-aside")
                    if l == "D":
                        seen.add("pair.other-wait-ends-while-data-set-aside-in-ack-wait")
    for k in seen:
        ctx.reach(k)


def one(ctx: Any, sc: dict[str, Any], nontrivial: bool = True) -> dict[str, Any] | None:
    ctx.case(repr(sc), nontrivial=nontrivial)
    try:
        outs = vtime.run(run_scenario(sc))
    except vtime.Deadlock:
        both = [sc] + ([sc["peer"]] if sc.get("peer") else [])
        allops = [o for c in both for o in c["ops"] + [q for t in c.get("tasks", []) for q in t]]
        blocked = "read-without-timeout" if any(o["op"] == "R" and o["timeout"] is None for o in allops) else "other"
        ctx.violation(f"blocks-forever/{blocked}/{'alive' if 'A' in repr(sc) else 'no-alive'}", "an operation can never complete (nothing scheduled, nothing readable)", {"scenario": sc})
        return None
    peer = sc.get("peer")
    (check_conc if sc.get("tasks") else check)(ctx, sc, outs[0], sc, "first", outs[1] if peer else None)
    if peer:
        # each connection's observations are judged separately, against the frames sent on ITS stream
        (check_conc if peer.get("tasks") else check)(ctx, peer, outs[1], sc, "second", outs[0])
        pair_reach(ctx, [sc, peer], outs)
    return outs[0]


# ---- workloads ------------------------------------------------------------------------------------------
def reaction(rng: random.Random, sc: dict[str, Any], pre: list[str], ackkind: str, post: list[str], uid: list[int], separate: bool = False, echo1: bool = False, slow: bool = False) -> list[Any]:
    """separate: every frame of the reaction travels in a segment of its own (no two frames at the same instant);
    echo1: acknowledgements echo at least one byte of the request (needed to tell the acks of several outstanding requests apart);
    slow: the gateway takes its time for the acknowledgement (mostly still inside the acknowledgement time) and echoes the whole request"""
    r: list[Any] = []
    d = 0.0
    z = [] if separate else [0.0]
    lo = 1 if echo1 else 0
    for l in pre:
        d += rng.choice(z + [0.001, 0.01, 0.2]) if r else rng.choice([0.001, 0.01, 0.2])
        r.append((round(d, 4), letter_spec(rng, sc, l, uid)))
    d += rng.choice(z + [0.001, 0.02, 0.3]) if r else rng.choice([0.001, 0.02, 0.3])
    if slow:
        d += rng.choice([0.05, 0.4, 0.9, 1.5])
    if ackkind == "ack":
        r.append((round(d, 4), ["ACK", None if slow else rng.choice([None, lo, 2, 5])]))
    elif ackkind == "tu":
        r.append((round(d, 4), ["TU", 99 if slow else rng.choice([lo, 2])]))
    elif ackkind == "nack":
        r.append((round(d, 4), ["N", rng.choice([0x02, 0x03, 0x04, 0x05, 0x07, 0x08, 0x55]), 99 if slow else rng.choice([lo, 2, 99])]))
    elif ackkind == "late":
        r.append((round(2.0 + rng.choice([0.05, 0.5]), 4), ["ACK", None]))
    for l in post:
        d += rng.choice(z + z + [0.001, 0.01, 0.25])  # 0.0: same delay as the previous frame = coalesced into one segment
        r.append((round(d, 4), letter_spec(rng, sc, l, uid)))
    return r


def scripted(rng: random.Random, pre: list[str], ackkind: str, post: list[str]) -> dict[str, Any]:
    sc = base_scenario(rng)
    uid = [0]
    nD = sum(1 for l in pre + post if l == "D")
    sc["ops"] = [{"op": "W", "data": "22f190", "react": reaction(rng, sc, pre, ackkind, post, uid)}]
    for _ in range(nD + 1):
        sc["ops"].append({"op": "R", "timeout": 1.0})
    sc["drained"] = True
    return sc


def settle_time(ops: list[dict[str, Any]]) -> float:
    """after this long every frame scheduled by the ops so far has arrived (the gateway sends in the order of scheduling, so a frame
    can be held up by any frame scheduled before it, e.g. a slow acknowledgement)"""
    return round(0.01 + max([d for o in ops for d, _ in o.get("react", []) + o.get("arrive", [])] + [0.0]), 4)


def giveup_write(rng: random.Random, sc: dict[str, Any], pre: list[str], ackkind: str, post: list[str], uid: list[int]) -> dict[str, Any]:
    """a write whose CALLER gives up: write(timeout=t) with t shorter than the gateway's acknowledgement delay (which is mostly still
    legal, < 2 s; now and then the ack is late or never comes). The request is unique (own first bytes + tag) and the acknowledgement
    echoes all of it, so the acknowledgement that arrives after the caller has gone belongs to no later request. The connection is
    used further afterwards (rest of the program, drain reads)."""
    uid[0] += 1
    data = rng.choice(GIVEUP_HEADS) + uid[0].to_bytes(2, "big").hex() + rng.randbytes(rng.choice([0, 0, 3])).hex()
    react = reaction(rng, sc, pre, ackkind, post, uid, slow=True)
    bound = min([d for d, s in react if s[0] in ("ACK", "TU", "N")] + [ACK_TIME])
    if not DATA_BEFORE_CALLER_TIMEOUT:
        bound = min([d for d, s in react if s[0] == "D"] + [bound])
    return {"op": "W", "data": data, "react": react, "timeout": round(bound * rng.choice([0.2, 0.5, 0.9]), 6)}


def random_program(rng: random.Random, uid0: int = 0, addr: tuple[int, int] | None = None) -> dict[str, Any]:
    """several writes/reads/idle phases with injected frames in every phase, then drained"""
    sc = base_scenario(rng)
    if addr is not None:
        sc["src"], sc["tgt"] = addr
    uid = [uid0]
    ops: list[dict[str, Any]] = []
    pending_d = 0
    for _ in range(rng.randint(1, 4)):
        pre = rng.choices(LETTERS, weights=[4, 2, 3, 1, 1, 1, 1], k=rng.choice([0, 0, 1, 2, 3]))
        post = rng.choices(LETTERS[:5], weights=[5, 2, 2, 1, 1], k=rng.choice([0, 1, 2, 3]))
        ackkind = rng.choices(["ack", "tu", "nack", "none", "late"], weights=[10, 2, 2, 1, 1])[0]
        how = rng.random()
        if how < 0.15:
            if not DATA_BEFORE_CALLER_TIMEOUT and pending_d:
                # quiet first: every diagnostic message sent so far has arrived and has been read when the caller-timeout write starts
                ops.append({"op": "idle", "dt": settle_time(ops)})
                ops.extend({"op": "R", "timeout": 0.6} for _ in range(pending_d))
                pending_d = 0
            ops.append(giveup_write(rng, sc, pre, ackkind, post, uid))
        else:
            ops.append({"op": "W", "data": rng.choice(["22f190", "1003", "3e00", "2e123400"]) + rng.randbytes(rng.choice([0, 0, 3, 30])).hex(), "react": reaction(rng, sc, pre, ackkind, post, uid)})
            if how < 0.22:
                ops[-1]["timeout"] = rng.choice([2.5, 4.0])  # a caller timeout that never strikes (longer than the acknowledgement time)
        pending_d += sum(1 for l in pre + post if l == "D")
        for _ in range(rng.randint(0, 2)):
            k = rng.random()
            if k < 0.6:
                arr = []
                if rng.random() < 0.5:
                    arr.append((rng.choice([0.05, 0.3, 0.7]), ["A"]))
                if rng.random() < 0.4:
                    arr.append((rng.choice([0.1, 0.4]), letter_spec(rng, sc, "D", uid)))
                    pending_d += 1
                arr.sort(key=lambda x: x[0])
                ops.append({"op": "R", "timeout": rng.choice([0.5, 1.0]), "arrive": arr})
            else:
                arr = [(rng.choice([0.01, 0.2]), letter_spec(rng, sc, rng.choice(["A", "A", "D", "F", "U"]), uid))]
                pending_d += 1 if arr[0][1][0] == "D" else 0
                ops.append({"op": "idle", "dt": rng.choice([0.3, 0.6, 1.0]), "arrive": arr})
    if any(o["op"] == "W" and o.get("timeout", 9.9) < ACK_TIME for o in ops):
        # the rest of a slow reaction whose write was given up early arrives while the connection is idle, before the drain reads
        ops.append({"op": "idle", "dt": settle_time(ops)})
    for _ in range(pending_d + 1):
        ops.append({"op": "R", "timeout": 0.6})
    sc["ops"] = ops
    sc["drained"] = True
    r = rng.random()
    if r < 0.3:
        sc["cuts"] = sorted(rng.sample(range(1, 400), rng.randint(1, 30)))
    elif r < 0.4:
        sc["bytewise"] = True
    enlarge(sc, 0.12)
    return sc


def maybe_peer(ctx: Any, rng: random.Random, sc: dict[str, Any], rate: float, family: str) -> None:
    if rng.random() < rate:
        sc["peer"] = make_peer(rng, sc)
        ctx.reach(f"pair.family.{family}")


def make_peer(rng: random.Random, sc: dict[str, Any]) -> dict[str, Any]:
    """a SECOND connection for the same event loop: own host/port (own gateway), own address pair (now and then the same logical
    addresses as the first one - two vehicles of the same type), own protocol version, own op program with its own, different user
    data (tags from 0x8000), own segmentation, started a little earlier/later so that activations, ack waits and reads of the two interleave"""
    same = rng.random() < 0.3
    peer = random_program(rng, uid0=0x8000, addr=(sc["src"], sc["tgt"]) if same else None)
    if not same and (peer["src"], peer["tgt"]) == (sc["src"], sc["tgt"]):
        peer = random_program(rng, uid0=0x8000, addr=(sc["src"], sc["tgt"] ^ 0x20))
    peer.update({"host": "192.0.2.10", "port": 13401, "start": rng.choice([0.0, 0.0, 0.004, 0.05, 0.21, 0.5]), "rar_delay": rng.choice([0.01, 0.15]), "dup": None})
    return peer


def conc_scenario(rng: random.Random) -> dict[str, Any]:
    """ONE connection used by several tasks at once: 2-3 writer tasks (1-2 writes each, requests that differ in their first bytes),
    optionally a reader task and a task during which further frames arrive. Every request is acknowledged (positive, TargetUnreachable
    or negative) in time; around the acks the gateway sends letters of the whole alphabet (diagnostic messages for us / for others,
    alive checks, unknown types, header nacks, foreign and wrong-echo acks). Mostly every frame travels in a segment of its own."""
    sc = base_scenario(rng)
    uid = [0]
    separate = rng.random() < 0.8
    heads = rng.sample(["22", "3e", "10", "2e", "31", "27", "19"], 3)
    tasks: list[list[dict[str, Any]]] = []
    nd = 0
    for i in range(rng.choice([2, 2, 3])):
        ops: list[dict[str, Any]] = []
        if rng.random() < 0.5:
            ops.append({"op": "idle", "dt": rng.choice([0.0005, 0.003, 0.02, 0.15])})
        for j in range(rng.choice([1, 1, 2])):
            pre = rng.choices(LETTERS, weights=[4, 2, 3, 1, 1, 1, 1], k=rng.choice([0, 1, 1, 2, 3]))
            post = rng.choices(LETTERS[:5], weights=[5, 2, 2, 1, 1], k=rng.choice([0, 0, 1, 2]))
            ackkind = rng.choices(["ack", "tu", "nack"], weights=[10, 2, 1])[0]
            nd += sum(1 for l in pre + post if l == "D")
            ops.append({"op": "W", "data": heads[i] + f"{j:02x}" + rng.randbytes(rng.choice([0, 2, 6])).hex(), "react": reaction(rng, sc, pre, ackkind, post, uid, separate=separate, echo1=True)})
        tasks.append(ops)
    if rng.random() < 0.5:
        tasks.append([{"op": "idle", "dt": rng.choice([0.0002, 0.005, 0.1])}] + [{"op": "R", "timeout": rng.choice([0.7, 1.3, 2.6])} for _ in range(rng.choice([1, 2]))])
    if rng.random() < 0.4:
        arr = [(rng.choice([0.004, 0.05, 0.23]), ["A"])]
        if rng.random() < 0.5:
            arr.append((rng.choice([0.006, 0.12]), letter_spec(rng, sc, rng.choice(["D", "F"]), uid)))
            nd += arr[-1][1][0] == "D"
        arr.sort(key=lambda x: x[0])
        tasks.append([{"op": "idle", "dt": 0.3, "arrive": arr}])
    sc["tasks"] = tasks
    sc["ops"] = [{"op": "R", "timeout": 1.0} for _ in range(nd + 1)]
    sc["drained"] = True
    r = rng.random()
    if r < 0.15:
        sc["cuts"] = sorted(rng.sample(range(1, 300), rng.randint(1, 20)))
    elif r < 0.25:
        sc["bytewise"] = True
    enlarge(sc, 0.1)
    return sc


def run(ctx: Any, params: dict[str, Any]) -> None:
    import gallia.command  # noqa: F401

    vtime.quiet_logging()
    rng = ctx.rng
    mode = params["mode"]
    # every scenario family also runs with a second live connection in the same event loop: share of the cases that get one
    peer_rate = params.get("peer_rate", 0.07)
    if mode == "pair":
        # two live connections, each with its own random program (now and then one of them is used by several tasks at once)
        for i in range(params["n"]):
            sc = conc_scenario(rng) if i % 4 == 3 else random_program(rng)
            sc["peer"] = make_peer(rng, sc)
            one(ctx, sc)
            if i % 50 == 0:
                ctx.sample({"uri": uri(sc), "peer_uri": uri(sc["peer"]), "peer_start": sc["peer"]["start"], "ops": [(o["op"], [x[1][0] for x in o.get("react", [])] or None) for o in sc["ops"]][:6],
                            "peer_ops": [(o["op"], [x[1][0] for x in o.get("react", [])] or None) for o in sc["peer"]["ops"]][:6]})
            if ctx.out_of_time():
                break
        return
    if mode == "conc":
        # one connection used by several tasks at once
        for i in range(params["n"]):
            sc = conc_scenario(rng)
            maybe_peer(ctx, rng, sc, max(peer_rate, 0.2), "concurrent-users")
            one(ctx, sc)
            if i % 50 == 0:
                ctx.sample({"uri": uri(sc), "tasks": [[(o["op"], [x[1][0] for x in o.get("react", [])] or None) for o in t] for t in sc["tasks"]], "cuts": sc["cuts"][:6]})
            if ctx.out_of_time():
                break
        return
    if mode == "connect":
        acts = [a for a in range(256) if a % params["parts"] == params["part"]]
        for a in acts:
            for ver in ([1, 2, 3] if params.get("full") else [rng.choice([1, 2, 3])]):
                sc = base_scenario(rng)
                sc.update({"act": a, "ver": ver, "ops": [{"op": "W", "data": "3e00", "react": [(0.01, ["ACK", None]), (0.02, ["D", "7e00"])]}, {"op": "R", "timeout": 1.0}]})
                maybe_peer(ctx, rng, sc, peer_rate, "activation-types")
                one(ctx, sc)
                ctx.reach("connect.activation-types")
        for code in [c for c in range(256) if c % params["parts"] == params["part"]]:
            sc = base_scenario(rng)
            sc.update({"rar_code": code, "ops": [{"op": "W", "data": "3e00", "react": [(0.01, ["ACK", None])]}]})
            maybe_peer(ctx, rng, sc, peer_rate, "response-codes")
            one(ctx, sc)
            ctx.reach("connect.response-codes")
        for _ in range(60 if not params.get("full") else 600):
            sc = base_scenario(rng)
            k = rng.randrange(6)
            if k == 0:
                sc["rar_oem"] = rng.randbytes(4).hex()
            elif k == 1:
                sc["rar_code"] = None  # gateway never answers
            elif k == 2:
                sc["rar_delay"] = rng.choice([1.9, 2.1, 3.0])
            elif k == 3:
                sc["pre_rar"] = [(0.001, ["A"])] + ([(0.002, ["U", 0x4002, "000000"])] if rng.random() < 0.5 else [])
            elif k == 4:
                sc["cuts"] = sorted(rng.sample(range(1, 17), rng.randint(1, 5)))
            else:
                sc["bytewise"] = True
            sc["ops"] = [{"op": "W", "data": "1001", "react": [(0.01, ["ACK", 2]), (0.05, ["D", "5001003201f4"])]}, {"op": "R", "timeout": 2.0}]
            maybe_peer(ctx, rng, sc, max(peer_rate, 0.3), "activation-variants")
            one(ctx, sc)
        return
    if mode == "exh":
        k = 0
        for ln in range(0, params["maxlen"] + 1):
            for tup in itertools.product(LETTERS, repeat=ln):
                k += 1
                if k % params["parts"] != params["part"]:
                    continue
                for place in ("pre", "post", "both"):
                    pre = list(tup) if place in ("pre", "both") else []
                    post = list(tup) if place in ("post", "both") else []
                    if place == "both" and ln > 2:
                        continue
                    for ackkind in ("ack", "tu", "nack", "none"):
                        if ackkind != "ack" and (place != "pre" or k % 3):
                            continue
                        sc = scripted(rng, pre, ackkind, post)
                        maybe_peer(ctx, rng, sc, peer_rate, "scripted")  # the re-segmented variants below inherit the second connection
                        out = one(ctx, sc)
                        if out is None or ackkind != "ack" or k % 11:
                            continue
                        # the same frame sequence under other segmentations (absolute oracle re-applied; metamorphic cross-check)
                        total = sum(len(f) for _, f, _ in out["g_frames"])
                        pts = list(range(1, total))
                        if len(pts) > params["splits"]:
                            pts = rng.sample(pts, params["splits"])
                        ref = [o["res"] for o in out["ops"]]
                        for c in pts:
                            sc2 = dict(sc)
                            sc2["cuts"] = [c]
                            out2 = one(ctx, sc2)
                            if out2 is not None and [o["res"] for o in out2["ops"]] != ref:
                                ctx.violation("segmentation/outcome-depends-on-split", "the same gateway frame sequence gives other results when the byte stream is split differently", {"scenario": sc2, "cut": c})
                        sc3 = dict(sc)
                        sc3["bytewise"] = True
                        one(ctx, sc3)
                if ctx.out_of_time():
                    return
        return
    # random programs: several writes/reads/idle phases with injected frames in every phase
    for i in range(params["n"]):
        if i % 25 == 0:
            concurrent_writers(ctx, rng)
        if i % 20 == 3:
            # a burst of frames while the client is not reading (the read queue fills up), then an alive check, then everything is read
            sc = base_scenario(rng)
            uid = [0]
            n = rng.choice([65, 66, 100, 300])
            burst = []
            d = 0.0
            nd = 0
            for _ in range(n):
                d += 0.0005
                l = rng.choice(["D", "D", "F", "K", "H"])
                nd += l == "D"
                burst.append((round(d, 5), letter_spec(rng, sc, l, uid)))
            sc["ops"] = [{"op": "W", "data": "3e00", "react": [(0.001, ["ACK", None])]}, {"op": "idle", "dt": round(d + 0.05, 4), "arrive": burst},
                         {"op": "idle", "dt": 0.9, "arrive": [(0.01, ["A"]), (0.3, ["A"])]}] + [{"op": "R", "timeout": 0.6} for _ in range(nd + 1)]
            sc["drained"] = True
            ctx.reach("burst-then-alive")
            maybe_peer(ctx, rng, sc, max(peer_rate, 0.2), "burst")
            one(ctx, sc)
            continue
        sc = random_program(rng)
        maybe_peer(ctx, rng, sc, peer_rate, "random-programs")
        one(ctx, sc)
        if i % 100 == 0:
            ctx.sample({"uri": uri(sc), "ops": [(o["op"], [s[1][0] for s in o.get("react", [])] or None) for o in sc["ops"]][:8], "cuts": sc["cuts"][:6]})
        if ctx.out_of_time():
            break


async def _concurrent_writers(sc: dict[str, Any], latency: float) -> list[Any]:
    from gallia.transports.doip import DoIPTransport

    loop = asyncio.get_running_loop()
    res: list[Any] = []

    def factory(n: int) -> gateway.Gateway:
        g = gateway.Gateway(split_client)

        def on_frame(now: float, fr: bytes) -> None:
            ptype = struct.unpack("!H", fr[2:4])[0]
            if ptype == 0x0005:
                g.send(0.01, f_rar(sc["ver"], sc["src"], entity_of(sc), 0x10), "RAR")
            elif ptype == 0x8001:
                g.send(latency, f_ack(sc["ver"], sc["tgt"], sc["src"], fr[12:]), "ACK")

        g.on_client_frame = on_frame
        return g

    with gateway.GatewayHub(factory):
        tr = await DoIPTransport.connect(uri(sc), timeout=5.0)

        async def w(data: bytes) -> Any:
            t0 = loop.time()
            try:
                await tr.write(data, timeout=None)
                return ("ok", loop.time() - t0)
            except BaseException as e:
                return ("exc", type(e).__name__, loop.time() - t0)

        res = list(await asyncio.gather(w(bytes.fromhex("22f190")), w(bytes.fromhex("22f191")), w(bytes.fromhex("22f192"))))
        await tr.close()
    return res


def concurrent_writers(ctx: Any, rng: random.Random) -> None:
    """three tasks write on one connection at once; the gateway acknowledges each message `latency` after receiving it. Each ack arrives
    within the acknowledgement time of ITS message, so every write must complete (the time spent queued behind another writer does
    not count against the acknowledgement time)."""
    sc = base_scenario(rng)
    latency = rng.choice([0.9, 1.4, 1.9])
    ctx.case(("concurrent-writers", repr(sc), latency))
    ctx.reach("concurrent-writers")
    try:
        res = vtime.run(_concurrent_writers(sc, latency))
    except vtime.Deadlock:
        ctx.violation("write/concurrent-writers/blocks-forever", "concurrent writes on one connection never complete", {"scenario": sc, "latency": latency})
        return
    if any(r[0] != "ok" for r in res):
        ctx.violation("write/concurrent-writers/acked-but-fails", "a write that was acknowledged within the acknowledgement time of its own transmission failed because it had queued behind another writer",
                      {"scenario": sc, "latency": latency, "results": res})


def replay(ctx: Any, witness: dict[str, Any]) -> None:
    import gallia.command  # noqa: F401

    vtime.quiet_logging()
    sc = witness["scenario"]
    if "latency" in witness:
        concurrent_writers(ctx, random.Random(0))
        return
    for c in [sc] + ([sc["peer"]] if sc.get("peer") else []):
        for o in c["ops"] + [q for t in c.get("tasks", []) for q in t]:
            for key in ("react", "arrive"):
                if key in o:
                    o[key] = [(d, s) for d, s in o[key]]
        c["pre_rar"] = [(d, s) for d, s in c.get("pre_rar", [])]
    one(ctx, sc)
