"""C04 One client request ends with the outcome its reply/fault sequence implies (DESIGN.md section 3, appendix B)."""

from __future__ import annotations

import itertools
from typing import Any

from vf import vtime
from vf.models import client as cm

PROPERTY = "C04"
LEVEL = "fault_enumeration"
ENGINE = "vtime-memstream"
TECHNIQUE = (
    "fault-script enumeration under a virtual-time event loop: the real UDSClient.request() runs on a scripted transport that "
    "logs every write/read/reconnect; an offline checker compares each recorded trace with an executable reference machine "
    "(transmission count, identical retransmissions, returned reply identity, exception class and cause, reconnects, time bound). "
    "Besides single requests on a fresh client, sequences of two or three exchanges use ONE config object, ONE request object "
    "(identifier re-assigned in between) and one client whose defaults are re-assigned (or a second live client with other "
    "defaults); every exchange of a sequence is judged on its own with the values in force for that request. Silence inside a "
    "pending chain is scripted both in client polls and in seconds (a reply arriving after a fraction of the silence limit "
    "max(timeout, 20 s)), with effective timeouts on both sides of the client's poll interval. The service of the request is a "
    "dimension: ReadDataByIdentifier (typed and raw) and raw requests (send_raw) for service ids ISO 14229-1 does not define "
    "(KWP 2000 legacy, reserved, manufacturer / supplier specific), judged by the same reference machine"
)
LEVEL_TEXT = (
    "Fault enumeration: every event script up to length 4 (quick) / 5 (thorough) over the 11-letter alphabet {timeout, silence, "
    "connection error on read, on write, empty read, busy, pending, mismatch, malformed, negative final, positive final} x "
    "max_retry 0..3 x {client defaults, per-request overrides}, seeded random scripts up to length 12, and long runs crossing the "
    "pending limit (119/120/121 replies) and the silence limit, all in virtual time; replies that follow a pending after 5..93 % of "
    "the silence limit in seconds, for timeouts 0.05 s .. 30 s (below, at and above the 0.5 s poll interval; client default and "
    "per-request override) in the long runs, in half of the random scripts and of the sequence exchanges; plus usage sequences: every script up to "
    "length 3 (quick) / 4 (thorough) as the second exchange of a sequence x {shared config object sets nothing, max_retry, timeout, "
    "both} with drawn first/third exchanges, client defaults (re-assigned on one client or held by a second live client), request "
    "object reuse (identifier re-assigned / unchanged / fresh, typed and raw), slow-but-in-time first replies, and silence-limit "
    "sequences. Every exhaustive script additionally runs x max_retry 0..3 as a raw request for one of 12 service ids outside ISO 14229-1 "
    "(the id rotates), as do a quarter of the random scripts, long runs, and a quarter of the sequences (the service id of the request "
    "object may change between the exchanges). Held = every recorded trace is one the reference machine allows for the values in force for that request."
)
LEVEL_NOTE = "Trusted: reference machine vf/models/client.py (appendix B), scripted transport vf/scripted_transport.py, virtual clock vf/vtime.py."
RULE = (
    "cases = (script, max_retry, timeout source, timeout value, seconds of silence before replies that follow a pending, service id if not ReadDataByIdentifier), and for sequences (sequence description, index of the exchange); "
    "scripts enumerated exhaustively to the length bound plus seeded random and long-run scripts; non-trivial = script contains at "
    "least one fault/pending/busy letter, or the exchange is a later exchange of a sequence; distinct = distinct case tuples; "
    "distinct_traces = distinct recorded (write/read/reconnect, outcome) sequences"
)
ASSUMPTIONS = [
    "client timeout > 0 (a client without timeout cannot observe timeouts)",
    "after pending-then-silence with attempts left both retransmission and raising missing-response are accepted; after a pending chain a busy reply may be returned or retried",
    "pending overflow may end with any exception type, at 120 or 121 pending replies",
    "a per-request config field that is unset takes the default of the client the request is sent on, at the time of that request; "
    "a reply is matched against the PDU the request object has when request() is called",
    "a reply that follows a responsePending after at most max(timeout, 20 s) - 0.5 s of silence is 'received in time' for every timeout > 0, however the client slices its waiting into polls",
    "for a request whose service id ISO 14229-1 does not define, a positive reply matches iff its id is the request's id + 0x40; negative replies (busy, pending, final, "
    "undecodable) mean the same as for every other service",
    "line-based transports (LinesTransportMixin) are not driven here: an end of stream is the scripted 'empty read' event (C08/C19 drive the real line transports)",
]
EXHAUSTIVE = {"quick": True, "thorough": True}
EXHAUSTIVE_NOTE = (
    "all scripts of length <=4 (quick) / <=5 (thorough) over 11 letters x max_retry {0,1,2,3} x {default, override} timeout source, and x max_retry {0,1,2,3} as a raw "
    "request for a non-ISO service id (id and timeout source rotate); "
    "all scripts of length <=3 / <=4 as second exchange of a usage sequence x 4 shapes of the shared config object (other sequence dimensions drawn)"
)

LETTERS = "TZCEWBPMXNF"
FINAL_CODES = [0x10, 0x11, 0x12, 0x13, 0x22, 0x24, 0x31, 0x33, 0x35, 0x36, 0x37, 0x70, 0x72, 0x7E, 0x7F]
REQ = bytes([0x22, 0x12, 0x34])
# The service of the request is a dimension of its own: besides ReadDataByIdentifier (typed and raw) raw requests are sent for
# service ids ISO 14229-1 does not define (send_raw(): "arbitrary data packets"; what service scans, fuzzers and manufacturer
# specific diagnostics send): KWP 2000 legacy services, ISO-reserved values, the vehicle-manufacturer (0xA0..0xB9) and the
# system-supplier (0xBA..0xBE) ranges.  Listed from the standard, not from gallia's enumeration.  The statement makes no
# difference between services: busy / pending / faults / final replies mean the same for every request.
NON_ISO_SIDS = [0xBA, 0x1A, 0xA0, 0x21, 0xBE, 0x00, 0x30, 0xB9, 0x3B, 0x81, 0xA5, 0x0F]
NON_ISO_TAG = "/raw-request-for-a-non-ISO-service"


def raw_request_pdu(sid: int | None) -> bytes:
    return REQ if sid is None else bytes([sid]) + REQ[1:]


def shards(tier: str, seed: int) -> list[dict[str, Any]]:
    if tier == "quick":
        return ([{"mode": "exh", "maxlen": 4, "part": i, "parts": 16} for i in range(16)] + [{"mode": "rand", "n": 1500, "part": i} for i in range(4)] + [{"mode": "long"}]
                + [{"mode": "seq", "maxlen": 3, "draws": 3, "n": 400, "part": i, "parts": 4} for i in range(4)])
    return ([{"mode": "exh", "maxlen": 5, "part": i, "parts": 32} for i in range(32)] + [{"mode": "rand", "n": 30000, "part": i} for i in range(8)] + [{"mode": "long"}]
            + [{"mode": "seq", "maxlen": 4, "draws": 3, "n": 5000, "part": i, "parts": 8} for i in range(8)])


def required_reach(tier: str) -> dict[str, int]:
    r = {f"pos.first:{c}": 1 for c in LETTERS}
    r.update({f"pos.last:{c}": 1 for c in LETTERS})
    r.update({f"pos.middle:{c}": 1 for c in LETTERS})
    r.update({"outcome.return": 100, "outcome.missing": 100, "outcome.mismatch": 10, "outcome.malformed": 10, "outcome.error": 1,
              "reconnects": 50, "form.raw": 100, "form.typed": 100, "long.pending-limit-crossed": 1, "long.pending-below-limit": 1, "long.silence-limit-crossed": 1,
              "long.silence-below-limit": 1, "override.timeout": 100, "override.max_retry": 100})
    # sequences: later uses of one config object / one request object / one client
    r.update({"seq.exchanges": 5000, "seq.later-use": 2500, "seq.third-use": 300, "seq.form.raw": 1000, "seq.form.typed": 1000,
              "seq.clients:second-live-client": 500, "seq.clients:one-client-defaults-reassigned": 500,
              "seq.later-use.after:return": 200, "seq.later-use.after:missing": 200, "seq.later-use.after:illegal-or-error": 200,
              "seq.later-use.config:unset-max_retry+client-default-differs": 500, "seq.later-use.config:unset-timeout+client-default-differs": 500,
              "seq.later-use.config:set-max_retry": 500, "seq.later-use.config:set-timeout": 500,
              "seq.later-use.discriminates:max_retry": 500, "seq.later-use.discriminates:timeout": 100,
              "seq.later-use.request:identifier-reassigned": 500, "seq.later-use.request:identifier-reassigned+final-reply-scripted": 200,
              "seq.later-use.request:identifier-reassigned+reply-for-old-identifier-scripted": 20,
              "seq.later-use.request:same-object-unchanged": 200, "seq.later-use.request:fresh-object": 200,
              "seq.silence-limit-follows-the-request": 16})
    # silence measured in seconds inside a pending chain (replies received in time), timeouts on both sides of the poll interval
    r.update({"long.silence-seconds-below-limit": 56, "pending-silence-seconds.reply-delivered": 1000,
              "pending-silence-seconds.reply-delivered:second-half-of-the-limit": 500,
              "pending-silence-seconds.reply-delivered:timeout-below-poll-interval": 500,
              "pending-silence-seconds.reply-delivered:timeout-below-poll-interval+client-default": 200,
              "pending-silence-seconds.reply-delivered:timeout-below-poll-interval+per-request-override": 200,
              "pending-silence-seconds.reply-delivered:later-than-limit-in-polls-x-timeout": 300,
              "seq.later-use.reply-after-seconds-of-silence": 300,
              "seq.later-use.reply-after-seconds-of-silence:timeout-below-poll-interval": 100})
    # the service of the request: raw requests for service ids outside ISO 14229-1 meet every event, busy replies in every position
    r.update({f"service.non-iso.event:{c}": 10000 for c in LETTERS})
    r.update({"service.non-iso": 50000, "service.non-iso.busy-with-attempts-left:first-reply": 3000,
              "service.non-iso.busy-with-attempts-left:after-retries": 800, "service.non-iso.busy-inside-pending-chain": 1000,
              "service.non-iso.busy-on-last-attempt": 100, "long.service.non-iso": 36,
              "seq.service.non-iso": 3000, "seq.later-use.service:non-iso": 2000, "seq.service.non-iso.busy-with-attempts-left:first-reply": 200,
              "seq.later-use.service-changed:iso-to-non-iso": 200, "seq.later-use.service-changed:non-iso-to-non-iso": 500,
              "seq.later-use.service-changed:non-iso-to-iso": 40})
    return r


def event_bytes(letter: str, idx: int, req: bytes = REQ, other: int = 0x4321) -> tuple[Any, ...]:
    """the bytes of one scripted event for the request PDU `req` (service id + a two-byte identifier); `other` is the identifier a
    same-service stale reply carries (ReadDataByIdentifier).  For a service id outside ISO 14229-1 nothing but the service id
    relates a positive reply to its request, and only a negative reply can be undecodable."""
    if letter in "TZCEW":
        return (letter,)
    if req[0] != 0x22:
        sid = req[0]
        assert sid < 0x40 or 0x80 <= sid < 0xC0, sid  # a request service id: its positive reply id is sid + 0x40
        if letter == "M":
            # reply of another (ISO) service / negative reply naming another service / positive reply of the neighbouring non-ISO service
            return ("reply", [bytes([0x50, 0x01]), bytes([0x7F, 0x10, 0x31]), bytes([(sid ^ 1) + 0x40, req[1], req[2], idx & 0xFF])][idx % 3])
        if letter == "X":
            # truncated negative reply / negative reply with a response code that does not exist
            return ("reply", bytes([0x7F, sid]) if idx % 2 == 0 else bytes([0x7F, sid, 0x01]))
        if letter == "F":
            return ("reply", bytes([sid + 0x40, req[1], req[2], idx & 0xFF, (idx >> 8) & 0xFF]))
    if letter == "B":
        return ("reply", bytes([0x7F, req[0], 0x21]))
    if letter == "P":
        return ("reply", bytes([0x7F, req[0], 0x78]))
    if letter == "M":
        # reply of another service / negative reply naming another service / same service but another data identifier (a stale reply)
        return ("reply", [bytes([0x50, 0x01]), bytes([0x7F, 0x10, 0x31]), bytes([0x62, other >> 8, other & 0xFF, idx & 0xFF])][idx % 3])
    if letter == "X":
        return ("reply", bytes([0x62, req[1]]) if idx % 2 == 0 else bytes([0x7F, req[0], 0x01]))
    if letter == "N":
        return ("reply", bytes([0x7F, req[0], FINAL_CODES[idx % len(FINAL_CODES)]]))
    if letter == "F":
        return ("reply", bytes([0x62, req[1], req[2], idx & 0xFF, (idx >> 8) & 0xFF]))
    raise AssertionError(letter)


# Silence measured in SECONDS: a reply that directly follows a responsePending (and is therefore read inside the pending chain)
# arrives after this fraction of the silence limit max(timeout, 20 s) of the request - received in time, whatever the timeout is
# (also one below the client's poll interval) and however the client slices the waiting into polls.
PENDING_DELAY_FRACTIONS = [0.05, 0.3, 0.7, 0.93]


def pending_delays(script: list[str] | str, timeout: float, fraction: float | list[float]) -> dict[int, float]:
    """event index -> seconds of silence before it, for every reply that directly follows a pending"""
    idxs = [i for i in range(1, len(script)) if script[i - 1] == "P" and script[i] in cm.REPLIES]
    fr = fraction if isinstance(fraction, list) else [fraction] * len(idxs)
    return {i: f * cm.silence_seconds(timeout) for i, f in zip(idxs, fr)}


def delayed(events: list[tuple[Any, ...]], delays: dict[int, float] | None) -> list[tuple[Any, ...]]:
    events = list(events)
    for i, d in (delays or {}).items():
        assert events[i][0] == "reply"
        events[i] = ("reply", events[i][1], d)
    return events


async def one_run(script: list[str], max_retry: int, timeout: float, override: bool, raw: bool = False,
                  delays: dict[int, float] | None = None, sid: int | None = None) -> dict[str, Any]:
    import asyncio

    from gallia.services.uds.core import service
    from gallia.services.uds.core.client import UDSClient, UDSRequestConfig
    from vf.scripted_transport import ScriptedTransport

    pdu = raw_request_pdu(sid)
    events = delayed([event_bytes(c, i, pdu) for i, c in enumerate(script)], delays)
    tr = ScriptedTransport(events)
    if override:
        cl = UDSClient(tr, timeout=7.0, max_retry=(max_retry + 2) % 4)
        cfg = UDSRequestConfig(timeout=timeout, max_retry=max_retry)
    else:
        cl = UDSClient(tr, timeout=timeout, max_retry=max_retry)
        cfg = None
    loop = asyncio.get_running_loop()
    t0 = loop.time()
    # the same request in its typed form and as the raw request `send_raw()` builds: matching must be equally strict
    # (a service id outside ISO 14229-1 has a raw form only; it goes the way of the public send_raw())
    req = service.RawRequest(pdu) if raw else service.ReadDataByIdentifierRequest(0x1234)
    out: dict[str, Any] = {}
    try:
        resp = await (cl.send_raw(pdu, cfg) if sid is not None else cl.request(req, cfg))
        out["kind"] = "return"
        out["pdu"] = resp.pdu
    except BaseException as e:  # classified below
        out["exc"] = e
    out["vt"] = loop.time() - t0
    out["log"] = tr.log
    return out


def classify(out: dict[str, Any]) -> tuple[str, Any]:
    from gallia.services.uds.core import exception as ex

    if "exc" not in out:
        return "return", None
    e = out["exc"]
    if isinstance(e, ex.MissingResponse):
        return "missing", "conn" if isinstance(e.__cause__, ConnectionError) else "noconn"
    if isinstance(e, ex.RequestResponseMismatch):
        return "mismatch", None
    if isinstance(e, ex.MalformedResponse):
        return "malformed", None
    return "raises:" + type(e).__name__, None


def check_case(ctx: Any, script: list[str], max_retry: int, timeout: float, override: bool, raw: bool | None = None,
               delays: dict[int, float] | None = None, sid: int | None = None) -> None:
    """`sid`: the request is a raw request for this service id, which ISO 14229-1 does not define (None: ReadDataByIdentifier)"""
    if raw is None:
        raw = override  # every script runs in both request forms (typed with client defaults, raw with per-request overrides)
    if sid is not None:
        raw = True
    case = {"script": "".join(script) if len(script) <= 40 else rle(script), "max_retry": max_retry, "timeout": timeout, "override": override, "raw": raw}
    if delays:
        case["delays"] = {str(i): d for i, d in delays.items()}
    if sid is not None:
        case["sid"] = sid
        reach_non_iso(ctx, script, max_retry, "")
    ctx.reach("form.raw" if raw else "form.typed")
    nontrivial = any(c not in "FN" for c in script)
    ctx.case(("".join(script), max_retry, timeout, override, raw) + ((tuple(sorted(delays.items())),) if delays else ()) + (("sid", sid) if sid is not None else ()),
             nontrivial=nontrivial)
    if script:
        ctx.reach(f"pos.first:{script[0]}")
        ctx.reach(f"pos.last:{script[-1]}")
        for c in set(script[1:-1]):
            ctx.reach(f"pos.middle:{c}")
    if override:
        ctx.reach("override.timeout")
        ctx.reach("override.max_retry")
    try:
        out = vtime.run(one_run(script, max_retry, timeout, override, raw, delays, sid))
    except vtime.Deadlock:
        ctx.violation("client/blocks-forever" + (NON_ISO_TAG if sid is not None else ""), "request() can never complete (nothing scheduled, nothing readable)", case)
        return
    pdu = raw_request_pdu(sid)
    judge(ctx, case, script, [event_bytes(c, i, pdu) for i, c in enumerate(script)], max_retry, timeout, out, pdu, delays=delays,
          source="per-request-override" if override else "client-default", tag=NON_ISO_TAG if sid is not None else "")


def reach_non_iso(ctx: Any, script: list[str] | str, max_retry: int, prefix: str) -> None:
    """situations a request for a service id outside ISO 14229-1 is put into (derived from the script, not from what the client did)"""
    ctx.reach(prefix + "service.non-iso")
    for c in set(script):
        ctx.reach(f"{prefix}service.non-iso.event:{c}")
    # a busy reply while attempts are left: every earlier event of the script costs at most one attempt
    if max_retry >= 1 and script and script[0] == "B":
        ctx.reach(prefix + "service.non-iso.busy-with-attempts-left:first-reply")
    k = next((i for i, c in enumerate(script) if c == "B"), None)
    if k is not None and k >= 1 and all(c in "TCEW" for c in script[:k]) and k < max_retry:
        ctx.reach(prefix + "service.non-iso.busy-with-attempts-left:after-retries")
    if any(a == "P" and b == "B" for a, b in zip(script, script[1:])):
        ctx.reach(prefix + "service.non-iso.busy-inside-pending-chain")
    if script and script[-1] == "B" and all(c in "TCEWB" for c in script) and len(script) == max_retry + 1:
        ctx.reach(prefix + "service.non-iso.busy-on-last-attempt")


def judge(ctx: Any, case: dict[str, Any], script: list[str], events: list[tuple[Any, ...]], max_retry: int, timeout: float,
          out: dict[str, Any], req_pdu: bytes, tag: str = "", delays: dict[int, float] | None = None, source: str = "") -> None:
    """One recorded exchange (wire log + outcome of request()) against the reference machine for (script, max_retry, timeout):
    the effective values of THIS request.  `tag` is appended to every mechanism key (later exchanges of a sequence).
    `delays`: seconds of silence before a reply (in time by construction: the reference machine refuses others); `source`: where
    the effective timeout of this request comes from (reach counters only)."""

    def violation(key: str, what: str, witness: Any) -> None:
        ctx.violation(key + tag, what, witness)

    allowed = cm.outcomes(script, max_retry, timeout, delays)
    log = out["log"]
    # replies that arrived after seconds of silence inside a pending chain and were delivered to the client
    for i, d in (delays or {}).items():
        if i > 0 and any(l[0] == "read" and l[5] == i and isinstance(l[4], bytes) for l in log):
            ctx.reach("pending-silence-seconds.reply-delivered")
            if timeout < cm.POLL:
                ctx.reach("pending-silence-seconds.reply-delivered:timeout-below-poll-interval")
                ctx.reach(f"pending-silence-seconds.reply-delivered:timeout-below-poll-interval+{source}")
                if d > cm.silence_polls(timeout)[1] * timeout:
                    # a client that counts the limit in polls but lets a poll last only `timeout` would have given up
                    ctx.reach("pending-silence-seconds.reply-delivered:later-than-limit-in-polls-x-timeout")
            if d > 0.5 * cm.silence_seconds(timeout):
                ctx.reach("pending-silence-seconds.reply-delivered:second-half-of-the-limit")
    writes = [l for l in log if l[0] == "write"]
    reconnects = [l for l in log if l[0] == "reconnect"]
    tx = len(writes)
    kind, detail = classify(out)
    ctx.reach(f"outcome.{kind.split(':')[0] if not kind.startswith('raises') else 'error'}")
    ctx.reach("reconnects", len(reconnects))
    trace = tuple((l[0], l[4] if l[0] in ("read", "write") and not isinstance(l[4], bytes) else ("b" if l[0] in ("read", "write") else None)) for l in log) + (kind,)
    ctx.trace(trace)
    w = {**case, "tx": tx, "outcome": kind, "detail": detail, "reconnects": len(reconnects), "vt": out["vt"],
         "allowed": sorted(map(str, allowed))[:8], "error": repr(out.get("exc"))[:200] if "exc" in out else None,
         "log": [(l[0], round(l[1], 3), l[4] if len(l) > 4 else None) for l in log][-24:]}
    stale = [l for l in log if l[0] == "stale-use"]
    if reconnects:
        ctx.reach("reconnect.returned-new-object", len(reconnects))
    if stale:
        violation(f"client/uses-transport-replaced-by-reconnect/{stale[0][3]}", "after reconnect() returned the new transport the client still used the old (closed) object", w)
        return
    # (a) identical (re)transmissions
    if any(l[3] != req_pdu for l in writes):
        violation("client/retransmission-differs", "a (re)transmission is not byte-identical to request.pdu", w)
    if tx > max_retry + 1:
        violation("client/too-many-transmissions", "the request was put on the wire more than max_retry+1 times", w)
    # (b,c) transmission count and outcome
    cand = [a for a in allowed if a[0] == tx]
    okinds = {a[1] for a in cand}
    pos_in_script = first_special(script) + ("+seconds-of-silence" if any(i > 0 for i in (delays or {})) else "")
    if kind.startswith("raises:"):
        if "error" in okinds:
            pass  # pending overflow may end with any exception
        else:
            violation(f"client/unexpected-exception/{kind[7:]}/after-{pos_in_script}", f"request() ends with {kind[7:]}, which the event sequence does not imply", w)
        return
    if not cand:
        want_tx = sorted({a[0] for a in allowed})
        violation(f"client/transmission-count/{'more' if tx > max(want_tx) else 'fewer' if tx < min(want_tx) else 'other'}-than-implied/after-{pos_in_script}",
                  f"{tx} transmission(s), the event sequence implies {want_tx}", w)
        return
    if kind not in okinds:
        violation(f"client/outcome/{kind}-instead-of-{'|'.join(sorted(okinds))}/after-{pos_in_script}", "outcome differs from what the event sequence implies", w)
        return
    match = [a for a in cand if a[1] == kind]
    if kind == "return":
        idxs = {a[2] for a in match}
        last_read = [l for l in log if l[0] == "read"][-1]
        if last_read[5] not in idxs or out["pdu"] != events[last_read[5]][1]:
            violation("client/returned-other-reply", "the returned reply is not the first final reply delivered (a reply was dropped or fabricated)", {**w, "returned": out["pdu"], "expected_event_index": sorted(idxs)})
            return
    if kind == "missing":
        if detail not in {a[2] for a in match}:
            violation(f"client/missing-response-cause/{detail}", "MissingResponse.__cause__ does not reflect whether the last retry-worthy event was a connection error", w)
    recs = {a[3] for a in match}
    if len(reconnects) not in recs:
        violation("client/reconnect-count", f"{len(reconnects)} reconnect(s), implied {sorted(recs)}", w)
    # every reconnect lies between a connection error and the following transmission
    for i, l in enumerate(log):
        if l[0] == "reconnect":
            prev = [x for x in log[:i] if x[0] in ("read", "write")]
            nxt = [x for x in log[i + 1 :] if x[0] in ("read", "write", "reconnect")]
            ok_prev = bool(prev) and (prev[-1][4] in ("ConnectionResetError", "BrokenPipeError", b""))
            ok_next = bool(nxt) and nxt[0][0] == "write"
            if not (ok_prev and ok_next):
                violation("client/reconnect-misplaced", "reconnect not placed between a connection error and the retransmission", w)
                break
    if out["vt"] > cm.time_bound(max_retry, timeout) * 25:
        violation("client/time-bound", "request took longer (virtual time) than the bound implied by max_retry/timeout", w)


# ---- sequences: one client, one config object and one request object used for two or three exchanges ---------------------------
#
# spec = {"cfg": {"max_retry": int|None, "timeout": float|None},      fields the ONE shared config object sets (tags are always set)
#         "clients": "same" | "other",                                one client whose public defaults are re-assigned between the
#                                                                     exchanges | a second live client (own transport, own defaults),
#                                                                     exchanges alternate A, B, A
#         "request": "same-reassigned" | "same-unchanged" | "fresh",  one request object whose identifier is re-assigned between the
#                                                                     exchanges | the same object sent again | a new object each time
#         "raw": bool,                                                RawRequest (pdu setter) or ReadDataByIdentifierRequest (data_identifier setter)
#         "exchanges": [{"script": str, "client_max_retry": int, "client_timeout": float, "did": int, "slow": bool,
#                        "pending_delay": float|None}, ...]}    slow: the first reply arrives after SLOW_FRACTION of the effective
#                                                                 timeout; pending_delay: every reply that directly follows a pending
#                                                                 arrives after this fraction of the silence limit max(timeout, 20 s)
#
# Every exchange is judged on its own against the reference machine with the values in force for THAT request: a field the config
# object sets, else the default of the client the request is sent on at that moment (an unset field of the config stays unset).

SEQ_TIMEOUTS = [0.05, 0.1, 0.3, 2.0, 30.0]  # three of them below the client's poll interval
RAND_TIMEOUTS = [0.05, 0.1, 0.2, 0.3, 2.0, 30.0]
SLOW_FRACTION = 0.6  # a "slow" first reply arrives after this fraction of the effective timeout: in time


def effective(spec: dict[str, Any], k: int) -> tuple[int, float]:
    x = spec["exchanges"][k]
    mr = spec["cfg"]["max_retry"] if spec["cfg"]["max_retry"] is not None else x["client_max_retry"]
    to = spec["cfg"]["timeout"] if spec["cfg"]["timeout"] is not None else x["client_timeout"]
    return mr, to


def seq_request_pdu(x: dict[str, Any]) -> bytes:
    """`sid` (raw sequences only): a service id outside ISO 14229-1 instead of ReadDataByIdentifier"""
    return bytes([x.get("sid") or 0x22, x["did"] >> 8, x["did"] & 0xFF])


def seq_events(spec: dict[str, Any], k: int) -> list[tuple[Any, ...]]:
    x = spec["exchanges"][k]
    # a same-service stale reply names the identifier this request object carried in the previous exchange (if it differs)
    other = spec["exchanges"][k - 1]["did"] if k > 0 and spec["exchanges"][k - 1]["did"] != x["did"] else (0x4321 if x["did"] != 0x4321 else 0x4322)
    events = [event_bytes(c, i, seq_request_pdu(x), other) for i, c in enumerate(x["script"])]
    return delayed(events, seq_delays(spec, k))


def seq_delays(spec: dict[str, Any], k: int) -> dict[int, float]:
    x = spec["exchanges"][k]
    to = effective(spec, k)[1]
    delays = pending_delays(x["script"], to, x["pending_delay"]) if x.get("pending_delay") else {}
    if x.get("slow") and x["script"] and x["script"][0] in cm.REPLIES:
        delays[0] = SLOW_FRACTION * to
    return delays


def load_script(tr: Any, events: list[tuple[Any, ...]]) -> None:
    """a new script and an empty log for the next exchange on this connection (all generations of a ScriptedTransport share `_st`)"""
    tr._st["script"] = list(events)
    tr._st["pos"] = 0
    tr._st["log"] = []


async def run_sequence(spec: dict[str, Any]) -> list[dict[str, Any]]:
    import asyncio

    from gallia.services.uds.core import service
    from gallia.services.uds.core.client import UDSClient, UDSRequestConfig
    from vf.scripted_transport import ScriptedTransport

    xs = spec["exchanges"]
    cfg = UDSRequestConfig(tags=["sequence"], **{f: v for f, v in spec["cfg"].items() if v is not None})
    n_clients = 2 if spec["clients"] == "other" and len(xs) > 1 else 1
    clients = [UDSClient(ScriptedTransport([]), timeout=xs[j]["client_timeout"], max_retry=xs[j]["client_max_retry"]) for j in range(n_clients)]

    def make(x: dict[str, Any]) -> Any:
        return service.RawRequest(seq_request_pdu(x)) if spec["raw"] else service.ReadDataByIdentifierRequest(x["did"])

    loop = asyncio.get_running_loop()
    req = make(xs[0])
    outs: list[dict[str, Any]] = []
    for k, x in enumerate(xs):
        cl = clients[k % n_clients]
        # the public defaults of the client, (re-)assigned before this request
        cl.max_retry = x["client_max_retry"]
        cl.timeout = x["client_timeout"]
        if k > 0:
            if spec["request"] == "fresh":
                req = make(x)
            elif spec["request"] == "same-reassigned":
                if spec["raw"]:
                    req.pdu = seq_request_pdu(x)
                else:
                    req.data_identifier = x["did"]
        load_script(cl.transport, seq_events(spec, k))
        out: dict[str, Any] = {}
        t0 = loop.time()
        try:
            resp = await cl.request(req, cfg)
            out["kind"] = "return"
            out["pdu"] = resp.pdu
        except BaseException as e:  # classified by the judge
            out["exc"] = e
        out["vt"] = loop.time() - t0
        out["log"] = cl.transport.log
        out["cfg_after"] = {"max_retry": cfg.max_retry, "timeout": cfg.timeout}
        outs.append(out)
    return outs


def check_sequence(ctx: Any, spec: dict[str, Any]) -> None:
    xs = spec["exchanges"]
    try:
        outs = vtime.run(run_sequence(spec))
    except vtime.Deadlock:
        ctx.violation("client/blocks-forever/in-sequence", "a request() of the sequence can never complete (nothing scheduled, nothing readable)", {"seq": spec})
        return
    ctx.reach(f"seq.clients:{'second-live-client' if spec['clients'] == 'other' and len(xs) > 1 else 'one-client-defaults-reassigned'}")
    prev_kind = None
    for k, (x, out) in enumerate(zip(xs, outs)):
        script = list(x["script"])
        mr, to = effective(spec, k)
        case = {"seq": spec, "exchange": k, "script": x["script"] if len(script) <= 40 else rle(script), "max_retry": mr, "timeout": to,
                "override": spec["cfg"], "raw": spec["raw"], "config_object_after": out["cfg_after"]}
        ctx.case(("seq", repr(spec), k), nontrivial=k > 0)
        ctx.reach("seq.exchanges")
        ctx.reach("seq.form.raw" if spec["raw"] else "seq.form.typed")
        non_iso = x.get("sid") is not None
        if non_iso:
            reach_non_iso(ctx, script, mr, "seq.")
        if k > 0:
            pmr, pto = effective(spec, k - 1)
            ctx.reach("seq.later-use")
            if k > 1:
                ctx.reach("seq.third-use")
            ctx.reach(f"seq.later-use.after:{prev_kind}")
            for field, own, prev, cl_own, cl_prev in (("max_retry", mr, pmr, x["client_max_retry"], xs[k - 1]["client_max_retry"]),
                                                      ("timeout", to, pto, x["client_timeout"], xs[k - 1]["client_timeout"])):
                if spec["cfg"][field] is None:
                    ctx.reach(f"seq.later-use.config:unset-{field}")
                    if cl_own != cl_prev:
                        ctx.reach(f"seq.later-use.config:unset-{field}+client-default-differs")
                else:
                    ctx.reach(f"seq.later-use.config:set-{field}")
            # would a value carried over from the previous exchange show?  (the reference machine allows other end states for it,
            # or the slow first reply would be too late for it, or it would put the silence limit elsewhere)
            if cm.outcomes(script, pmr, to) != cm.outcomes(script, mr, to):
                ctx.reach("seq.later-use.discriminates:max_retry")
            slow_reply = bool(x.get("slow")) and bool(script) and script[0] in "BPMXNF"
            if any(i > 0 for i in seq_delays(spec, k)):
                ctx.reach("seq.later-use.reply-after-seconds-of-silence")
                if to < cm.POLL:
                    ctx.reach("seq.later-use.reply-after-seconds-of-silence:timeout-below-poll-interval")
            late_for_prev = any(i > 0 and not cm.in_time_after_pending(d, pto) for i, d in seq_delays(spec, k).items())
            if (slow_reply and pto < SLOW_FRACTION * to) or late_for_prev or cm.outcomes(script, mr, pto) != cm.outcomes(script, mr, to):
                ctx.reach("seq.later-use.discriminates:timeout")
            if non_iso:
                ctx.reach("seq.later-use.service:non-iso")
            if x.get("sid") != xs[k - 1].get("sid"):
                # the service id of the request changed with respect to the previous exchange (same request object or a fresh one)
                ctx.reach(f"seq.later-use.service-changed:{'iso-to-non-iso' if xs[k - 1].get('sid') is None else 'non-iso-to-iso' if not non_iso else 'non-iso-to-non-iso'}")
            if spec["request"] == "same-reassigned" and x["did"] != xs[k - 1]["did"]:
                ctx.reach("seq.later-use.request:identifier-reassigned")
                if any(c in "FN" for c in script):
                    ctx.reach("seq.later-use.request:identifier-reassigned+final-reply-scripted")
                if not non_iso and any(c == "M" and i % 3 == 2 for i, c in enumerate(script)):
                    ctx.reach("seq.later-use.request:identifier-reassigned+reply-for-old-identifier-scripted")
            elif spec["request"] == "same-unchanged":
                ctx.reach("seq.later-use.request:same-object-unchanged")
            else:
                ctx.reach("seq.later-use.request:fresh-object")
        kind, _ = classify(out)
        prev_kind = "return" if kind == "return" else "missing" if kind == "missing" else "illegal-or-error"
        judge(ctx, case, script, seq_events(spec, k), mr, to, out, seq_request_pdu(x), tag=("/later-exchange-of-a-sequence" if k > 0 else "") + (NON_ISO_TAG if non_iso else ""),
              delays=seq_delays(spec, k), source="per-request-override" if spec["cfg"]["timeout"] is not None else "client-default")


def short_scripts(maxlen: int) -> list[str]:
    return ["".join(t) for ln in range(maxlen + 1) for t in itertools.product(LETTERS, repeat=ln)]


def draw_sequence(rng: Any, cfg_pattern: int, later_script: str | None, randlen: tuple[int, int] | None = None) -> dict[str, Any]:
    """cfg_pattern: bit 0 = the config object sets max_retry, bit 1 = it sets timeout.  `later_script` (if given) is the script of the
    second exchange; everything else is drawn."""
    weights = [3, 1, 2, 2, 1, 3, 5, 1, 1, 2, 2]

    def script() -> str:
        if randlen is not None:
            return "".join(rng.choices(LETTERS, weights=weights, k=rng.randint(*randlen)))
        return "".join(rng.choices(LETTERS, weights=weights, k=rng.randint(0, 3)))

    n = 3 if rng.random() < 0.34 else 2
    request = rng.choice(["same-reassigned", "same-reassigned", "same-unchanged", "fresh"])
    dids = [rng.randrange(0x10000)]
    for _ in range(n - 1):
        dids.append(dids[-1] if request == "same-unchanged" else rng.choice([d for d in (rng.randrange(0x10000), dids[-1] ^ 1, dids[-1] ^ 0x100, dids[0]) if d != dids[-1]]))
    mrs = [rng.randrange(4)]
    tos = [rng.choice(SEQ_TIMEOUTS)]
    for _ in range(n - 1):
        # the default in force for the next request differs from the previous one most of the time
        mrs.append(rng.choice([m for m in range(4) if m != mrs[-1]]) if rng.random() < 0.85 else mrs[-1])
        tos.append(rng.choice([t for t in SEQ_TIMEOUTS if t != tos[-1]]) if rng.random() < 0.85 else tos[-1])
    xs = [{"script": later_script if (k == 1 and later_script is not None) else script(), "client_max_retry": mrs[k], "client_timeout": tos[k],
           "did": dids[k], "slow": rng.random() < 0.5, "pending_delay": rng.choice(PENDING_DELAY_FRACTIONS) if rng.random() < 0.5 else None}
          for k in range(n)]
    raw = rng.random() < 0.5
    if raw and rng.random() < 0.5:
        # raw requests for a service id outside ISO 14229-1: in every exchange, or in some (the service changes between the exchanges,
        # unless the very same request is sent again)
        sids = [rng.choice(NON_ISO_SIDS)]
        for _ in range(n - 1):
            sids.append(sids[-1] if request == "same-unchanged" or rng.random() < 0.5 else rng.choice([None] + [q for q in NON_ISO_SIDS if q != sids[-1]]))
        if request != "same-unchanged" and rng.random() < 0.25:
            sids[0] = None
        for x, sid in zip(xs, sids):
            if sid is not None:
                x["sid"] = sid
    return {"cfg": {"max_retry": rng.randrange(4) if cfg_pattern & 1 else None, "timeout": rng.choice(SEQ_TIMEOUTS) if cfg_pattern & 2 else None},
            "clients": rng.choice(["same", "other"]), "request": request, "raw": raw, "exchanges": xs}


def silence_limit_sequences() -> list[dict[str, Any]]:
    """the silence limit after a pending reply (max(timeout, 20 s) of polls) follows the timeout in force for THAT request"""
    res = []
    lo2, hi2 = cm.silence_polls(2.0)
    lo30, hi30 = cm.silence_polls(30.0)
    k = (hi2 + lo30) // 2  # silent polls: beyond the limit for timeout 2, below it for timeout 30
    for clients in ("same", "other"):
        for request in ("same-reassigned", "same-unchanged"):
            for raw in (False, True):
                for t1, t2 in ((2.0, 30.0), (30.0, 2.0)):
                    for mr in (0, 1):
                        xs = [{"script": "P" + "T" * k + "F", "client_max_retry": mr, "client_timeout": t, "did": 0x2000 + i * (request == "same-reassigned"), "slow": False}
                              for i, t in enumerate((t1, t2, t1))]
                        res.append({"cfg": {"max_retry": None, "timeout": None}, "clients": clients, "request": request, "raw": raw, "exchanges": xs})
                        res.append({"cfg": {"max_retry": mr, "timeout": None}, "clients": clients, "request": request, "raw": raw, "exchanges": xs[:2]})
    return res


def first_special(script: list[str]) -> str:
    """coarse description of where in the script the decisive event sits (for mechanism keys)"""
    s = "".join(script)
    if "P" in s:
        i = s.index("P")
        rest = s[i + 1 :].lstrip("PT")
        return "pending+" + (rest[0] if rest else "silence")
    return "initial"


def rle(script: list[str]) -> str:
    return "".join(f"{c}{len(list(g))}" if len(list(g2 := list(g))) > 3 else "".join(g2) for c, g in itertools.groupby(script)) if False else "".join(
        (f"{c}*{n}" if n > 3 else c * n) for c, n in ((c, len(list(g))) for c, g in itertools.groupby(script)))


def run(ctx: Any, params: dict[str, Any]) -> None:
    import gallia.command  # noqa: F401

    vtime.quiet_logging()
    rng = ctx.rng
    mode = params["mode"]
    if mode == "exh":
        k = 0
        for ln in range(0, params["maxlen"] + 1):
            for tup in itertools.product(LETTERS, repeat=ln):
                k += 1
                if k % params["parts"] != params["part"]:
                    continue
                script = list(tup)
                for mr in (0, 1, 2, 3):
                    for override in (False, True):
                        check_case(ctx, script, mr, 0.3 if not override else 2.0, override)
                    # ... and as a raw request for a service id outside ISO 14229-1 (the id rotates over the scripts)
                    check_case(ctx, script, mr, 0.3 if k % 2 else 2.0, bool(k % 2), sid=NON_ISO_SIDS[(k // 2 + mr) % len(NON_ISO_SIDS)])
                if k % 997 == 0:
                    ctx.sample({"script": "".join(script), "max_retry": [0, 1, 2, 3], "override": [False, True]})
    elif mode == "rand":
        for i in range(params["n"]):
            ln = rng.randint(4, 12)
            weights = [3, 1, 2, 2, 1, 3, 5, 1, 1, 2, 2]
            script = rng.choices(LETTERS, weights=weights, k=ln)
            mr = rng.randrange(4)
            override = rng.random() < 0.5
            timeout = rng.choice(RAND_TIMEOUTS)
            # half of the scripts: replies that directly follow a pending arrive after seconds of silence (each its own fraction of the limit)
            after_pending = pending_delays(script, timeout, 0.0)
            delays = pending_delays(script, timeout, [rng.choice(PENDING_DELAY_FRACTIONS) for _ in after_pending]) if rng.random() < 0.5 else None
            raw = rng.random() < 0.5
            # half of the raw requests are for a service id outside ISO 14229-1
            check_case(ctx, script, mr, timeout, override, raw, delays or None, sid=rng.choice(NON_ISO_SIDS) if raw and rng.random() < 0.5 else None)
            if i % 400 == 0:
                ctx.sample({"script": "".join(script), "max_retry": mr, "timeout": timeout, "override": override})
            if ctx.out_of_time():
                break
    elif mode == "seq":
        # every script up to the length bound as the SECOND exchange x the four shapes of the shared config object
        # (sets nothing / max_retry / timeout / both); the other dimensions are drawn
        for k, later in enumerate(short_scripts(params["maxlen"])):
            if k % params["parts"] != params["part"]:
                continue
            for pattern in range(4):
                for _ in range(params.get("draws", 1)):
                    spec = draw_sequence(rng, pattern, later)
                    check_sequence(ctx, spec)
            if k % 199 == 0:
                ctx.sample({"sequence": spec})
        for i in range(params["n"]):
            spec = draw_sequence(rng, rng.randrange(4), None, randlen=(2, 8))
            check_sequence(ctx, spec)
            if i % 200 == 0:
                ctx.sample({"sequence": spec})
            if ctx.out_of_time():
                break
        for j, spec in enumerate(silence_limit_sequences()):
            if j % params["parts"] == params["part"]:
                check_sequence(ctx, spec)
                ctx.reach("seq.silence-limit-follows-the-request")
    else:
        # silence in seconds: [pending, seconds of silence below the limit, (pending, silence,) final reply] for timeouts on both
        # sides of the poll interval, as client default and as per-request override
        for timeout in (0.05, 0.1, 0.2, 0.49, 0.5, 2.0, 30.0):
            for mr in (0, 1):
                for f in PENDING_DELAY_FRACTIONS:
                    for override in (False, True):
                        for script in [["P", "F"], ["P", "P", "N"], ["P", "T", "P", "B"]] + ([["T", "P", "F"], ["P", "C", "P", "F"]] if mr else []):
                            check_case(ctx, script, mr, timeout, override, delays=pending_delays(script, timeout, f))
                    ctx.reach("long.silence-seconds-below-limit")
        for timeout in (0.1, 2.0, 30.0):
            lo, hi = cm.silence_polls(timeout)
            for mr in (0, 1):
                for npend in (1, 60, 118, 119):
                    check_case(ctx, ["P"] * npend + ["F"], mr, timeout, False)
                    ctx.reach("long.pending-below-limit")
                for npend in (120, 121, 122, 200):
                    check_case(ctx, ["P"] * npend + ["F"], mr, timeout, False)
                    ctx.reach("long.pending-limit-crossed")
                for k in (1, lo // 2, lo - 1):
                    check_case(ctx, ["P"] + ["T"] * k + ["F"], mr, timeout, False)
                    check_case(ctx, ["P"] + ["T"] * k + ["P"] + ["T"] * k + ["N"], mr, timeout, True)
                    ctx.reach("long.silence-below-limit")
                for k in (hi, hi + 1, hi + 30):
                    check_case(ctx, ["P"] + ["T"] * k + ["F"], mr, timeout, False)
                    check_case(ctx, ["P", "P"] + ["T"] * k + ["F", "F"], mr, timeout, True)
                    ctx.reach("long.silence-limit-crossed")
                check_case(ctx, ["P"] + ["T"] * lo + ["F"], mr, timeout, False)  # exactly at the limit: either reading accepted
                check_case(ctx, ["P", "Z", "F"], mr, timeout, False)
                check_case(ctx, ["P", "T", "P", "T", "P", "C", "F"], mr, timeout, False)
        # the long runs for raw requests whose service id is outside ISO 14229-1
        for j, sid in enumerate(NON_ISO_SIDS):
            timeout = (0.1, 2.0, 30.0)[j % 3]
            lo, hi = cm.silence_polls(timeout)
            for mr in (0, 1, 3):
                override = bool((j + mr) % 2)
                for script in (["P"] * 119 + ["F"], ["P"] * 121 + ["F"], ["B", "P"] + ["T"] * (lo // 2) + ["N"], ["P"] + ["T"] * (hi + 1) + ["B", "F"],
                               ["B"] * 4, ["T", "B", "C", "B", "F"], ["P", "T", "P", "B", "B", "F"]):
                    check_case(ctx, script, mr, timeout, override, sid=sid)
                check_case(ctx, ["B", "P", "F"], mr, timeout, override, delays=pending_delays("BPF", timeout, PENDING_DELAY_FRACTIONS[(j + mr) % 4]), sid=sid)
                ctx.reach("long.service.non-iso")
        ctx.sample({"long": "P*119 F / P*120 F / P T*39 F / P T*41 F ..."})


def replay(ctx: Any, witness: dict[str, Any]) -> None:
    import re

    import gallia.command  # noqa: F401

    vtime.quiet_logging()
    if "seq" in witness:
        check_sequence(ctx, witness["seq"])
        return
    s = witness["script"]
    script: list[str] = []
    for m in re.finditer(r"([A-Z])(?:\*(\d+))?", s):
        script += [m.group(1)] * int(m.group(2) or 1)
    check_case(ctx, script, witness["max_retry"], witness["timeout"], witness["override"], witness.get("raw"),
               {int(i): d for i, d in witness["delays"].items()} if witness.get("delays") else None, sid=witness.get("sid"))
