"""C04 One client request ends with the outcome its reply/fault sequence implies (DESIGN.md section 3, appendix B)."""

from __future__ import annotations

import itertools
from typing import Any

from vf import vtime
from vf.models import client as cm

PROPERTY = "C04"
LEVEL = "fault_enumeration"
ENGINE = "vtime-memstream"
TECHNIQUE = (
    "fault-script enumeration under a virtual-time event loop: the real UDSClient.request() runs on a scripted transport that "
    "logs every write/read/reconnect; an offline checker compares each recorded trace with an executable reference machine "
    "(transmission count, identical retransmissions, returned reply identity, exception class and cause, reconnects, time bound)"
)
LEVEL_TEXT = (
    "Fault enumeration: every event script up to length 4 (quick) / 5 (thorough) over the 11-letter alphabet {timeout, silence, "
    "connection error on read, on write, empty read, busy, pending, mismatch, malformed, negative final, positive final} x "
    "max_retry 0..3 x {client defaults, per-request overrides}, seeded random scripts up to length 12, and long runs crossing the "
    "pending limit (119/120/121 replies) and the silence limit, all in virtual time. Held = every recorded trace is one the "
    "reference machine allows."
)
LEVEL_NOTE = "Trusted: reference machine vf/models/client.py (appendix B), scripted transport vf/scripted_transport.py, virtual clock vf/vtime.py."
RULE = (
    "cases = (script, max_retry, timeout source, timeout value); scripts enumerated exhaustively to the length bound plus seeded "
    "random and long-run scripts; non-trivial = script contains at least one fault/pending/busy letter; distinct = distinct case tuples; "
    "distinct_traces = distinct recorded (write/read/reconnect, outcome) sequences"
)
ASSUMPTIONS = [
    "client timeout > 0 (a client without timeout cannot observe timeouts)",
    "after pending-then-silence with attempts left both retransmission and raising missing-response are accepted; after a pending chain a busy reply may be returned or retried",
    "pending overflow may end with any exception type, at 120 or 121 pending replies",
]
EXHAUSTIVE = {"quick": True, "thorough": True}
EXHAUSTIVE_NOTE = "all scripts of length <=4 (quick) / <=5 (thorough) over 11 letters x max_retry {0,1,2,3} x {default, override} timeout source"

LETTERS = "TZCEWBPMXNF"
FINAL_CODES = [0x10, 0x11, 0x12, 0x13, 0x22, 0x24, 0x31, 0x33, 0x35, 0x36, 0x37, 0x70, 0x72, 0x7E, 0x7F]
REQ = bytes([0x22, 0x12, 0x34])


def shards(tier: str, seed: int) -> list[dict[str, Any]]:
    if tier == "quick":
        return [{"mode": "exh", "maxlen": 4, "part": i, "parts": 16} for i in range(16)] + [{"mode": "rand", "n": 1500, "part": i} for i in range(4)] + [{"mode": "long"}]
    return [{"mode": "exh", "maxlen": 5, "part": i, "parts": 32} for i in range(32)] + [{"mode": "rand", "n": 30000, "part": i} for i in range(8)] + [{"mode": "long"}]


def required_reach(tier: str) -> dict[str, int]:
    r = {f"pos.first:{c}": 1 for c in LETTERS}
    r.update({f"pos.last:{c}": 1 for c in LETTERS})
    r.update({f"pos.middle:{c}": 1 for c in LETTERS})
    r.update({"outcome.return": 100, "outcome.missing": 100, "outcome.mismatch": 10, "outcome.malformed": 10, "outcome.error": 1,
              "reconnects": 50, "form.raw": 100, "form.typed": 100, "long.pending-limit-crossed": 1, "long.pending-below-limit": 1, "long.silence-limit-crossed": 1,
              "long.silence-below-limit": 1, "override.timeout": 100, "override.max_retry": 100})
    return r


def event_bytes(letter: str, idx: int) -> tuple[Any, ...]:
    if letter in "TZCEW":
        return (letter,)
    if letter == "B":
        return ("reply", bytes([0x7F, REQ[0], 0x21]))
    if letter == "P":
        return ("reply", bytes([0x7F, REQ[0], 0x78]))
    if letter == "M":
        # reply of another service / negative reply naming another service / same service but another data identifier (a stale reply)
        return ("reply", [bytes([0x50, 0x01]), bytes([0x7F, 0x10, 0x31]), bytes([0x62, 0x43, 0x21, idx & 0xFF])][idx % 3])
    if letter == "X":
        return ("reply", bytes([0x62, 0x12]) if idx % 2 == 0 else bytes([0x7F, REQ[0], 0x01]))
    if letter == "N":
        return ("reply", bytes([0x7F, REQ[0], FINAL_CODES[idx % len(FINAL_CODES)]]))
    if letter == "F":
        return ("reply", bytes([0x62, 0x12, 0x34, idx & 0xFF, (idx >> 8) & 0xFF]))
    raise AssertionError(letter)


async def one_run(script: list[str], max_retry: int, timeout: float, override: bool, raw: bool = False) -> dict[str, Any]:
    import asyncio

    from gallia.services.uds.core import service
    from gallia.services.uds.core.client import UDSClient, UDSRequestConfig
    from vf.scripted_transport import ScriptedTransport

    events = [event_bytes(c, i) for i, c in enumerate(script)]
    tr = ScriptedTransport(events)
    if override:
        cl = UDSClient(tr, timeout=7.0, max_retry=(max_retry + 2) % 4)
        cfg = UDSRequestConfig(timeout=timeout, max_retry=max_retry)
    else:
        cl = UDSClient(tr, timeout=timeout, max_retry=max_retry)
        cfg = None
    loop = asyncio.get_running_loop()
    t0 = loop.time()
    # the same request in its typed form and as the raw request `send_raw()` builds: matching must be equally strict
    req = service.RawRequest(REQ) if raw else service.ReadDataByIdentifierRequest(0x1234)
    out: dict[str, Any] = {}
    try:
        resp = await cl.request(req, cfg)
        out["kind"] = "return"
        out["pdu"] = resp.pdu
    except BaseException as e:  # classified below
        out["exc"] = e
    out["vt"] = loop.time() - t0
    out["log"] = tr.log
    return out


def classify(out: dict[str, Any]) -> tuple[str, Any]:
    from gallia.services.uds.core import exception as ex

    if "exc" not in out:
        return "return", None
    e = out["exc"]
    if isinstance(e, ex.MissingResponse):
        return "missing", "conn" if isinstance(e.__cause__, ConnectionError) else "noconn"
    if isinstance(e, ex.RequestResponseMismatch):
        return "mismatch", None
    if isinstance(e, ex.MalformedResponse):
        return "malformed", None
    return "raises:" + type(e).__name__, None


def check_case(ctx: Any, script: list[str], max_retry: int, timeout: float, override: bool, raw: bool | None = None) -> None:
    if raw is None:
        raw = override  # every script runs in both request forms (typed with client defaults, raw with per-request overrides)
    case = {"script": "".join(script) if len(script) <= 40 else rle(script), "max_retry": max_retry, "timeout": timeout, "override": override, "raw": raw}
    ctx.reach("form.raw" if raw else "form.typed")
    nontrivial = any(c not in "FN" for c in script)
    ctx.case(("".join(script), max_retry, timeout, override, raw), nontrivial=nontrivial)
    if script:
        ctx.reach(f"pos.first:{script[0]}")
        ctx.reach(f"pos.last:{script[-1]}")
        for c in set(script[1:-1]):
            ctx.reach(f"pos.middle:{c}")
    if override:
        ctx.reach("override.timeout")
        ctx.reach("override.max_retry")
    try:
        out = vtime.run(one_run(script, max_retry, timeout, override, raw))
    except vtime.Deadlock:
        ctx.violation("client/blocks-forever", "request() can never complete (nothing scheduled, nothing readable)", case)
        return
    allowed = cm.outcomes(script, max_retry, timeout)
    log = out["log"]
    writes = [l for l in log if l[0] == "write"]
    reconnects = [l for l in log if l[0] == "reconnect"]
    tx = len(writes)
    kind, detail = classify(out)
    ctx.reach(f"outcome.{kind.split(':')[0] if not kind.startswith('raises') else 'error'}")
    ctx.reach("reconnects", len(reconnects))
    trace = tuple((l[0], l[4] if l[0] in ("read", "write") and not isinstance(l[4], bytes) else ("b" if l[0] in ("read", "write") else None)) for l in log) + (kind,)
    ctx.trace(trace)
    w = {**case, "tx": tx, "outcome": kind, "detail": detail, "reconnects": len(reconnects), "vt": out["vt"],
         "allowed": sorted(map(str, allowed))[:8], "error": repr(out.get("exc"))[:200] if "exc" in out else None,
         "log": [(l[0], round(l[1], 3), l[4] if len(l) > 4 else None) for l in log][-24:]}
    stale = [l for l in log if l[0] == "stale-use"]
    if reconnects:
        ctx.reach("reconnect.returned-new-object", len(reconnects))
    if stale:
        ctx.violation(f"client/uses-transport-replaced-by-reconnect/{stale[0][3]}", "after reconnect() returned the new transport the client still used the old (closed) object", w)
        return
    # (a) identical (re)transmissions
    if any(l[3] != REQ for l in writes):
        ctx.violation("client/retransmission-differs", "a (re)transmission is not byte-identical to request.pdu", w)
    if tx > max_retry + 1:
        ctx.violation("client/too-many-transmissions", "the request was put on the wire more than max_retry+1 times", w)
    # (b,c) transmission count and outcome
    cand = [a for a in allowed if a[0] == tx]
    okinds = {a[1] for a in cand}
    pos_in_script = first_special(script)
    if kind.startswith("raises:"):
        if "error" in okinds:
            pass  # pending overflow may end with any exception
        else:
            ctx.violation(f"client/unexpected-exception/{kind[7:]}/after-{pos_in_script}", f"request() ends with {kind[7:]}, which the event sequence does not imply", w)
        return
    if not cand:
        want_tx = sorted({a[0] for a in allowed})
        ctx.violation(f"client/transmission-count/{'more' if tx > max(want_tx) else 'fewer' if tx < min(want_tx) else 'other'}-than-implied/after-{pos_in_script}",
                      f"{tx} transmission(s), the event sequence implies {want_tx}", w)
        return
    if kind not in okinds:
        ctx.violation(f"client/outcome/{kind}-instead-of-{'|'.join(sorted(okinds))}/after-{pos_in_script}", "outcome differs from what the event sequence implies", w)
        return
    match = [a for a in cand if a[1] == kind]
    if kind == "return":
        idxs = {a[2] for a in match}
        last_read = [l for l in log if l[0] == "read"][-1]
        if last_read[5] not in idxs or out["pdu"] != event_bytes(script[last_read[5]], last_read[5])[1]:
            ctx.violation("client/returned-other-reply", "the returned reply is not the first final reply delivered (a reply was dropped or fabricated)", {**w, "returned": out["pdu"], "expected_event_index": sorted(idxs)})
            return
    if kind == "missing":
        if detail not in {a[2] for a in match}:
            ctx.violation(f"client/missing-response-cause/{detail}", "MissingResponse.__cause__ does not reflect whether the last retry-worthy event was a connection error", w)
    recs = {a[3] for a in match}
    if len(reconnects) not in recs:
        ctx.violation("client/reconnect-count", f"{len(reconnects)} reconnect(s), implied {sorted(recs)}", w)
    # every reconnect lies between a connection error and the following transmission
    for i, l in enumerate(log):
        if l[0] == "reconnect":
            prev = [x for x in log[:i] if x[0] in ("read", "write")]
            nxt = [x for x in log[i + 1 :] if x[0] in ("read", "write", "reconnect")]
            ok_prev = bool(prev) and (prev[-1][4] in ("ConnectionResetError", "BrokenPipeError", b""))
            ok_next = bool(nxt) and nxt[0][0] == "write"
            if not (ok_prev and ok_next):
                ctx.violation("client/reconnect-misplaced", "reconnect not placed between a connection error and the retransmission", w)
                break
    if out["vt"] > cm.time_bound(max_retry, timeout) * 25:
        ctx.violation("client/time-bound", "request took longer (virtual time) than the bound implied by max_retry/timeout", w)


def first_special(script: list[str]) -> str:
    """coarse description of where in the script the decisive event sits (for mechanism keys)"""
    s = "".join(script)
    if "P" in s:
        i = s.index("P")
        rest = s[i + 1 :].lstrip("PT")
        return "pending+" + (rest[0] if rest else "silence")
    return "initial"


def rle(script: list[str]) -> str:
    return "".join(f"{c}{len(list(g))}" if len(list(g2 := list(g))) > 3 else "".join(g2) for c, g in itertools.groupby(script)) if False else "".join(
        (f"{c}*{n}" if n > 3 else c * n) for c, n in ((c, len(list(g))) for c, g in itertools.groupby(script)))


def run(ctx: Any, params: dict[str, Any]) -> None:
    import gallia.command  # noqa: F401

    vtime.quiet_logging()
    rng = ctx.rng
    mode = params["mode"]
    if mode == "exh":
        k = 0
        for ln in range(0, params["maxlen"] + 1):
            for tup in itertools.product(LETTERS, repeat=ln):
                k += 1
                if k % params["parts"] != params["part"]:
                    continue
                script = list(tup)
                for mr in (0, 1, 2, 3):
                    for override in (False, True):
                        check_case(ctx, script, mr, 0.3 if not override else 2.0, override)
                if k % 997 == 0:
                    ctx.sample({"script": "".join(script), "max_retry": [0, 1, 2, 3], "override": [False, True]})
    elif mode == "rand":
        for i in range(params["n"]):
            ln = rng.randint(4, 12)
            weights = [3, 1, 2, 2, 1, 3, 5, 1, 1, 2, 2]
            script = rng.choices(LETTERS, weights=weights, k=ln)
            mr = rng.randrange(4)
            override = rng.random() < 0.5
            timeout = rng.choice([0.1, 0.3, 2.0, 30.0])
            check_case(ctx, script, mr, timeout, override, rng.random() < 0.5)
            if i % 400 == 0:
                ctx.sample({"script": "".join(script), "max_retry": mr, "timeout": timeout, "override": override})
            if ctx.out_of_time():
                break
    else:
        for timeout in (0.1, 2.0, 30.0):
            lo, hi = cm.silence_polls(timeout)
            for mr in (0, 1):
                for npend in (1, 60, 118, 119):
                    check_case(ctx, ["P"] * npend + ["F"], mr, timeout, False)
                    ctx.reach("long.pending-below-limit")
                for npend in (120, 121, 122, 200):
                    check_case(ctx, ["P"] * npend + ["F"], mr, timeout, False)
                    ctx.reach("long.pending-limit-crossed")
                for k in (1, lo // 2, lo - 1):
                    check_case(ctx, ["P"] + ["T"] * k + ["F"], mr, timeout, False)
                    check_case(ctx, ["P"] + ["T"] * k + ["P"] + ["T"] * k + ["N"], mr, timeout, True)
                    ctx.reach("long.silence-below-limit")
                for k in (hi, hi + 1, hi + 30):
                    check_case(ctx, ["P"] + ["T"] * k + ["F"], mr, timeout, False)
                    check_case(ctx, ["P", "P"] + ["T"] * k + ["F", "F"], mr, timeout, True)
                    ctx.reach("long.silence-limit-crossed")
                check_case(ctx, ["P"] + ["T"] * lo + ["F"], mr, timeout, False)  # exactly at the limit: either reading accepted
                check_case(ctx, ["P", "Z", "F"], mr, timeout, False)
                check_case(ctx, ["P", "T", "P", "T", "P", "C", "F"], mr, timeout, False)
        ctx.sample({"long": "P*119 F / P*120 F / P T*39 F / P T*41 F ..."})


def replay(ctx: Any, witness: dict[str, Any]) -> None:
    import re

    import gallia.command  # noqa: F401

    vtime.quiet_logging()
    s = witness["script"]
    script: list[str] = []
    for m in re.finditer(r"([A-Z])(?:\*(\d+))?", s):
        script += [m.group(1)] * int(m.group(2) or 1)
    check_case(ctx, script, witness["max_retry"], witness["timeout"], witness["override"], witness.get("raw"))
