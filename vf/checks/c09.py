"""C09 The session scan reports exactly the sessions reachable within the depth limit (DESIGN.md section 3, C09; 3a)."""

from __future__ import annotations

import re
from typing import Any

from vf import vtime

PROPERTY = "C09"
LEVEL = "exploration"
ENGINE = "ecu-groundtruth"
TECHNIQUE = (
    "runtime monitoring against ECU-side ground truth: the real SessionsScanner.main() (and, for a share of the cases, the real "
    "run() = setup()/main()/teardown()) is executed in-process under a virtual-time event loop against GraphECU, a harness subclass "
    "of gallia's UDSServer whose session transitions are a generated directed graph (gallia's own default response chain answers "
    "absent edges with 0x12/0x7E); the transport logs every request with the ECU session before/after.  Oracle: level-wise "
    "reachability on the generated graph (skipped sessions and refused transitions removed), replay of every reported stack on a "
    "fresh model, request budget / empty virtual schedule for termination, skip list against the ECU-side request log; the "
    "'identified but could not be activated' list of the result log against the ECU-side refusals (NRC other than 0x12/0x7E, never "
    "entered).  A share of the scans is DB-backed on a real event loop: the scanner's own _db_insert_run_meta()/_db_finish_run_meta() "
    "open a real DBHandler on a sqlite file in the scratch directory, one or two scans of the same target go into the same file, and "
    "the session_transition rows of each scan are read back with the stdlib sqlite3 module and held against the same reference.  "
    "Two ECU/OEM behaviours are part of the model: (1) transitions the ECU refuses with conditionsNotCorrect until an arming request "
    "preceded them, scanned through a harness OEM subclass of gallia's ECU whose set_session_pre() hook sends that request (the "
    "reference counts such a transition as available iff --with-hooks is on, as refused = identified-only otherwise); (2) ECUs that "
    "carry out the ECUReset of --reset but never answer it (always / outside the default session / with probability 0.5), so that "
    "the scanner's timeout -> reconnect path is taken (max_retries 0, 1, 3); (3) ECUs that send the positive ECUReset response at "
    "once and carry the reset out 2..450 ms later (timer on the virtual clock), staying in their session and answering every request "
    "(TesterPresent, session changes) until then, optionally silent for a boot time afterwards; replies of these ECUs arrive with a "
    "latency of 0.5..40 ms so that virtual time passes while the scanner talks; the moment the reset is carried out is an entry of "
    "the ECU-side log; (4) ECUs with an S3 server timer on the virtual clock (0.3..5 s without any request -> back to the default "
    "session, every request restarts the timer, the expiry is an entry of the ECU-side log), scanned with --sleep 0..3 s shorter and "
    "longer than S3, with the cyclic tester present of the real run() on (interval below S3) or switched off (--no-tester-present, or "
    "main() alone), reply latency 0..40 ms; (5) ECUs that do not answer DiagnosticSessionControl at all for some session ids they "
    "do not offer from the session they are in (the request is dropped instead of being answered 0x12/0x7E; ids at the start, in the "
    "middle and at the end of 2..0x7F, from every session / only the default session / only non-default sessions), so that every "
    "attempt of the probe (max_retries 0, 1, 3) runs into the request timeout on the virtual clock; (6) ECUs that append a "
    "sessionParameterRecord to `50 <session>`: none (gallia's own virtual ECU), the 4 byte P2/P2* record for every session, or a record "
    "of the ECU's own per session (0..8 bytes, i.e. shorter than, equal to and longer than the timing record); (7) ECUs on which some "
    "session ids are second names of sessions: `10 y` is carried out as `10 t` (t a real transition from the session the ECU is in) and "
    "answered `50 t ..` or with a reply cut after `50` - a reply gallia's client refuses (RequestResponseMismatch / MalformedResponse) "
    "while the session change has taken effect, so the probe loop is used right after an error and still has to make the next probes "
    "from the session on top of its stack.  The skip list is handed over the way a user writes it: range grammar, decimal / hex, as "
    "several arguments or as one string with blanks or commas (environment variable, config file), also with overlapping entries (two "
    "overlapping ranges, a range or an id inside a range given before or after it, an id twice) in any order"
)
LEVEL_TEXT = (
    "Exploration: seeded random session graphs (3..14 session ids out of 1..0x7F plus planted chains of length depth+2, cycles, "
    "unreachable components, sessions behind non-default sessions, transitions refused with another NRC), ISO-conformant (every "
    "session returns to the default session) and non-conformant, x depth 1..5 x skip lists in range grammar x thorough x reset x "
    "with-hooks (default ECU class, or the harness OEM class with hook-armed transitions) x answered/unanswered resets x resets carried "
    "out immediately / 2..450 ms after the positive response (with and without boot silence, reply latency 0.5..40 ms) x ECUs "
    "without / with an idle (S3) session timeout of 0.3..5 s x --sleep 0..3 s (shorter and longer than S3) x cyclic tester present "
    "on (interval < S3) / off x ECUs answering every session change request / silent on some session ids they do not offer "
    "(lower than, between and higher than the ids offered from that session; from default and non-default stacks; max_retries 0/1/3) x "
    "positive responses without / with a sessionParameterRecord (4 bytes for every session, or 0..8 bytes per session) x ECUs without / "
    "with alias session ids (session entered, reply refused by the client: other session id echoed, or truncated) x skip lists written "
    "plainly / with overlapping and repeated entries (arguments or one string) x direct main()/full run().  Held = on every generated scan the result equals the reference reachability set, every "
    "reported stack is a real path, no skipped session was requested and the scan ended within its request budget.  DB-backed "
    "histories: one scan, or a scan followed by a second scan of the same target into the same database with a smaller depth, a skip "
    "list cutting stored paths, a changed graph or thorough flipped; the second scan is judged by ITS depth / skip list / graph, its "
    "session_transition rows must be exactly the reachable sessions (plus the sessions sessions.py documents as identified), each "
    "with steps that are a real walk no longer than depth, and the ECU-side log must not show a refused change retried through "
    "stored steps."
)
LEVEL_NOTE = (
    "Trusted: GraphECU, InProcessTransport and the HookECU client subclass in vf/ecu_models.py (about 150 lines on top of gallia's UDSServer / ECU base classes), the level-wise "
    "reachability in this file, vf/vtime.py.  Explicit abort (SystemExit) is accepted only where DESIGN 3a allows it."
)
RULE = (
    "cases = (graph edges, refused transitions, hook-armed transitions, depth, skip list, thorough, reset level, ECU offers reset, "
    "unanswered-reset rule and max_retries, delayed-reset rule (delay, reply latency, boot silence), S3 rule (S3 time, tester present on/off "
    "and interval, reply latency), silent-session-id rule (ids, from which sessions), sessionParameterRecord per session, alias session ids and their reply kind, "
    "spelling of the skip list where entries overlap, with_hooks, sleep, run mode, DB-backed or not; each scan of a two-scan history is one case); "
    "graphs are seeded random digraphs with planted features; non-trivial = some session lies at distance >= 2 from the default "
    "session or a planted feature (cycle off the default session, over-long chain, unreachable component, skip that cuts a path, "
    "refused transition) is present; distinct = distinct case tuples; distinct_traces = distinct ECU-side request/reply logs"
)
ASSUMPTIONS = [
    "skip lists never contain the default session (DESIGN 3a)",
    "expected set = sessions s with a walk of 1..depth real transitions from the default session in the graph with skipped sessions removed "
    "(a skipped session is never entered, so paths through it do not count); a transition answered with an NRC is not a transition",
    "explicit abort (SystemExit 1) is accepted, and counted separately, iff some session the scan must enter (or the default session itself) "
    "has no transition back to the default session and either no effective reset is in use or the default session cannot be re-entered from itself; "
    "everywhere else the exact set is required",
    "the ECU model always answers a DiagnosticSessionControl request for a session it offers from its current session (entered, or refused "
    "with an NRC); for ids it does NOT offer there it answers 0x12/0x7E or, under the silent-session-id rule of a case, nothing at all for "
    "every attempt.  A dropped request has no effect on the ECU; an id that is only ever dropped is not a transition, the expected result is "
    "the reachable set of the graph exactly as if the ECU had answered 0x12 (in particular sessions with higher ids offered from the same "
    "session must still be found).  The default session id is never silent (the scanner's documented abort is about a REFUSED return to the "
    "default session).  Not combined with S3 ECUs (waiting for the request timeout in a non-default session is longer than S3), with "
    "unanswered/delayed resets, or with DB-backed scans (real time)",
    "a hook-armed transition (refused with 0x22 until the OEM hook's arming request directly preceded the session change) is a transition "
    "of the graph iff the scan runs with --with-hooks and the OEM class in use has that hook; without --with-hooks it is a refused "
    "transition (identified, not entered).  This is what sessions.py documents for --with-hooks: first without hooks, on "
    "conditionsNotCorrect once more with hooks",
    "an ECUReset that is carried out but not answered leaves the ECU in the default session; the expected result of the scan is the same "
    "as with answered resets (the reset option must not change what is reachable)",
    "an ECU may send the positive ECUReset response first and reset a little later; until then it is in the session it was in and "
    "answers every request.  The expected result of the scan is the same as with immediate resets.  Generated delays stay below 0.45 s, "
    "i.e. below the 0.5 s wait_for_ecu() documents between its pings after a reset, and delay + boot silence stay below 1.3 s, well "
    "inside the request timeout (2 s) the scan waits for the ECU; slower ECUs are outside what --reset can be expected to handle",
    "an ECU may fall back to the default session when it has not received any request for S3 seconds (server session timer, here on the "
    "virtual clock; every request, also a TesterPresent, restarts it).  The expected result of the scan is the same as without the timer "
    "whenever the tester keeps the session alive the way its options say: (a) cyclic tester present on with an interval below S3 "
    "(generated: interval + 3 reply latencies < S3): for every --sleep; (b) tester present off: for every --sleep as well, because --sleep "
    "is documented as a pause 'after changing to DefaultSession', i.e. at a moment where a fallback changes nothing, and everything else a "
    "scan does in a non-default session is one request after the other (generated reply latencies stay below S3/6).  Not generated, because "
    "the fallback would be the user's own doing: a tester present interval of S3 or more, reply latencies in the order of S3.  A pause longer "
    "than S3 between the last change into a non-default session and the probe, without tester present, is more than any tester can bridge; "
    "the oracle never asks for it - it only relies on the documented placement of the pause (before the non-default part of the stack is entered)",
    "sessions.py documents that a session whose change was refused with an NRC other than 0x12/0x7E and that was never entered is logged as "
    "'identified but could not be activated' AND stored in session_transition with the stack it was refused from (the table has no column "
    "telling such rows from reachable ones); the oracle accepts exactly those rows/list entries, derived from the ECU-side log, and nothing "
    "else beside the reachable set",
    "what follows `50 <session>` in a positive DiagnosticSessionControl response is the ECU's business (ISO 14229-1:2006 leaves the "
    "sessionParameterRecord to the manufacturer, :2013 defines 4 bytes; gallia's DiagnosticSessionControlResponse accepts every length): "
    "the expected result does not depend on the record",
    "an alias id y (the ECU carries `10 y` out as `10 t` and answers `50 t ..` or a truncated `50`) is not a session: the client has to "
    "refuse such a reply (C03), y is never reported, and the expected result is the reachable set of the graph exactly as if the ECU had "
    "answered 0x12 - the probes after it are judged against the session on top of the scanner's stack, not against the session the ECU "
    "slipped into.  Aliases are only generated for transitions t that are real (not guarded, not hook-armed, not skipped) and offered "
    "under their own id from the same session, so the reachable set does not depend on them and a session entered through an alias is one "
    "the scan has to be able to leave anyway (abort rule unchanged).  Not combined with silent session ids.  An ECU that enters a session "
    "and sends NO reply is not generated (sessions.py leaves open whether the stack is re-entered after a timeout)",
    "skip lists are written in the grammar gallia.utils.unravel documents ('Ranges are allowed to overlap and are merged'): overlapping or "
    "repeated entries denote their union, in any order and for both ways of delivery (list of arguments, one string)",
    "DB-backed scans run in real time, hence without --reset and --sleep and on graphs needing at most a few thousand requests; a wall-clock "
    "watchdog of 150 s per history (a scan takes about a second) stands in for the virtual-time deadlock verdict there",
]
EXHAUSTIVE = {"quick": False, "thorough": False}
EXHAUSTIVE_NOTE = ""

GUARD_NRCS = [0x22, 0x33, 0x31, 0x24]
# delayed resets are carried out within this many seconds after the positive response: below the 0.5 s that wait_for_ecu()
# documents as the distance between its pings after a reset (an ECU that takes longer is outside what --reset promises)
DELAYED_RESET_MAX = 0.45
MAX_REQ = {"quick": 20_000, "thorough": 60_000}
# idle (S3) session timeouts of the generated ECUs: classes of values, shorter and longer than the --sleep values in use (1..3 s)
S3_CLASSES = ((0.3, 0.95), (1.2, 2.8), (5.0, 5.0))


def shards(tier: str, seed: int) -> list[dict[str, Any]]:
    if tier == "quick":
        return [{"n": 64, "part": i, "db": 6} for i in range(16)]
    return [{"n": 200, "part": i, "db": 24} for i in range(32)]


def required_reach(tier: str) -> dict[str, int]:
    r = {"#cycle@": 4, "#long-chain@": 5, "#unreachable@": 5, "#via-non-default@": 4, "#depth-hit@": 5,
         "skip.used": 20, "skip.cuts-path": 3, "skip.on-real-edge": 10, "opt.thorough": 20, "opt.reset": 20, "opt.full-run": 10,
         "opt.with-hooks": 10, "guarded.probed": 10, "outcome.exact": 300, "outcome.exact.nonconformant": 3,
         "outcome.abort-allowed": 5, "stacks.replayed": 500, "graph.conformant": 100, "graph.nonconformant": 30,
         "default-session.reported": 50,
         # result-tagged 'identified but could not be activated' list against the ECU-side refusals
         "identified.log-checked": 300, "identified.exists-elsewhere-not-entered": 100, "identified-not-activated.listed": 20,
         # DB-backed scans (real DBHandler, session_transition rows) and two-scan histories in one database file
         "db.histories": 60, "db.scans": 90, "db.scans-judged": 70, "db.rows-checked": 300, "db.rows-nested": 80,
         "db.exists-elsewhere-not-entered": 40, "db.identified-only-rows": 5, "db.full-run": 10,
         "db.second-scans": 30, "db.second-scan.nested-rows-stored": 20, "db.second-scan.stored-session-now-out-of-reach": 15,
         "db.second-scan.smaller-depth": 10, "db.second-scan.skip": 10, "db.second-scan.skip-on-stored-path": 8,
         "db.second-scan.graph-variant": 3,
         # transitions armed by the OEM hook (harness ECU subclass with set_session_pre) with and without --with-hooks
         "hooks.oem-class.with-hooks": 40, "hooks.oem-class.without-hooks": 20,
         "hooks.armed-transition.refused-then-entered-through-hook": 30, "hooks.armed-transition.re-entered-during-stack-recovery": 15,
         "hooks.armed-transition.refused-without-hooks": 15, "hooks.session-reachable-only-through-armed-transition": 15,
         # ECUs that carry out the ECUReset of --reset without answering it (timeout -> reconnect path of the scanner)
         "reset.silent.scans": 20, "reset.silent.every-attempt-unanswered": 15, "reset.silent.transport-reconnected": 15,
         "reset.silent.unanswered-after-refused-probe-on-stack": 10, "reset.silent.answered-on-retry": 3,
         # ECUs that answer the ECUReset of --reset at once and carry it out a little later (still answering in between)
         "reset.delayed.scans": 20, "reset.delayed.carried-out-after-positive-response": 20, "#reset.delayed.delay/": 3,
         "#reset.delayed.latency/": 3, "reset.delayed.ecu-stayed-in-non-default-session-until-reset": 15,
         "reset.delayed.non-default-stack-re-entered-after-reset": 10,
         "reset.delayed.non-default-stack-re-entered-after-reset-out-of-non-default-session": 10,
         "reset.delayed.scans-with-boot-silence": 5, "reset.delayed.ping-unanswered-while-booting": 3,
         # ECUs with an idle (S3) session timeout x --sleep x cyclic tester present on / off
         "s3.scans": 30, "s3.tester-present-off.scans": 15, "s3.tester-present-on.scans": 8, "s3.outcome.exact": 20,
         "s3.sleep-longer-than-s3": 12, "s3.sleep-shorter-than-s3": 5, "s3.no-sleep": 3, "#s3.time/": 3,
         "s3.tester-present-off.idle-beyond-s3-in-default-session": 10,
         "s3.tester-present-off.non-default-stack-re-entered-after-pause-beyond-s3": 8,
         "s3.tester-present-off.session-default-does-not-offer-entered-after-pause-beyond-s3": 5,
         "s3.tester-present-off.pause-beyond-s3.thorough": 2, "s3.tester-present-off.pause-beyond-s3.with-reset": 2,
         "s3.tester-present-on.ping-received-during-pause": 6, "s3.tester-present-on.pause-longer-than-s3-bridged": 4,
         "s3.tester-present-on.ping-received-in-non-default-session": 2,
         # ECUs that drop session change requests for some ids they do not offer (every attempt of the probe times out)
         "silent-dsc.scans": 30, "silent-dsc.outcome.exact": 20, "silent-dsc.probe-unanswered-on-every-attempt": 25,
         "silent-dsc.from-default-stack": 12, "silent-dsc.from-non-default-stack": 12,
         "silent-dsc.position/lower-than-every-other-session-offered-there": 5, "silent-dsc.position/between-sessions-offered-there": 8,
         "silent-dsc.position/higher-than-every-session-offered-there": 12,
         "silent-dsc.higher-session-entered-after-silence/from-default-stack": 8,
         "silent-dsc.higher-session-entered-after-silence/from-non-default-stack": 8,
         "silent-dsc.reachable-session-only-behind-silent-id": 10, "#silent-dsc.max-retries/": 3, "#silent-dsc.from/": 3,
         "silent-dsc.id/first-probed": 3, "silent-dsc.id/last-probed": 3, "silent-dsc.thorough": 3, "silent-dsc.with-reset": 3,
         # formats of the positive DiagnosticSessionControl response: sessionParameterRecord of 0 / 1-3 / 4 / 5+ bytes
         "dsc-record.scans": 150, "dsc-record.scans/iso-timing-record-for-every-session": 40, "dsc-record.scans/records-of-the-ecu's-own": 100,
         "dsc-record.reachable-session-entered/record-length/0": 30, "dsc-record.reachable-session-entered/record-length/1-3": 70,
         "dsc-record.reachable-session-entered/record-length/4": 80, "dsc-record.reachable-session-entered/record-length/5+": 70,
         "dsc-record.reachable-session-entered/record-length-other-than-0-and-4/from-non-default-session": 60,
         # alias session ids: the ECU enters a session, the client refuses the reply, the probe loop goes on after that error
         "alias.scans": 60, "alias.reply/target-id": 40, "alias.reply/truncated": 20, "alias.session-entered-reply-refused": 50,
         "alias.session-entered-reply-refused/from-default-stack": 40, "alias.session-entered-reply-refused/from-non-default-stack": 30,
         "alias.session-entered-reply-refused/reply-target-id": 30, "alias.session-entered-reply-refused/reply-truncated": 15,
         "alias.higher-id-offered-differently-by-entered-session/without-reset": 30,
         "alias.higher-id-offered-differently-by-entered-session/without-reset/thorough": 6,
         # spellings of the skip list: arguments / one string, overlapping and repeated entries in every order
         "skip.spelling/arguments": 100, "skip.spelling/one-string": 20, "skip.spelling.overlapping-entries": 50,
         "skip.spelling.overlapping-entries/one-string": 12, "skip.spelling.overlap/same-entry-twice": 40,
         "skip.spelling.overlap/later-entry-ends-inside-earlier-one": 15, "skip.spelling.overlap/later-entry-ends-inside-earlier-one/starts-below-it": 3,
         "skip.spelling.overlap/later-entry-starts-inside-earlier-one": 15, "skip.spelling.overlap/later-entry-covers-earlier-one": 20}
    return r


# ---- reference -----------------------------------------------------------------------------------------------------
def eff_guarded(case: dict[str, Any]) -> dict[tuple[int, int], int]:
    """transitions the ECU refuses in THIS scan: the guarded ones, and the hook-armed ones (answered conditionsNotCorrect until
    the OEM hook has run) when the scan does not use hooks"""
    g = {(a, b): c for a, b, c in case["guarded"]}
    if not case["with_hooks"]:
        for a, b in case.get("hooked", ()):
            g.setdefault((a, b), 0x22)
    return g


def real_adj(case: dict[str, Any]) -> dict[int, set[int]]:
    g = set(eff_guarded(case))
    adj: dict[int, set[int]] = {}
    for k, v in case["edges"].items():
        adj[int(k)] = {int(x) for x in v if (int(k), int(x)) not in g}
    return adj


def level_reach(adj: dict[int, set[int]], removed: set[int], depth: int | None) -> dict[int, int]:
    """session -> length of the shortest walk (>=1 step) from session 1, nodes in `removed` deleted; depth None = unbounded"""
    dist: dict[int, int] = {}
    frontier = {1}
    seen_frontiers = {1}
    k = 0
    while frontier and (depth is None or k < depth):
        k += 1
        nxt: set[int] = set()
        for u in frontier:
            for v in adj.get(u, ()):
                if v not in removed:
                    nxt.add(v)
        for v in nxt:
            dist.setdefault(v, k)
        frontier = nxt - seen_frontiers  # a node expanded once yields nothing new later
        seen_frontiers |= nxt
    return dist


def count_stacks(adj: dict[int, set[int]], removed: set[int], depth: int, cap: int) -> int:
    """number of stacks a thorough scan searches: walks of length < depth from session 1"""
    level = {1: 1}
    total = 1
    for _ in range(depth - 1):
        nxt: dict[int, int] = {}
        for u, c in level.items():
            for v in adj.get(u, ()):
                if v not in removed:
                    nxt[v] = nxt.get(v, 0) + c
        level = nxt
        total += sum(level.values())
        if total > cap:
            return total
    return total


def has_cycle_off_default(adj: dict[int, set[int]], nodes: set[int]) -> bool:
    """directed cycle of length >= 2 inside `nodes` that does not use session 1"""
    nodes = nodes - {1}
    color: dict[int, int] = {}

    def dfs(u: int) -> bool:
        color[u] = 1
        for v in adj.get(u, ()):
            if v not in nodes or v == u:
                continue
            if color.get(v) == 1:
                return True
            if v not in color and dfs(v):
                return True
        color[u] = 2
        return False

    return any(dfs(u) for u in sorted(nodes) if u not in color)


# ---- generator -----------------------------------------------------------------------------------------------------
def gen_case(rng: Any, tier: str) -> dict[str, Any]:
    from vf import ecu_models as em

    depth = rng.randint(1, 5)
    n = rng.randint(3, 14)
    ids = [1] + rng.sample(range(2, 0x80), n - 1)
    p = min(0.6, 0.02 * (30 ** rng.random()))
    edges: dict[int, set[int]] = {s: set() for s in ids}
    for a in ids:
        for b in ids:
            if a != b and rng.random() < p:
                edges[a].add(b)
            elif a == b and rng.random() < 0.15:
                edges[a].add(b)
    free = [x for x in range(2, 0x80) if x not in ids]
    rng.shuffle(free)
    feats = []
    # make sure something is reachable most of the time
    if rng.random() < 0.9:
        for b in rng.sample(ids[1:], rng.randint(1, min(3, n - 1))):
            edges[1].add(b)
    if rng.random() < 0.45:  # chain of length depth+2 on fresh ids, hanging off a random node
        feats.append("chain")
        start = rng.choice(ids) if rng.random() < 0.5 else 1
        prev = start
        for _ in range(depth + 2):
            c = free.pop()
            edges.setdefault(c, set())
            edges[prev].add(c)
            prev = c
    if rng.random() < 0.45:  # cycle away from the default session
        feats.append("cycle")
        k = rng.randint(2, 4)
        cyc = [free.pop() for _ in range(k)] if rng.random() < 0.5 or n - 1 < k else rng.sample(ids[1:], k)
        for c in cyc:
            edges.setdefault(c, set())
        for a, b in zip(cyc, cyc[1:] + cyc[:1]):
            edges[a].add(b)
        edges[rng.choice([1] + ids[1:])].add(cyc[0])
    if rng.random() < 0.4:  # component without any edge from outside
        feats.append("island")
        isl = [free.pop() for _ in range(rng.randint(1, 3))]
        for c in isl:
            edges.setdefault(c, set())
        for a in isl:
            for b in isl:
                if rng.random() < 0.5:
                    edges[a].add(b)
            if rng.random() < 0.7:
                edges[a].add(1)
            if rng.random() < 0.3:
                edges[a].add(rng.choice(ids))
    style = rng.random()
    if style < 0.62:  # ISO-conformant: every session (also the default session) can go to the default session
        for s in edges:
            edges[s].add(1)
    elif style < 0.8:  # conformant except a few sessions
        for s in edges:
            edges[s].add(1)
        for s in rng.sample(sorted(edges), rng.randint(1, 2)):
            edges[s].discard(1)
    # else: left as generated
    guarded: list[list[int]] = []
    if rng.random() < 0.35:
        feats.append("guarded")
        pairs = [(a, b) for a in edges for b in edges[a] if b != 1]
        for a, b in rng.sample(pairs, min(len(pairs), rng.randint(1, 3))):
            guarded.append([a, b, rng.choice(GUARD_NRCS)])
        for _ in range(rng.randint(0, 2)):  # transitions that are only ever refused
            a, b = rng.choice(sorted(edges)), (free.pop() if rng.random() < 0.5 else rng.choice(sorted(edges)))
            if b != 1 and b not in edges.get(a, ()):
                edges.setdefault(b, set())
                edges[a].add(b)
                guarded.append([a, b, rng.choice(GUARD_NRCS)])
    skip: list[int] = []
    if rng.random() < 0.5:
        cand = [s for s in edges if s != 1]
        k = rng.randint(1, max(1, len(cand) // 3))
        skip = rng.sample(cand, min(k, len(cand))) if rng.random() < 0.8 else []
        for _ in range(rng.randint(0, 4)):  # ids the ECU does not know, and runs of ids
            x = rng.randint(2, 0x7F)
            skip.extend(range(x, min(0x80, x + rng.choice([1, 1, 2, 5]))))
        skip = sorted(set(skip) - {1})
    case = {
        "edges": {str(k): sorted(v) for k, v in sorted(edges.items())},
        "guarded": guarded,
        "depth": depth,
        "skip": skip,
        "skip_expr": em.render_ranges(rng, skip) if skip else [],
        "thorough": rng.random() < 0.3,
        "reset": rng.choice([None, None, None, 1, 1, 3]),
        "ecu_reset": rng.random() < 0.85,
        "with_hooks": rng.random() < 0.3,
        "sleep": rng.choice([0, 0, 0, 2]),
        "full": rng.random() < 0.25,
        "feats": feats,
        "hooked": [],
        "silent_reset": None,
        "max_retries": 3,
    }
    if rng.random() < 0.3:
        # transitions that need the OEM hook: refused with conditionsNotCorrect until set_session_pre() has armed them
        g0 = {(a, b) for a, b, _ in guarded}
        adj0 = {a: {b for b in bs if (a, b) not in g0} for a, bs in edges.items()}
        near = set(level_reach(adj0, set(skip), None)) | {1}
        pairs = [(a, b) for a in sorted(near) for b in sorted(adj0.get(a, ())) if b != 1 and b not in skip]
        if pairs:
            feats.append("hooked")
            case["hooked"] = [list(e) for e in rng.sample(pairs, min(len(pairs), rng.randint(1, 3)))]
            case["with_hooks"] = rng.random() < 0.65
    if case["reset"] and case["ecu_reset"] and rng.random() < 0.5:
        # an ECU that carries out the reset but does not answer it (always / only outside the default session / now and then)
        case["silent_reset"] = {"where": rng.choice(["always", "always", "non-default"]), "p": rng.choice([1.0, 1.0, 0.5]),
                                "seed": rng.randrange(1 << 30)}
        case["max_retries"] = rng.choice([0, 0, 1, 3])
    case["delayed_reset"] = gen_delayed_reset(case)
    case["s3"] = gen_s3(case)
    case["silent_dsc"] = gen_silent_dsc(case)
    case["records"] = gen_dsc_records(case)
    case["alias"] = gen_alias(case)
    gen_skip_spelling(case)
    # keep the run affordable: a thorough scan searches every walk, a reset costs ~depth+3 requests per probe
    adj = real_adj(case)
    cap = MAX_REQ[tier]
    while True:
        stacks = count_stacks(adj, set(skip), case["depth"], 10_000) if case["thorough"] else min(len(edges), 1 + len(level_reach(adj, set(skip), case["depth"] - 1) if case["depth"] > 1 else {}))
        per_probe = (case["depth"] + 4 + (case["max_retries"] + 1 if case["silent_reset"] else 0)) if case["reset"] else 1.3
        if case["s3"] and case["s3"]["tp"] and case["reset"]:
            per_probe += case["sleep"] / case["s3"]["tp_interval"]  # tester present requests during the pause of every recovery
        if stacks * 127 * per_probe <= cap:
            break
        if case["thorough"] and case["depth"] > 2 and rng.random() < 0.7:
            case["depth"] -= 1
        elif case["thorough"]:
            case["thorough"] = False
        elif case["reset"]:
            case["reset"] = None
            case["silent_reset"] = None
            case["delayed_reset"] = None
        else:
            break
    return case


def gen_delayed_reset(case: dict[str, Any]) -> dict[str, Any] | None:
    """An ECU that answers ECUReset positively at once and carries the reset out a little later: until then it stays in its
    session and keeps answering (TesterPresent, session changes); optionally it is silent for a boot time after the reset.
    Every reply takes `latency` seconds to arrive, so that time passes on the virtual clock while the scanner talks.
    Drawn from a generator of its own seeded by the case (the main stream, hence every other generated case, is unchanged)."""
    import random

    if not (case["reset"] and case["ecu_reset"]) or case["silent_reset"]:
        return None
    r = random.Random(repr((sorted(case["edges"].items()), case["depth"], case["skip"], case["thorough"])))
    if r.random() >= 0.7:
        return None
    delay = round(r.choice([r.uniform(0.002, 0.05), r.uniform(0.05, 0.2), r.uniform(0.2, DELAYED_RESET_MAX)]), 4)
    latency = r.choice([0.0005, 0.002, 0.01, 0.04])
    boot = round(r.uniform(0.05, 0.8), 3) if r.random() < 0.35 else 0.0
    return {"delay": delay, "latency": latency, "boot": boot}


def gen_s3(case: dict[str, Any]) -> dict[str, Any] | None:
    """An ECU with an idle session timeout: S3 seconds without any request and it is back in the default session (server side S3
    timer, virtual clock).  Together with it the tester options that decide who keeps a session alive: --sleep (0..3 s, shorter and
    longer than S3), cyclic tester present on (only the real run() starts it; interval below S3) or off.  Replies take `latency`
    seconds (far below S3).  Sets case["sleep"] and, with tester present on, case["full"].
    Drawn from a generator of its own seeded by the case (the main stream, hence every other generated case, is unchanged)."""
    import random

    if case["silent_reset"] or case.get("delayed_reset"):
        return None
    r = random.Random("s3" + repr((sorted(case["edges"].items()), case["depth"], case["skip"], case["thorough"], case["reset"])))
    if r.random() >= 0.3:
        return None
    lo, hi = r.choice([S3_CLASSES[0], S3_CLASSES[0], S3_CLASSES[0], S3_CLASSES[1], S3_CLASSES[1], S3_CLASSES[2]])
    s3 = round(r.uniform(lo, hi), 2)
    tp = r.random() < 0.35
    latency = r.choice([0.0, 0.0, 0.002, 0.01, 0.04])  # at most S3/6
    interval = 0.5 if s3 >= 0.8 and r.random() < 0.5 else max(0.1, round(s3 * 0.4, 2))  # interval + 3 latencies < S3
    case["sleep"] = r.choice([0, 1, 1, 2, 2, 3])
    if tp:
        case["full"] = True
    return {"s3": s3, "tp": tp, "tp_interval": interval, "latency": latency}


def _case_seed(tag: str, case: dict[str, Any]) -> str:
    return tag + repr((sorted(case["edges"].items()), case["depth"], case["skip"], case["thorough"], case["reset"]))


ISO_RECORD = "003201f4"  # P2Server_max 50 ms, P2*Server_max 5 s: the 4 byte record of ISO 14229-1:2013


def gen_dsc_records(case: dict[str, Any]) -> dict[str, str]:
    """How the ECU formats its positive DiagnosticSessionControl responses: session -> sessionParameterRecord (hex) sent after
    `50 <session>`.  None at all (gallia's own virtual ECU), the 4 byte timing record for every session, or a record of the ECU's
    own per session (0..8 bytes: shorter than, as long as and longer than the timing record; ISO 14229-1:2006 leaves the record to
    the manufacturer, gallia's response class accepts any length).  Own generator seeded by the case (the main stream is unchanged)."""
    import random

    r = random.Random(_case_seed("dsc-records", case))
    style = r.random()
    if style < 0.45:
        return {}
    sessions = sorted({int(k) for k in case["edges"]} | {1})
    if style < 0.6:
        return {str(s): ISO_RECORD for s in sessions}
    out: dict[str, str] = {}
    for s in sessions:
        n = r.choice([0, 1, 2, 3, 4, 4, 5, 6, 8])
        if n:
            out[str(s)] = r.randbytes(n).hex()
    return out


def gen_alias(case: dict[str, Any]) -> dict[str, Any] | None:
    """An ECU on which some session ids are second names of sessions: `10 y` does exactly what `10 t` does in the session the ECU
    is in (where t is a real, unguarded transition from there and y is not offered there), but the positive response is the one
    for t (`50 t ..`, reply kind 'target-id') or is cut after the response service id (`50`, reply kind 'truncated') - either way a
    reply gallia's client refuses (RequestResponseMismatch / MalformedResponse, see C03), while the session change has taken effect.
    y is no session id of the graph, not skipped; placed below an id whose availability differs between a session the scan probes
    from and the session entered, where there is one.  Own generator seeded by the case (the main stream is unchanged)."""
    import random

    if case.get("silent_dsc"):
        return None
    r = random.Random(_case_seed("alias", case))
    if r.random() >= 0.3:
        return None
    adj, skip = real_adj(case), set(case["skip"])
    hooked = {(a, b) for a, b in case["hooked"]}
    known = {int(k) for k in case["edges"]} | {b for _, b, _ in case["guarded"]}
    free = [x for x in range(2, 0x80) if x not in known and x not in skip]
    near = sorted(set(level_reach(adj, skip, case["depth"] - 1) if case["depth"] > 1 else ()) | {1})
    ids: dict[str, int] = {}
    for _ in range(r.randint(1, 3)):
        a = r.choice(near)
        ts = sorted(t for t in adj.get(a, ()) if t != a and t not in skip and (a, t) not in hooked)
        cand = [x for x in free if str(x) not in ids]
        if not ts or not cand:
            continue
        t = r.choice(ts)
        diff = sorted(x for x in (adj.get(a, set()) ^ adj.get(t, set())) if x not in skip)
        below = [x for x in cand if diff and x < diff[-1]]
        ids[str(r.choice(below or cand))] = t
    if not ids:
        return None
    return {"ids": ids, "reply": r.choice(["target-id", "target-id", "truncated"])}


def gen_skip_spelling(case: dict[str, Any]) -> None:
    """The same skip set written down with overlapping entries (gallia.utils.unravel: 'Ranges are allowed to overlap and are
    merged'): besides the plain spelling of a run of ids, two ranges that overlap and together cover it, a range or a single id
    inside it, an id given twice; all entries in random order, as several arguments (CLI) or as ONE string with blanks / commas
    between the entries (environment variable, config file).  Replaces case["skip_expr"]; the set denoted stays case["skip"].
    Own generator seeded by the case (the main stream is unchanged)."""
    import random

    if not case["skip"]:
        return
    r = random.Random(_case_seed("skip-spelling", case))
    overlap, one_string = r.random() < 0.55, r.random() < 0.3
    if not (overlap or one_string):
        return

    def f(x: int) -> str:
        return hex(x) if r.random() < 0.6 else str(x)

    items = [it for arg in case["skip_expr"] for it in arg.split(",")]
    vs = sorted(set(case["skip"]))
    extra: list[str] = []
    i = 0
    while overlap and i < len(vs):
        j = i
        while j + 1 < len(vs) and vs[j + 1] == vs[j] + 1:
            j += 1
        lo, hi, k = vs[i], vs[j], r.random()
        i = j + 1
        if lo == hi:
            if k < 0.3:
                extra.append(f(lo))
        elif k < 0.45:
            m1 = r.randint(lo, hi)
            m2 = r.randint(m1, hi)
            extra += [f"{f(lo)}-{f(m2)}", f"{f(m1)}-{f(hi)}"]
        elif k < 0.85:
            a = r.randint(lo, hi)
            b = r.randint(a, hi)
            extra.append(f(a) if a == b else f"{f(a)}-{f(b)}")
    if not extra and not one_string:
        return
    items += extra
    r.shuffle(items)
    if one_string:
        sep = r.choice([" ", " ", ",", "  "])
        case["skip_expr"] = sep.join(items) if r.random() < 0.6 else "".join(it + r.choice([" ", ","]) for it in items)[:-1]
        return
    out: list[str] = []
    while items:
        k2 = r.randint(1, len(items))
        out.append(",".join(items[:k2]))
        items = items[k2:]
    case["skip_expr"] = out


def skip_entries(expr: Any) -> list[tuple[int, int]]:
    """(first, last) of every entry of a skip expression in the order written (entries: `a` or `a-b`, decimal or 0x.., separated
    by commas, blanks or argument boundaries) - read with int(), independent of gallia's parser"""
    text = expr if isinstance(expr, str) else ",".join(expr)
    out = []
    for it in re.split(r"[,\s]+", text.strip()):
        if not it:
            continue
        a, _, b = it.partition("-")
        out.append((int(a, 0), int(b, 0) if b else int(a, 0)))
    return out


def offered_from(case: dict[str, Any], a: int) -> set[int]:
    """session ids the ECU offers from session a (entered, refused with an NRC, or armed by the hook)"""
    return {int(x) for x in case["edges"].get(str(a), ())} | {b for x, b, _ in case["guarded"] if x == a}


def gen_silent_dsc(case: dict[str, Any]) -> dict[str, Any] | None:
    """An ECU that drops DiagnosticSessionControl requests for some session ids it does not offer from its current session (no
    reply to any attempt) instead of answering 0x12/0x7E.  ids: anywhere in 2..0x7F (also ids no session offers), some placed below /
    between the ids a reachable session offers, the first and the last id a scan probes; from: in which sessions the ECU behaves
    like that.  Sets case["max_retries"].  Own generator seeded by the case (the main stream is unchanged)."""
    import random

    if case["silent_reset"] or case.get("delayed_reset") or case.get("s3"):
        return None
    r = random.Random("silent-dsc" + repr((sorted(case["edges"].items()), case["depth"], case["skip"], case["thorough"], case["reset"])))
    if r.random() >= 0.3:
        return None
    ids: set[int] = set(r.sample(range(2, 0x80), r.randint(0, 3)))
    near = sorted(set(level_reach(real_adj(case), set(case["skip"]), None)) | {1})
    for _ in range(r.randint(1, 3)):  # an id below one the session offers
        a = r.choice(near)
        higher = sorted(b for b in offered_from(case, a) if b > 2)
        if higher:
            b = r.choice(higher)
            cand = [x for x in range(2, b) if x not in offered_from(case, a)]
            if cand:
                ids.add(r.choice(cand))
    if r.random() < 0.3:
        ids.add(2)
    if r.random() < 0.3:
        ids.add(0x7F)
    ids -= set(case["skip"])
    if not ids:
        return None
    case["max_retries"] = r.choice([0, 0, 1, 3])
    return {"ids": sorted(ids), "from": r.choice(["all", "all", "default", "non-default"])}


def is_silent(case: dict[str, Any], a: int, b: int) -> bool:
    sd = case.get("silent_dsc")
    return bool(sd) and b in sd["ids"] and b != 1 and b not in offered_from(case, a) \
        and (sd["from"] == "all" or (sd["from"] == "default") == (a == 1))


# ---- one scan ------------------------------------------------------------------------------------------------------
STACK_RE = re.compile(r"^\tvia stack: (.*?)(?: \(NRC: .*\))?$")
SESSION_RE = re.compile(r"^\* Session (\S+) $")


def parse_sid(tok: str) -> int:
    tok = tok.strip()
    if tok.startswith("0x"):
        return int(tok, 16)
    if tok.isdigit():
        return int(tok)
    from gallia.services.uds.core.constants import DiagnosticSessionControlSubFuncs

    return int(DiagnosticSessionControlSubFuncs[tok])


def parse_result_records(records: list[tuple[str, str]]) -> tuple[dict[int, list[list[int]]], dict[int, list[list[int]]]]:
    """(activated session -> stacks, identified-but-not-activated session -> stacks) from the result-tagged records"""
    pos: dict[int, list[list[int]]] = {}
    neg: dict[int, list[list[int]]] = {}
    cur: dict[int, list[list[int]]] | None = None
    session: int | None = None
    for name, msg in records:
        if not name.endswith("sessions"):
            continue
        if msg.startswith("Scan finished; Found the following sessions"):
            cur, session = pos, None
        elif msg.startswith("The following sessions were identified"):
            cur, session = neg, None
        elif (m := SESSION_RE.match(msg)) and cur is not None:
            session = parse_sid(m.group(1))
            cur.setdefault(session, [])
        elif (m := STACK_RE.match(msg)) and cur is not None and session is not None:
            cur[session].append([parse_sid(t) for t in m.group(1).split("->")])
    return pos, neg


async def scan(case: dict[str, Any], budget: int, db: Any = None) -> dict[str, Any]:
    """db = path of the sqlite file the scan logs into (real event loop only); None = no database (virtual time)"""
    from gallia.commands.scan.uds.sessions import SessionsScanner
    from vf import ecu_models as em

    srv = model(case)
    dr = case.get("delayed_reset")
    s3 = case.get("s3")
    if s3:
        tr = s3_transport_class()(srv, budget=budget, latency=s3["latency"])  # the expiry of the S3 timer becomes an entry of the ECU-side log
    else:
        tr = latency_transport_class()(srv, budget=budget, latency=dr["latency"]) if dr else em.InProcessTransport(srv, budget=budget)
    if dr:
        srv.log_sink = tr.log  # the moment a delayed reset is carried out becomes an entry of the ECU-side log
    cap = em.fresh_capture()
    # the skip list as written down: several arguments (list of strings) or one string (environment variable / config file)
    opts: dict[str, Any] = {"depth": case["depth"], "skip": case["skip_expr"] if isinstance(case["skip_expr"], str) else list(case["skip_expr"]), "thorough": case["thorough"],
                            "reset": case["reset"], "with_hooks": case["with_hooks"], "sleep": case["sleep"],
                            "max_retries": case["max_retries"]}
    if db is not None:
        opts.update({"db": db, "timeout": DB_TIMEOUT})
    if s3:  # (the cyclic tester present is started by setup(), i.e. only by the full run())
        opts.update({"tester_present": bool(s3["tp"]), "tester_present_interval": float(s3["tp_interval"])})
    sc = em.make_scanner(SessionsScanner, **opts)
    # ECUs with hook-armed transitions are scanned through the harness OEM class (its set_session_pre() arms the transition)
    out = await em.run_scanner(sc, tr, case["full"], db=db is not None, ecu_cls=em.hook_ecu_class() if case["hooked"] else None)
    out.update({"result": list(sc.result), "log": tr.log, "records": list(cap.results), "problems": list(cap.problems),
                "skip_cfg": list(sc.config.skip), "reconnects": tr.reconnects, "silent_resets": srv.n_silent_resets,
                "s3_fallbacks": getattr(srv, "n_s3_fallbacks", 0)})
    return out


def model(case: dict[str, Any], fresh: bool = False) -> Any:
    """the ECU model of a case; fresh=True: the same ECU for replaying a path (resets are not part of a path)"""
    from vf import ecu_models as em

    dr = None if fresh else case.get("delayed_reset")
    s3 = None if fresh else case.get("s3")
    sd = case.get("silent_dsc")
    base = s3_ecu_class() if s3 else delayed_reset_ecu_class() if dr else silent_dsc_ecu_class() if sd else em.GraphECU
    recs, al = case.get("records") or {}, case.get("alias")
    srv = (quirk_ecu_class(base) if recs or al else base)(
        {int(k): v for k, v in case["edges"].items()}, {(a, b): c for a, b, c in case["guarded"]},
        with_reset=case["ecu_reset"], silent_reset=None if fresh else case["silent_reset"], hooked=case["hooked"])
    if dr:
        srv.reset_delay, srv.boot_time = float(dr["delay"]), float(dr.get("boot", 0.0))
    if s3:
        srv.s3 = float(s3["s3"])
    if sd and not s3 and not dr:
        srv.silent_ids, srv.silent_from = {int(x) for x in sd["ids"]} - {1}, sd["from"]
    if recs:
        srv.param_records = {int(k): bytes.fromhex(v) for k, v in recs.items()}
    if al:
        srv.alias, srv.alias_reply = {int(k): int(v) for k, v in al["ids"].items()}, al["reply"]
    return srv


_delayed_cls: Any = None
_latency_cls: Any = None
_s3_cls: Any = None
_silent_dsc_cls: Any = None
_s3_transport_cls: Any = None
_quirk_cls: dict[Any, Any] = {}


def quirk_ecu_class(base: Any) -> Any:
    """`base` (GraphECU or one of the harness ECUs above) with two manufacturer habits around DiagnosticSessionControl:
    param_records: session -> sessionParameterRecord appended to the positive response `50 <session>` (any length);
    alias: session id y -> session t.  In a session from which t is a real transition (in the graph, not guarded, not hook-armed)
    and y itself is not offered, `10 y` is carried out as `10 t` - the ECU enters t - and answered with the response for t
    (`50 t <record>`; alias_reply 'target-id') or with a response cut after its first byte (`50`; 'truncated').  Everywhere else
    y is an id the ECU does not offer (0x12 from gallia's default response chain)."""
    if base not in _quirk_cls:
        from gallia.services.uds.core import service
        from gallia.services.uds.core.constants import UDSIsoServices

        class QuirkECU(base):  # type: ignore[misc,valid-type]
            param_records: dict[int, bytes] = {}
            alias: dict[int, int] = {}
            alias_reply = "target-id"
            n_alias = 0

            def default_response_if_session_change(self, request: Any) -> Any:
                r = super().default_response_if_session_change(request)
                if isinstance(r, service.DiagnosticSessionControlResponse) and self.param_records.get(r.diagnostic_session_type):
                    r = service.DiagnosticSessionControlResponse(r.diagnostic_session_type, self.param_records[r.diagnostic_session_type])
                return r

            async def respond(self, request: Any) -> Any:
                if isinstance(request, service.DiagnosticSessionControlRequest) and request.diagnostic_session_type in self.alias:
                    cur, y, t = self.state.session, request.diagnostic_session_type, self.alias[request.diagnostic_session_type]
                    offered = self.supported_services[cur].get(UDSIsoServices.DiagnosticSessionControl) or []
                    if y not in offered and t in self.edges.get(cur, ()) and (cur, t) not in self.guarded and (cur, t) not in self.hooked:
                        resp = await super().respond(service.DiagnosticSessionControlRequest(t))
                        if isinstance(resp, service.DiagnosticSessionControlResponse):
                            self.n_alias += 1
                            if self.alias_reply == "truncated":
                                return service.RawPositiveResponse(resp.pdu[:1])
                        return resp
                return await super().respond(request)

        _quirk_cls[base] = QuirkECU
    return _quirk_cls[base]


def delayed_reset_ecu_class() -> Any:
    """GraphECU that sends the positive ECUReset response first and carries the reset out `reset_delay` seconds later (timer of
    the event loop, i.e. virtual time).  In between it is the ECU it was: same session, every request answered.  After the
    reset it answers nothing for `boot_time` seconds.  The reset itself is logged as (session before, b"", None, 1)."""
    global _delayed_cls
    if _delayed_cls is None:
        import asyncio

        from gallia.services.uds.core import service
        from vf import ecu_models as em

        class DelayedResetECU(em.GraphECU):  # type: ignore[misc,name-defined]
            reset_delay = 0.1
            boot_time = 0.0
            down_until = -1.0
            log_sink: Any = None
            n_delayed_resets = 0

            def _carry_out_reset(self) -> None:
                before = self.state.session
                self.state.reset()
                self.armed = None
                self.n_delayed_resets += 1
                self.down_until = asyncio.get_running_loop().time() + self.boot_time if self.boot_time else -1.0
                if self.log_sink is not None:
                    self.log_sink.append((before, b"", None, self.state.session))

            async def update_state(self, request: Any, response: Any) -> None:
                if isinstance(response, service.ECUResetResponse):
                    asyncio.get_running_loop().call_later(self.reset_delay, self._carry_out_reset)
                    return
                await super().update_state(request, response)

            async def respond(self, request: Any) -> Any:
                if asyncio.get_running_loop().time() < self.down_until:
                    return None  # booting
                return await super().respond(request)

        _delayed_cls = DelayedResetECU
    return _delayed_cls


def latency_transport_class() -> Any:
    """InProcessTransport whose replies arrive `latency` seconds after the request was processed"""
    global _latency_cls
    if _latency_cls is None:
        import asyncio

        from vf import ecu_models as em

        class LatencyTransport(em.InProcessTransport, scheme="inprocess"):  # type: ignore[misc,name-defined,call-arg]
            def __init__(self, server: Any, budget: int | None = None, latency: float = 0.0) -> None:
                super().__init__(server, budget=budget)
                self.latency = latency

            async def read(self, timeout: float | None = None, tags: list[str] | None = None) -> bytes:
                if self.queue:
                    reply = self.queue.popleft()
                    await asyncio.sleep(self.latency)
                    return reply
                return await super().read(timeout, tags)

        _latency_cls = LatencyTransport
    return _latency_cls


def silent_dsc_ecu_class() -> Any:
    """GraphECU that drops a DiagnosticSessionControl request (no reply, no effect) when the requested id is in `silent_ids` and is
    not offered from the session the ECU is in (`silent_from`: in every session / only in the default session / only elsewhere)."""
    global _silent_dsc_cls
    if _silent_dsc_cls is None:
        from gallia.services.uds.core import service
        from gallia.services.uds.core.constants import UDSIsoServices
        from vf import ecu_models as em

        class SilentDscECU(em.GraphECU):  # type: ignore[misc,name-defined]
            silent_ids: set[int] = set()
            silent_from = "all"
            n_silent_dsc = 0

            async def respond(self, request: Any) -> Any:
                if isinstance(request, service.DiagnosticSessionControlRequest):
                    cur, t = self.state.session, request.diagnostic_session_type
                    offered = self.supported_services[cur].get(UDSIsoServices.DiagnosticSessionControl) or []
                    if t in self.silent_ids and t not in offered and (self.silent_from == "all" or (self.silent_from == "default") == (cur == 1)):
                        self.n_silent_dsc += 1
                        return None
                return await super().respond(request)

        _silent_dsc_cls = SilentDscECU
    return _silent_dsc_cls


def s3_ecu_class() -> Any:
    """GraphECU with a server side session timer: when a request arrives more than `s3` seconds (event loop time, i.e. virtual
    time) after the previous one, the timer had expired in between: a non-default session was left for the default session
    (power-on state).  Every request restarts the timer.  The expiry is logged as (session before, b"", None, session after),
    also when the ECU was idle in the default session (where it changes nothing)."""
    global _s3_cls
    if _s3_cls is None:
        import asyncio

        from vf import ecu_models as em

        class S3ECU(em.GraphECU):  # type: ignore[misc,name-defined]
            s3 = 5.0
            last_rx: float | None = None
            n_s3_fallbacks = 0
            n_s3_idle_default = 0

            def s3_tick(self, log: list[Any]) -> None:
                now = asyncio.get_running_loop().time()
                if self.last_rx is not None and now - self.last_rx > self.s3:
                    before = self.state.session
                    if before != 1:
                        self.state.reset()
                        self.armed = None
                        self.n_s3_fallbacks += 1
                    else:
                        self.n_s3_idle_default += 1
                    log.append((before, b"", None, self.state.session))
                self.last_rx = now

        _s3_cls = S3ECU
    return _s3_cls


def s3_transport_class() -> Any:
    """LatencyTransport that lets the ECU look at its S3 timer before it takes the request"""
    global _s3_transport_cls
    if _s3_transport_cls is None:
        class S3Transport(latency_transport_class(), scheme="inprocess"):  # type: ignore[misc,call-arg]
            async def write(self, data: bytes, timeout: float | None = None, tags: list[str] | None = None) -> int:
                self.server.s3_tick(self.log)
                return int(await super().write(data, timeout, tags))

        _s3_transport_cls = S3Transport
    return _s3_transport_cls


async def replay_path(case: dict[str, Any], path: list[int]) -> tuple[bool, int]:
    """send the session changes to a fresh model; (every change answered positively, final ECU session).  With hooks in use a
    change answered conditionsNotCorrect is repeated after the arming request of the OEM hook (what --with-hooks stands for)."""
    from vf import ecu_models as em

    srv = model(case, fresh=True)
    tr = em.InProcessTransport(srv)
    ok = True
    for s in path:
        await tr.write(bytes([0x10, s]))
        reply = tr.log[-1][2]
        if reply == bytes([0x7F, 0x10, 0x22]) and case["with_hooks"] and case["hooked"]:
            await tr.write(em.arming_request(s))
            await tr.write(bytes([0x10, s]))
            reply = tr.log[-1][2]
        ok = ok and reply is not None and reply[:2] == bytes([0x50, s])
    return ok, srv.state.session


CASE_KEYS = ("edges", "guarded", "depth", "skip", "skip_expr", "thorough", "reset", "ecu_reset", "with_hooks", "sleep", "full",
             "hooked", "silent_reset", "max_retries", "delayed_reset", "s3", "silent_dsc", "records", "alias")
CASE_DEFAULTS: dict[str, Any] = {"hooked": [], "silent_reset": None, "max_retries": 3, "delayed_reset": None, "s3": None, "silent_dsc": None,
                                 "records": {}, "alias": None}  # witnesses written before these existed


def walk_ok(adj: dict[int, set[int]], path: list[Any]) -> bool:
    """`path` (first element: the default session) is a sequence of session changes the graph accepts one after the other"""
    if not path or path[0] != 1 or not all(isinstance(x, int) and not isinstance(x, bool) for x in path):
        return False
    cur = 1
    for nx in path:
        if nx not in adj.get(cur, ()):
            return False
        cur = nx
    return True


def refusals(log: list[Any]) -> tuple[dict[int, set[tuple[int, int]]], dict[int, set[tuple[int, int]]]]:
    """ECU-side: session -> {(ECU session at arrival, NRC)} of refused DiagnosticSessionControl requests, split into
    (refused with another NRC: the sub-function is offered there, refused with 0x12 / 0x7E: not offered there)"""
    offered: dict[int, set[tuple[int, int]]] = {}
    absent: dict[int, set[tuple[int, int]]] = {}
    for before, q, r, _ in log:
        if len(q) == 2 and q[0] == 0x10 and r is not None and len(r) == 3 and r[0] == 0x7F and r[1] == 0x10:
            (absent if r[2] in (0x12, 0x7E) else offered).setdefault(q[1] & 0x7F, set()).add((before, r[2]))
    return offered, absent


def prepare(ctx: Any, case: dict[str, Any], db: bool = False) -> dict[str, Any]:
    """reference values for one scan; registers the case and the generator-side reach counters"""
    depth = case["depth"]
    skip = set(case["skip"])
    adj = real_adj(case)
    want = level_reach(adj, skip, depth)
    unbounded = level_reach(adj, skip, None)
    unbounded_noskip = level_reach(adj, set(), None)
    all_sessions = {int(k) for k in case["edges"]}
    eff_reset = bool(case["reset"]) and case["ecu_reset"]
    must_return = set(want) | {1}
    stuck = sorted(s for s in must_return if 1 not in adj.get(s, ()))
    conformant = not stuck
    abort_allowed = (not conformant) and ((not eff_reset) or 1 not in adj.get(1, ()))
    stacks = count_stacks(adj, skip, depth, 10**7) if case["thorough"] else len(all_sessions) + 1
    silent = case["silent_reset"] if eff_reset else None
    delayed = case.get("delayed_reset") if eff_reset and not silent else None
    # per probe: reset (+ its unanswered repetitions, each with a tester present of the background worker), ping, the stack, the probe
    per_probe = depth + 8 + (2 * (case["max_retries"] + 1) + 2 if silent else 0) + (4 if delayed else 0)
    sd = case.get("silent_dsc")
    if sd:  # every attempt of a dropped probe is a request
        per_probe += (case["max_retries"] + 1) * 2
    s3 = case.get("s3")
    if s3 and s3["tp"]:  # tester present requests of the background worker during the pause of a stack recovery (and while replies travel)
        per_probe += int(case["sleep"] / s3["tp_interval"]) + 3
    budget = int(stacks * 127 * per_probe * (2 if case["with_hooks"] else 1) * 2 + 2000)

    feat_far = any(d >= 2 for d in unbounded.values())
    within = {s for s, d in want.items() if d < depth} | {1}  # sessions the scan starts probing from
    feat_cycle = has_cycle_off_default(adj, within - skip)
    feat_long = any(d > depth for d in unbounded.values())
    feat_unreach = bool(all_sessions - set(unbounded_noskip) - {1})
    cuts = set(level_reach(adj, set(), depth)) != set(want)
    nontrivial = feat_far or feat_cycle or feat_long or feat_unreach or cuts or bool(case["guarded"]) or bool(case["hooked"])
    ident = (sorted(case["edges"].items()), case["guarded"], depth, case["skip"], case["thorough"], case["reset"], case["ecu_reset"],
             case["with_hooks"], case["sleep"], case["full"], case["hooked"],
             sorted(silent.items()) if silent else None, case["max_retries"] if silent else None) \
        + ((("delayed-reset",) + tuple(sorted(delayed.items())),) if delayed else ()) + (("db",) if db else ()) \
        + ((("s3",) + tuple(sorted(s3.items())),) if s3 else ()) \
        + ((("silent-dsc", tuple(sd["ids"]), sd["from"], case["max_retries"]),) if sd else ())
    recs, al = case.get("records") or {}, case.get("alias")
    entries = skip_entries(case["skip_expr"])
    overlapping = any(a2 <= b1 and a1 <= b2 for i, (a1, b1) in enumerate(entries) for a2, b2 in entries[i + 1:])
    ident += ((("dsc-records",) + tuple(sorted(recs.items())),) if recs else ()) \
        + ((("alias", tuple(sorted(al["ids"].items())), al["reply"]),) if al else ()) \
        + ((("skip-spelling", repr(case["skip_expr"])),) if overlapping else ())
    ctx.case(ident, nontrivial=nontrivial)
    ctx.reach("graph.conformant" if conformant else "graph.nonconformant")
    for flag, name in ((case["thorough"], "opt.thorough"), (case["reset"], "opt.reset"), (case["full"], "opt.full-run"),
                       (case["with_hooks"], "opt.with-hooks"), (skip, "skip.used"), (cuts, "skip.cuts-path")):
        if flag:
            ctx.reach(name)
    if any(b in skip for vs in adj.values() for b in vs):
        ctx.reach("skip.on-real-edge")
    if case["hooked"]:
        ctx.reach("hooks.oem-class.with-hooks" if case["with_hooks"] else "hooks.oem-class.without-hooks")
        hk = {(a, b) for a, b in case["hooked"]}
        if case["with_hooks"] and set(want) - set(level_reach({a: {b for b in bs if (a, b) not in hk} for a, bs in adj.items()}, skip, depth)):
            ctx.reach("hooks.session-reachable-only-through-armed-transition")
    if silent:
        ctx.reach("reset.silent.scans")
        ctx.reach(f"reset.silent.scans/{silent['where']}/p={silent['p']}/max-retries={case['max_retries']}")
    if delayed:
        ctx.reach("reset.delayed.scans")
        ctx.reach("reset.delayed.delay/" + ("<=50ms" if delayed["delay"] <= 0.05 else "<=200ms" if delayed["delay"] <= 0.2 else f"<={int(DELAYED_RESET_MAX * 1000)}ms"))
        ctx.reach(f"reset.delayed.latency/{delayed['latency'] * 1000:g}ms")
        if delayed.get("boot"):
            ctx.reach("reset.delayed.scans-with-boot-silence")
    if sd:
        ctx.reach("silent-dsc.scans")
        ctx.reach(f"silent-dsc.max-retries/{case['max_retries']}")
        ctx.reach(f"silent-dsc.from/{sd['from']}")
        if case["thorough"]:
            ctx.reach("silent-dsc.thorough")
        if eff_reset:
            ctx.reach("silent-dsc.with-reset")
        # a reachable session every one of whose offering sessions (among those the scan probes from) drops a lower id first:
        # found only if the scan goes on after an unanswered probe
        scanned_from = ({s for s, d in want.items() if d < depth} | {1}) - skip
        for t in want:
            srcs = [a for a in scanned_from if t in adj.get(a, ())]
            if t != 1 and srcs and all(any(is_silent(case, a, y) for y in range(2, t) if y not in skip) for a in srcs):
                ctx.reach("silent-dsc.reachable-session-only-behind-silent-id")
                break
    if recs:
        ctx.reach("dsc-record.scans")
        ctx.reach("dsc-record.scans/" + ("iso-timing-record-for-every-session" if set(recs.values()) == {ISO_RECORD} and len(recs) == len(all_sessions | {1})
                                         else "records-of-the-ecu's-own"))
    if al:
        ctx.reach("alias.scans")
        ctx.reach(f"alias.reply/{al['reply']}")
    if skip:
        # the spelling of the skip list (reference: the generated set; entries read with int())
        if {x for a, b in entries for x in range(a, b + 1)} != skip:
            raise AssertionError(f"harness: skip expression {case['skip_expr']!r} does not denote {sorted(skip)}")
        ctx.reach("skip.spelling/one-string" if isinstance(case["skip_expr"], str) else "skip.spelling/arguments")
        if overlapping:
            ctx.reach("skip.spelling.overlapping-entries")
            if isinstance(case["skip_expr"], str):
                ctx.reach("skip.spelling.overlapping-entries/one-string")
            kinds: set[str] = set()
            for i, (a1, b1) in enumerate(entries):
                for a2, b2 in entries[i + 1:]:
                    if not (a2 <= b1 and a1 <= b2):
                        continue
                    if (a1, b1) == (a2, b2):
                        kinds.add("same-entry-twice")
                    elif b2 < b1:  # part of the earlier entry lies above the later one
                        kinds.add("later-entry-ends-inside-earlier-one")
                        if a2 < a1:
                            kinds.add("later-entry-ends-inside-earlier-one/starts-below-it")
                        if any(x in adj.get(s, ()) for x in range(b2 + 1, b1 + 1) for s in within):
                            kinds.add("later-entry-ends-inside-earlier-one/ecu-offers-a-session-above-it")
                    elif a2 > a1:
                        kinds.add("later-entry-starts-inside-earlier-one")
                    else:
                        kinds.add("later-entry-covers-earlier-one")
            for k in sorted(kinds):  # once per scan
                ctx.reach("skip.spelling.overlap/" + k)
    if s3:
        ctx.reach("s3.scans")
        ctx.reach("s3.tester-present-on.scans" if s3["tp"] else "s3.tester-present-off.scans")
        ctx.reach("s3.time/" + next(f"{lo:g}..{hi:g}s" for lo, hi in S3_CLASSES if s3["s3"] <= hi))
        ctx.reach("s3.no-sleep" if not case["sleep"] else "s3.sleep-longer-than-s3" if case["sleep"] > s3["s3"] else "s3.sleep-shorter-than-s3")

    w: dict[str, Any] = {k: case[k] for k in CASE_KEYS}
    w["expected"] = sorted(want)
    return {"depth": depth, "skip": skip, "adj": adj, "want": want, "unbounded": unbounded, "all_sessions": all_sessions,
            "eff_reset": eff_reset, "silent": silent, "delayed": delayed, "s3": s3, "silent_dsc": sd, "stuck": stuck, "conformant": conformant, "abort_allowed": abort_allowed, "budget": budget,
            "feat_cycle": feat_cycle, "feat_long": feat_long, "feat_unreach": feat_unreach,
            "mode": "thorough" if case["thorough"] else "default", "w": w}


def check_case(ctx: Any, case: dict[str, Any]) -> None:
    o = prepare(ctx, case)
    try:
        out = vtime.run(scan(case, o["budget"]))
    except vtime.Deadlock:
        ctx.violation(f"sessions/no-termination/blocks-forever/{o['mode']}", "the scan can never complete (nothing scheduled, nothing readable)", o["w"])
        return
    judge(ctx, case, o, out)


def reach_hooks(ctx: Any, case: dict[str, Any], log: list[Any]) -> None:
    """ECU-side evidence that the hook-armed transitions were exercised (no verdicts here)"""
    hooked = {(a, b) for a, b in case["hooked"]}
    if not hooked:
        return
    taken: dict[tuple[int, int], int] = {}
    refused = False
    for i, (before, q, r, _) in enumerate(log):
        if len(q) != 2 or q[0] != 0x10 or (before, q[1] & 0x7F) not in hooked or r is None:
            continue
        if r[0] == 0x7F:
            refused = refused or r[2] == 0x22
        elif i >= 2 and log[i - 1][1][:1] == b"\x2e" and log[i - 2][1] == q and log[i - 2][2] == bytes([0x7F, 0x10, 0x22]):
            taken[(before, q[1] & 0x7F)] = taken.get((before, q[1] & 0x7F), 0) + 1  # refused, armed by the hook, repeated, entered
    if case["with_hooks"]:
        if taken:
            ctx.reach("hooks.armed-transition.refused-then-entered-through-hook")
        if any(n >= 2 for n in taken.values()):
            ctx.reach("hooks.armed-transition.re-entered-during-stack-recovery")
    elif refused:
        ctx.reach("hooks.armed-transition.refused-without-hooks")


def reach_silent_resets(ctx: Any, log: list[Any], reconnects: int) -> None:
    """ECU-side evidence for the 'reset carried out but never answered' path: between two session change requests every
    ECUReset went unanswered (so the scanner has to reconnect instead of waiting for the ECU); the delicate situation is the
    one right after a refused probe made from a non-default session (nothing else tells the scanner to re-enter its stack)"""
    prev: Any = None
    run: list[Any] = []
    seen: set[str] = set()
    for e in log:
        q = e[1]
        if len(q) >= 2 and q[0] == 0x11:
            run.append(e)
        elif len(q) == 2 and q[0] == 0x10:
            if run and all(x[2] is None for x in run):
                seen.add("reset.silent.every-attempt-unanswered")
                if reconnects:
                    seen.add("reset.silent.transport-reconnected")
                if prev is not None and prev[2] is not None and prev[2][0] == 0x7F and prev[0] != 1 and run[0][0] != 1:
                    seen.add("reset.silent.unanswered-after-refused-probe-on-stack")
            elif run and run[0][2] is None:
                seen.add("reset.silent.answered-on-retry")
            prev, run = e, []
    for name in sorted(seen):  # once per scan
        ctx.reach(name)


def delayed_reset_spans(log: list[Any]) -> list[tuple[int, int]]:
    """(index of a positively answered ECUReset request, index of the entry at which that reset was carried out)"""
    spans = []
    open_: list[int] = []
    for i, (_, q, r, _) in enumerate(log):
        if len(q) >= 2 and q[0] == 0x11 and r is not None and r[0] == 0x51:
            open_.append(i)
        elif q == b"" and open_:
            spans.append((open_.pop(0), i))
    return spans


def reach_delayed_resets(ctx: Any, log: list[Any]) -> None:
    """ECU-side evidence for 'positive response first, reset a little later' (no verdicts here)"""
    seen: set[str] = set()
    for i, j in delayed_reset_spans(log):
        seen.add("reset.delayed.carried-out-after-positive-response")
        if log[j][0] != 1:
            seen.add("reset.delayed.ecu-stayed-in-non-default-session-until-reset")
        # what the scanner did afterwards, up to its next reset: default session, a non-default session, one more session change
        dsc = []
        for e in log[j + 1:]:
            if len(e[1]) >= 2 and e[1][0] == 0x11:
                break
            if len(e[1]) == 2 and e[1][0] == 0x10:
                dsc.append(e)
            elif len(e[1]) >= 1 and e[1][0] == 0x3E and e[2] is None:
                seen.add("reset.delayed.ping-unanswered-while-booting")
        if len(dsc) >= 3 and dsc[0][1] == b"\x10\x01" and dsc[0][3] == 1 and dsc[1][3] != 1 and dsc[1][2] is not None and dsc[1][2][0] == 0x50:
            seen.add("reset.delayed.non-default-stack-re-entered-after-reset")
            if log[j][0] != 1:
                seen.add("reset.delayed.non-default-stack-re-entered-after-reset-out-of-non-default-session")
    for name in sorted(seen):  # once per scan
        ctx.reach(name)


def reach_s3(ctx: Any, case: dict[str, Any], o: dict[str, Any], log: list[Any]) -> None:
    """ECU-side evidence for the S3 situations (no verdicts here).  Tester present off: the ECU was idle for longer than S3 in the
    default session (the pause of --sleep), after that a stack with a non-default part was entered and a probe was made from
    there - the one placement of the pause an ECU with a session timeout tolerates.  Tester present on: requests of the cyclic
    worker arrived during the pause / while the ECU was in a non-default session."""
    s3 = o["s3"]
    adj = o["adj"]
    seen: set[str] = set()
    dsc = lambda e: len(e[1]) == 2 and e[1][0] == 0x10  # noqa: E731
    if not s3["tp"]:
        for i, e in enumerate(log):
            if e[1] != b"" or e[0] != 1:
                continue
            seen.add("s3.tester-present-off.idle-beyond-s3-in-default-session")
            # what followed: the rest of the stack (positively answered changes into non-default sessions), then probes from there
            cur = 1
            j = i + 1
            while j < len(log) and not (dsc(log[j]) and (log[j][2] is None or log[j][2][0] != 0x50 or log[j][3] == 1)) and log[j][1] != b"" \
                    and not (len(log[j][1]) >= 2 and log[j][1][0] == 0x11):
                if dsc(log[j]):
                    cur = log[j][3]
                j += 1
            # a change to a session other than 1 requested next can only be a probe made from the re-entered stack (after a
            # successful probe made from the stack [1] the scanner would recover its stack, i.e. request '10 01')
            if cur == 1 or j >= len(log) or not dsc(log[j]) or (log[j][1][1] & 0x7F) == 1:
                continue
            seen.add("s3.tester-present-off.non-default-stack-re-entered-after-pause-beyond-s3")
            if case["thorough"]:
                seen.add("s3.tester-present-off.pause-beyond-s3.thorough")
            if o["eff_reset"]:
                seen.add("s3.tester-present-off.pause-beyond-s3.with-reset")
            # the probes made from there, up to the next recovery: one of them entered a session the default session does not offer
            for e2 in log[j:]:
                if e2[1] == b"" or not (dsc(e2) or e2[1][:1] == b"\x2e"):
                    break
                if dsc(e2) and e2[0] != cur:
                    break
                if dsc(e2) and e2[2] is not None and e2[2][0] == 0x50:
                    if (e2[1][1] & 0x7F) not in adj.get(1, ()):
                        seen.add("s3.tester-present-off.session-default-does-not-offer-entered-after-pause-beyond-s3")
                    break
    else:
        t_default: int | None = None  # index of the last positively answered '10 01'
        pings = 0
        for i, e in enumerate(log):
            q = e[1]
            if dsc(e):
                if t_default is not None and pings:
                    seen.add("s3.tester-present-on.ping-received-during-pause")
                    if pings * s3["tp_interval"] > s3["s3"]:
                        seen.add("s3.tester-present-on.pause-longer-than-s3-bridged")
                t_default = i if q[1] & 0x7F == 1 and e[2] is not None and e[2][0] == 0x50 and case["sleep"] else None
                pings = 0
            elif q[:1] == b"\x3e":
                pings += 1
                if e[0] != 1:
                    seen.add("s3.tester-present-on.ping-received-in-non-default-session")
            elif q != b"":
                t_default = None
    if any(e[1] == b"" and e[0] != 1 for e in log):
        seen.add("s3.fallback-out-of-non-default-session")  # never required; on the unchanged scanner this does not happen
    for name in sorted(seen):  # once per scan
        ctx.reach(name)


def silent_probe_runs(log: list[Any]) -> list[tuple[int, int, int, int]]:
    """(index of the first attempt, index of the last attempt, ECU session, requested id) of every session change probe that the ECU
    left unanswered on every attempt (consecutive identical DiagnosticSessionControl requests without a reply)"""
    runs = []
    i = 0
    while i < len(log):
        before, q, r, _ = log[i]
        if len(q) == 2 and q[0] == 0x10 and r is None:
            j = i
            while j + 1 < len(log) and log[j + 1][1] == q and log[j + 1][2] is None and log[j + 1][0] == before:
                j += 1
            runs.append((i, j, before, q[1] & 0x7F))
            i = j + 1
        else:
            i += 1
    return runs


def reach_silent_dsc(ctx: Any, case: dict[str, Any], o: dict[str, Any], log: list[Any]) -> None:
    """ECU-side evidence for 'some not-offered session ids are never answered' (no verdicts here): where the dropped id lies
    relative to the ids offered from that session, from which kind of stack it was probed, and whether a higher id offered from
    the same session was entered afterwards"""
    adj, skip = o["adj"], o["skip"]
    seen: set[str] = set()
    probed = [x for x in range(1, 0x80) if x not in skip]
    for i, j, a, y in silent_probe_runs(log):
        if j - i + 1 < case["max_retries"] + 1:
            continue
        seen.add("silent-dsc.probe-unanswered-on-every-attempt")
        where = "from-default-stack" if a == 1 else "from-non-default-stack"
        seen.add("silent-dsc." + where)
        others = {b for b in offered_from(case, a) if b != 1 and b not in skip}
        if others and y < min(others):
            seen.add("silent-dsc.position/lower-than-every-other-session-offered-there")
        elif others and y < max(others):
            seen.add("silent-dsc.position/between-sessions-offered-there")
        else:
            seen.add("silent-dsc.position/higher-than-every-session-offered-there")
        if probed and y == probed[1 if len(probed) > 1 else 0]:
            seen.add("silent-dsc.id/first-probed")  # the first id a scan probes after the default session itself
        if probed and y == probed[-1]:
            seen.add("silent-dsc.id/last-probed")
        if any(len(e[1]) == 2 and e[1][0] == 0x10 and e[0] == a and (e[1][1] & 0x7F) > y and (e[1][1] & 0x7F) in adj.get(a, ())
               and e[2] is not None and e[2][0] == 0x50 for e in log[j + 1:]):
            seen.add("silent-dsc.higher-session-entered-after-silence/" + where)
    for name in sorted(seen):  # once per scan
        ctx.reach(name)


def reach_records(ctx: Any, o: dict[str, Any], log: list[Any]) -> None:
    """ECU-side evidence for the formats of the positive DiagnosticSessionControl response (no verdicts here): the ECU entered a
    session the scan has to report and said so with a sessionParameterRecord of that length"""
    seen: set[str] = set()
    for before, q, r, after in log:
        if len(q) == 2 and q[0] == 0x10 and r is not None and len(r) >= 2 and r[0] == 0x50 and r[1] == q[1] & 0x7F and r[1] in o["want"]:
            n = len(r) - 2
            seen.add("dsc-record.reachable-session-entered/record-length/" + ("0" if n == 0 else "1-3" if n < 4 else "4" if n == 4 else "5+"))
            if n not in (0, 4) and before != 1:
                seen.add("dsc-record.reachable-session-entered/record-length-other-than-0-and-4/from-non-default-session")
    for name in sorted(seen):  # once per scan
        ctx.reach(name)


def alias_events(case: dict[str, Any], log: list[Any]) -> list[tuple[int, int, int, int]]:
    """(log index, ECU session before, alias id, session entered) of every `10 y` for an alias id y that the ECU carried out"""
    ids = {int(k): int(v) for k, v in case["alias"]["ids"].items()}
    out = []
    for i, (before, q, r, after) in enumerate(log):
        if len(q) == 2 and q[0] == 0x10 and (q[1] & 0x7F) in ids and r is not None and r[0] == 0x50 and after == ids[q[1] & 0x7F] \
                and (len(r) < 2 or r[1] != q[1] & 0x7F):
            out.append((i, before, q[1] & 0x7F, after))
    return out


def reach_alias(ctx: Any, case: dict[str, Any], o: dict[str, Any], log: list[Any]) -> None:
    """ECU-side evidence for 'session change carried out, reply refused by the client' (no verdicts here): from which kind of
    stack, and whether what the ECU offers for the ids the scan probes next differs between the session the scanner was in and
    the one the ECU entered - the situation in which it matters that the scanner goes back to its stack"""
    adj, skip = o["adj"], o["skip"]
    seen: set[str] = set()
    for i, a, y, t in alias_events(case, log):
        seen.add("alias.session-entered-reply-refused")
        seen.add("alias.session-entered-reply-refused/" + ("from-default-stack" if a == 1 else "from-non-default-stack"))
        seen.add("alias.session-entered-reply-refused/reply-" + case["alias"]["reply"])
        if any(x not in skip and (x in adj.get(a, ())) != (x in adj.get(t, ())) for x in range(y + 1, 0x80)):
            seen.add("alias.higher-id-offered-differently-by-entered-session")
            if not case["reset"]:
                seen.add("alias.higher-id-offered-differently-by-entered-session/without-reset")
                if o["mode"] == "thorough":
                    seen.add("alias.higher-id-offered-differently-by-entered-session/without-reset/thorough")
    for name in sorted(seen):  # once per scan
        ctx.reach(name)


def mechanism(case: dict[str, Any], o: dict[str, Any], log: list[Any]) -> str:
    """ECU-side trace of the two places where the scanner has to re-enter its stack although no probe 'succeeded' in its own
    books; used only to NAME the mechanism in the key of a verdict reached otherwise (wrong set / stack / abort).
    The unchanged scanner re-enters every stack from '10 01' on, so after such an event the next session change request is '10 01'."""
    dsc = [i for i, e in enumerate(log) if len(e[1]) == 2 and e[1][0] == 0x10]
    nxt = {i: j for i, j in zip(dsc, dsc[1:])}
    hooked = {(a, b) for a, b in case["hooked"]}
    out = ""
    if o["silent"]:
        for i, j in nxt.items():
            run = [e for e in log[i + 1 : j] if len(e[1]) >= 2 and e[1][0] == 0x11]
            if run and all(e[2] is None for e in run) and run[0][0] != 1 and log[j][1] != b"\x10\x01":
                out += "/unanswered-reset-then-stack-not-re-entered"
                break
    if o.get("delayed"):
        # the ECU had answered the reset but not yet carried it out when the next session change request arrived: the scanner
        # took the answer (or an answered TesterPresent) for the reset itself
        spans = delayed_reset_spans(log)
        if any(len(e[1]) == 2 and e[1][0] == 0x10 for i, j in spans for e in log[i + 1 : j]):
            out += "/session-change-requested-before-delayed-reset-carried-out"
    if o.get("silent_dsc"):
        # after a probe that the ECU left unanswered on every attempt the scanner goes on with the next session id from the same
        # stack: without --reset its next session change request is that id, with --reset it follows the reset and the stack
        ids = [x for x in range(1, 0x80) if x not in o["skip"]]
        for _, j, a, y in silent_probe_runs(log):
            nxt_id = next((x for x in ids if x > y), None)
            if nxt_id is None:
                continue
            later = [e[1][1] & 0x7F for e in log[j + 1:] if len(e[1]) == 2 and e[1][0] == 0x10]
            window = later[:1] if not case["reset"] else later[: 2 * (o["depth"] + 2) + 1]
            if nxt_id not in window:
                out += "/remaining-session-ids-not-probed-after-unanswered-session-change"
                break
    if case.get("alias"):
        # the ECU carried out a session change whose reply the client refused; the next session change request is not the start
        # of the stack, i.e. the following probe is made from wherever the ECU is now
        for i, a, _, t in alias_events(case, log):
            if t != a and i in nxt and log[nxt[i]][1] != b"\x10\x01":
                out += "/session-entered-reply-refused-then-stack-not-re-entered"
                break
    if o.get("s3"):
        # the ECU was left without any request for longer than S3 while it was in a non-default session (and fell back to the
        # default session behind the scanner's back); how that relates to the options is part of the name
        if any(e[1] == b"" and e[0] != 1 for e in log):
            out += "/ecu-idle-beyond-s3-in-non-default-session/" + ("tester-present-on" if o["s3"]["tp"] else
                                                                     "tester-present-off-sleep-longer-than-s3" if case["sleep"] > o["s3"]["s3"] else "tester-present-off")
    if hooked and case["with_hooks"]:
        for i in dsc:
            before, q, r, after = log[i]
            if (before, q[1] & 0x7F) in hooked and r is not None and r[0] == 0x50 and after != before and i in nxt and log[nxt[i]][1] != b"\x10\x01" \
                    and log[i - 1][1][:1] == b"\x2e":
                out += "/entered-through-hook-then-stack-not-re-entered"
                break
    return out


def judge(ctx: Any, case: dict[str, Any], o: dict[str, Any], out: dict[str, Any], rows: list[tuple[int, Any]] | None = None) -> bool:
    """compare one finished scan with the reference; `rows` = the (destination, steps) rows this scan wrote into
    session_transition (DB-backed scans only).  True = the scan ran to its result phase."""
    from vf import ecu_models as em

    depth, skip, adj, want, unbounded, mode, w = o["depth"], o["skip"], o["adj"], o["want"], o["unbounded"], o["mode"], o["w"]
    budget, conformant, eff_reset, stuck, abort_allowed = o["budget"], o["conformant"], o["eff_reset"], o["stuck"], o["abort_allowed"]
    feat_cycle, feat_long, feat_unreach = o["feat_cycle"], o["feat_long"], o["feat_unreach"]
    log = out["log"]
    ctx.trace([(b, q, r) for b, q, r, _ in log])
    w["result"] = out["result"]
    w["exit"] = out["exit"]
    w["requests"] = len(log)
    w["log_tail"] = em.hexlog(log, 16)
    w["errors_logged"] = out["problems"][:4]

    # (d) the skip option, against what the ECU received
    if sorted(out["skip_cfg"]) != sorted(skip):
        ctx.violation("sessions/skip-option-parsed-differently", "the skip expression does not denote the generated set (see C20)", {**w, "parsed": out["skip_cfg"]})
    asked = sorted({q[1] & 0x7F for _, q, _, _ in log if len(q) >= 2 and q[0] == 0x10 and (q[1] & 0x7F) in skip})
    if asked:
        ctx.violation("sessions/skip-requested", "a session listed in --skip was requested from the ECU", {**w, "requested_skipped": asked})
    if any(len(q) >= 2 and q[0] == 0x10 and (a, q[1] & 0x7F) in {(x, y) for x, y, _ in case["guarded"]} for a, q, _, _ in log):
        ctx.reach("guarded.probed")
    reach_hooks(ctx, case, log)
    if o["silent"]:
        reach_silent_resets(ctx, log, out.get("reconnects", 0))
    if o.get("delayed"):
        reach_delayed_resets(ctx, log)
    if o.get("s3"):
        reach_s3(ctx, case, o, log)
    if o.get("silent_dsc"):
        reach_silent_dsc(ctx, case, o, log)
    if case.get("records"):
        reach_records(ctx, o, log)
    if case.get("alias"):
        reach_alias(ctx, case, o, log)

    mx = mechanism(case, o, log)

    # (c) termination
    if isinstance(out["error"], em.BudgetExceeded):
        ctx.violation(f"sessions/no-termination/request-budget-exceeded/{mode}", f"more than {budget} requests for a graph that needs far fewer: the scan does not terminate", w)
        return False
    if out["error"] is not None:
        ctx.violation(f"sessions/raises/{type(out['error']).__name__}", f"the scan ends with an exception: {out['error']!r:.200}", w)
        return False
    if out["exit"] is not None:
        last_dsc = [(q, r) for _, q, r, _ in log if len(q) == 2 and q[0] == 0x10]
        refused = bool(last_dsc) and last_dsc[-1][1] is not None and last_dsc[-1][1][0] == 0x7F
        if out["exit"] == 1 and abort_allowed and refused:
            ctx.reach("outcome.abort-allowed")
            ctx.reach("outcome.abort-allowed/" + ("default-not-reenterable" if 1 not in adj.get(1, ()) else "no-way-back"))
            return False
        why = "conformant-graph" if conformant else ("with-reset" if eff_reset else "no-refused-change")
        ctx.violation(f"sessions/aborts/{why}/exit-{out['exit']}{mx}", "the scan gives up although every session it enters can return to the default session (or a reset is in use)", {**w, "stuck": stuck})
        return False

    # (a) the reported set
    res = out["result"]
    if res != sorted(set(res)):
        ctx.violation("sessions/result-not-sorted-unique", "SessionsScanner.result is not a sorted list of distinct sessions", w)
    got = set(res)
    for s in sorted(set(want) - got):
        kind = "default-session-reentry" if s == 1 else ("at-depth-limit" if want[s] == depth else "below-depth-limit")
        ctx.violation(f"sessions/missing-reachable-session/{kind}/{mode}{mx}", f"a session reachable by {want[s]} change(s) (depth {depth}) is not reported", {**w, "session": s, "distance": want[s]})
    entered = {r[1] for _, q, r, _ in log if r is not None and len(r) >= 2 and r[0] == 0x50}
    for s in sorted(got - set(want)):
        if s in skip:
            kind = "skipped-session"
        elif s not in entered:
            kind = "never-entered"
        elif s in unbounded and unbounded[s] > depth:
            kind = "beyond-depth"
        else:
            kind = "reports-unreachable"
        key = (f"sessions/reports-unreachable/{kind}/{mode}" if kind != "reports-unreachable" else f"sessions/reports-unreachable/{mode}") + mx
        ctx.violation(key, "a session that cannot be entered within the depth limit is reported", {**w, "session": s, "distance": unbounded.get(s)})
    if got == set(want):
        ctx.reach("outcome.exact")
        if o.get("s3"):
            ctx.reach("s3.outcome.exact")
        if o.get("silent_dsc"):
            ctx.reach("silent-dsc.outcome.exact")
        if not conformant:
            ctx.reach("outcome.exact.nonconformant")
        # (a scan that does not abort has re-entered the default session from itself, so session 1 is always part of an exact result)
        ctx.reach("default-session.reported" if 1 in got else "default-session.not-reported")
        for d in {depth}:
            if feat_cycle:
                ctx.reach(f"cycle@{d}")
            if feat_long:
                ctx.reach(f"long-chain@{d}")
            if feat_unreach:
                ctx.reach(f"unreachable@{d}")
            if any(x >= 2 for x in want.values()):
                ctx.reach(f"via-non-default@{d}")
            if any(x == depth for x in want.values()) and feat_long:
                ctx.reach(f"depth-hit@{d}")

    # (b) stacks: every reported session comes with at least one stack, every stack is a real path ending there
    pos, neg = parse_result_records(out["records"])
    if sorted(pos) != sorted(got):
        ctx.violation("sessions/logged-sessions-differ-from-result", "the result-tagged records list other sessions than SessionsScanner.result", {**w, "logged": sorted(pos)})
    full_adj = adj
    for s in sorted(got):
        stacks_s = pos.get(s, [])
        if not stacks_s:
            ctx.violation("sessions/no-stack-reported", "a reported session comes without a stack", {**w, "session": s})
            continue
        for i, st in enumerate(stacks_s):
            path = st + [s]
            cur = 1
            real = bool(st) and st[0] == 1
            for nx in path:
                if nx not in full_adj.get(cur, ()):
                    real = False
                    break
                cur = nx
            if i == 0:
                ok, final = vtime.run(replay_path(case, path))
                ctx.reach("stacks.replayed")
                if not ok or final != s:
                    real = False
            if not real:
                ctx.violation(f"sessions/stack-not-a-path/{mode}{mx}", "a reported stack, replayed on a fresh ECU, is refused or ends in another session", {**w, "session": s, "stack": st})
                break
            if len(st) > depth:
                ctx.violation(f"sessions/stack-longer-than-depth/{mode}", "a reported stack needs more session changes than the depth limit", {**w, "session": s, "stack": st})
                break
            if any(x in skip for x in path):
                ctx.violation("sessions/stack-through-skipped-session", "a reported stack contains a skipped session", {**w, "session": s, "stack": st})
                break

    # (e) "identified but could not be activated": what sessions.py documents -- a session whose change was answered with an NRC
    # other than subFunctionNotSupported (0x12) / subFunctionNotSupportedInActiveSession (0x7E) and that was never entered is listed
    # separately (never as found, see (a)), with the stack from whose last session the ECU refused it.  Reference: the ECU-side log.
    offered, absent = refusals(log)
    ident_only = set(offered) - entered
    exists_elsewhere = {s for s, v in absent.items() if any(n == 0x7E for _, n in v)} - entered - set(offered)
    if exists_elsewhere:
        ctx.reach("identified.exists-elsewhere-not-entered")  # the situation in which a 0x7E answer could be mistaken for 'identified'
    ctx.reach("identified.log-checked")
    if neg:
        ctx.reach("identified-not-activated.listed")
    for s in sorted(set(neg) - ident_only):
        if s in entered:
            kind = "activated-session"
        elif s in exists_elsewhere:
            kind = "only-answered-nrc-7e"
        elif s in absent:
            kind = "only-answered-nrc-12"
        else:
            kind = "never-requested"
        ctx.violation(f"sessions/identified-list/session-not-offered/{kind}{mx if kind == 'activated-session' else ''}", "a session is logged as 'identified but could not be activated' although the ECU answered its "
                      "DiagnosticSessionControl requests only with sub-function-not-supported (here / in the active session) or entered it", {**w, "session": s, "stacks": neg[s][:4]})
    for s in sorted(ident_only - set(neg)):
        ctx.violation("sessions/identified-list/refused-session-not-listed", "the ECU refused a session change with an NRC other than 0x12/0x7E and never entered the session, "
                      "yet it is not logged as identified", {**w, "session": s, "refused_from": sorted(offered[s])})
    for s in sorted(set(neg) & ident_only):
        for st in neg[s]:
            if not (walk_ok(adj, st) and any(b == st[-1] for b, _ in offered[s])):
                ctx.violation("sessions/identified-list/stack-does-not-lead-to-refusal", "the stack logged for an identified session is not a real path to a session from which the ECU "
                              "refused that change", {**w, "session": s, "stack": st, "refused_from": sorted(offered[s])})
                break

    # (f) session_transition rows of this scan (DB-backed scans)
    if rows is not None:
        ctx.reach("db.scans-judged")
        if exists_elsewhere:
            ctx.reach("db.exists-elsewhere-not-entered")
        w2 = {**w, "rows": rows[:40]}
        dests: set[int] = set()
        for dest, steps in rows:
            ctx.reach("db.rows-checked")
            wr = {**w2, "row": [dest, steps]}
            if not isinstance(dest, int) or not isinstance(steps, list):
                ctx.violation("sessions/db/transition-row-malformed", "a session_transition row does not hold (int destination, JSON list of steps)", wr)
                continue
            dests.add(dest)
            if dest in want:
                path = steps + [dest]
                real = walk_ok(adj, path)
                if real:
                    ok, final = vtime.run(replay_path(case, path))
                    real = ok and final == dest
                if not real:
                    ctx.violation("sessions/db/transition-row-not-a-path", "the steps stored for a reachable session, replayed on a fresh ECU, are refused or end in another session", wr)
                elif len(steps) > depth:
                    ctx.violation("sessions/db/transition-row-longer-than-depth", "the steps stored for a session need more session changes than the depth limit", wr)
                elif any(x in skip for x in path):
                    ctx.violation("sessions/db/transition-row-through-skipped-session", "the steps stored for a session contain a skipped session", wr)
                else:
                    ctx.reach("db.rows-real-path")
                    if len(steps) >= 2:
                        ctx.reach("db.rows-nested")
            elif dest in ident_only:
                ctx.reach("db.identified-only-rows")
                if not (walk_ok(adj, steps) and any(b == steps[-1] for b, _ in offered[dest])):
                    ctx.violation("sessions/db/identified-row-does-not-lead-to-refusal", "the steps stored for an identified-but-not-activated session are not a real path to a "
                                  "session from which the ECU refused that change", {**wr, "refused_from": sorted(offered[dest])})
            else:
                if dest in skip:
                    kind = "skipped-session"
                elif dest in exists_elsewhere:
                    kind = "exists-elsewhere/only-answered-nrc-7e"
                elif dest in entered:
                    kind = "entered-beyond-oracle"
                elif dest in absent:
                    kind = "only-answered-nrc-12"
                else:
                    kind = "never-requested"
                ctx.violation(f"sessions/db/transition-row-for-unreachable-session/{kind}", "session_transition holds a row for a session that can neither be entered within the depth "
                              "limit nor was refused with an NRC other than 0x12/0x7E", {**wr, "distance": unbounded.get(dest)})
        for s in sorted(set(want) - dests):
            ctx.violation("sessions/db/missing-transition-row", "a reachable session has no session_transition row", {**w2, "session": s, "distance": want[s]})
        for s in sorted(ident_only - dests):
            ctx.reach("db.identified-only-without-row")  # not required by the statement; counted only
    return True


# ---- DB-backed scans and two-scan histories (real event loop) -------------------------------------------------------
DB_TIMEOUT = 0.2  # UDS timeout of DB-backed scans (real seconds; the ECU model answers every request of a session scan at once)
DB_WALL = 120.0  # real-time watchdog for one history; a DB-backed scan takes about a second
DB_MAX_REQ = {"quick": 2600, "thorough": 6000}
_db_seq = 0


def db_cost(case: dict[str, Any]) -> int:
    adj = real_adj(case)
    skip = set(case["skip"])
    if case["thorough"]:
        stacks = count_stacks(adj, skip, case["depth"], 10_000)
    else:
        stacks = 1 + (len(level_reach(adj, skip, case["depth"] - 1)) if case["depth"] > 1 else 0)
    return stacks * 127


def fit_db(case: dict[str, Any], tier: str) -> dict[str, Any]:
    """DB-backed scans run in real time: no reset (wait_for_ecu sleeps 0.5 s per probe), no sleep option, bounded size"""
    case["reset"] = None
    case["silent_reset"] = None
    case["delayed_reset"] = None
    case["s3"] = None
    case["silent_dsc"] = None
    case["sleep"] = 0
    while db_cost(case) > DB_MAX_REQ[tier]:
        if case["thorough"]:
            case["thorough"] = False
        elif case["depth"] > 1:
            case["depth"] -= 1
        else:
            break
    return case


def gen_history(rng: Any, tier: str) -> dict[str, Any]:
    """one or two scans of the same target into one database file; the second scan is a variation of the first (smaller depth,
    a skip list that cuts stored paths, a changed graph, thorough flipped) so that rows stored by the first scan describe
    sessions the second scan must NOT report / request"""
    from vf import ecu_models as em

    c1 = gen_case(rng, tier)
    if rng.random() < 0.6 and c1["depth"] < 2:
        c1["depth"] = rng.randint(2, 4)
    if not c1["guarded"] and rng.random() < 0.4:
        # a session that is offered from a session the scan enters but only ever refused (identified, never activated): its row
        # in session_transition is the one kind of row beside the reachable sessions that sessions.py documents
        near = sorted(set(level_reach(real_adj(c1), set(c1["skip"]), max(1, c1["depth"] - 1))) | {1})
        a = rng.choice(near)
        b = rng.choice([x for x in range(2, 0x80) if str(x) not in c1["edges"] and x not in c1["skip"]])
        c1["edges"][str(a)] = sorted(set(c1["edges"][str(a)]) | {b})
        c1["edges"][str(b)] = [1]
        c1["guarded"] = [[a, b, rng.choice(GUARD_NRCS)]]
    fit_db(c1, tier)
    scans = [c1]
    kinds: list[str] = []
    if rng.random() < 0.6:
        c2 = {k: (dict(v) if isinstance(v, dict) else list(v) if isinstance(v, list) else v) for k, v in c1.items()}
        adj1 = real_adj(c1)
        d1 = level_reach(adj1, set(c1["skip"]), c1["depth"])
        if rng.random() < 0.6 and c1["depth"] > 1:
            c2["depth"] = rng.randint(1, c1["depth"] - 1)
            kinds.append("smaller-depth")
        if rng.random() < 0.5:
            inner = [s for s, d in d1.items() if s != 1 and d < c1["depth"] and any(x != s and x != 1 for x in adj1.get(s, ()))]
            others = [s for s in adj1 if s != 1]
            pick = set(rng.sample(inner, min(len(inner), rng.randint(1, 2)))) if inner else set()
            if others and rng.random() < 0.4:
                pick.add(rng.choice(others))
            if pick:
                c2["skip"] = sorted(pick | (set(c1["skip"]) if rng.random() < 0.5 else set()))
                c2["skip_expr"] = em.render_ranges(rng, c2["skip"])
                kinds.append("skip")
        if rng.random() < 0.4:
            edges = {int(k): set(v) for k, v in c1["edges"].items()}
            out1 = [b for b in edges.get(1, ()) if b != 1]
            for b in rng.sample(out1, min(len(out1), rng.randint(1, 2))):
                edges[1].discard(b)  # a session that used to be offered from the default session is now nested or gone
                if rng.random() < 0.5:
                    cand = [a for a in edges if a not in (1, b)]
                    if cand:
                        edges[rng.choice(cand)].add(b)
            for _ in range(rng.randint(0, 2)):
                a, b = rng.choice(sorted(edges)), rng.choice(sorted(edges))
                if a != b and b != 1:
                    edges[a].add(b)
            c2["edges"] = {str(k): sorted(v) for k, v in sorted(edges.items())}
            c2["guarded"] = [g for g in c1["guarded"] if g[1] in edges.get(g[0], ())]
            c2["hooked"] = [h for h in c1["hooked"] if h[1] in edges.get(h[0], ())]
            kinds.append("graph-variant")
        if rng.random() < 0.3:
            c2["thorough"] = not c1["thorough"]
        c2["with_hooks"] = rng.random() < (0.6 if c1["hooked"] else 0.3)
        c2["full"] = rng.random() < 0.25
        if not kinds:
            kinds.append("repeat")
        if c2.get("alias"):
            # the second scan's skip list is its own: alias ids stand for sessions that are not skipped (see gen_alias)
            ids = {y: t for y, t in c2["alias"]["ids"].items() if t not in c2["skip"]}
            c2["alias"] = {"ids": ids, "reply": c2["alias"]["reply"]} if ids else None
        fit_db(c2, tier)
        scans.append(c2)
    return {"scans": scans, "kinds": kinds}


def pinned_history(part: int, i: int) -> dict[str, Any]:
    """chain 1->2->..->6 with a cycle and an island scanned with depth 3, then again with depth 1 / with session 2 skipped"""
    c1 = pinned_case(3, 0)
    c2 = pinned_case(3, 0)
    c1["full"] = part % 2 == 1
    for c in (c1, c2):
        if part % 4 == 1:  # every session answers with a parameter record of its own length (1..7 bytes)
            c["records"] = {str(s): bytes(range(1 + s % 7)).hex() for s in (int(k) for k in c["edges"])}
        elif part % 4 == 3:  # 0x10 is a second name of session 60 (offered from session 2), answered `50 3c`
            c["alias"] = {"ids": {"16": 60}, "reply": "target-id" if i == 0 else "truncated"}
    if part % 4 == 2:  # the first two session changes of the chain need the OEM hook; the second scan runs with or without hooks
        for c in (c1, c2):
            c["hooked"], c["with_hooks"] = [[1, 2], [2, 3]], True
        c2["with_hooks"] = i == 0
    if (part + i) % 2 == 0:
        c2["depth"] = 1
        kinds = ["smaller-depth"]
    else:
        c2["skip"], c2["skip_expr"] = [2], ["0x02"]
        kinds = ["skip"]
    return {"scans": [c1, c2], "kinds": kinds}


async def run_history(path: Any, cases: list[dict[str, Any]], budgets: list[int]) -> list[dict[str, Any]]:
    outs = []
    for case, budget in zip(cases, budgets):
        outs.append(await scan(case, budget, db=path))
    return outs


def uses_stored_transitions(log: list[Any], stored: dict[int, list[list[int]]], skip: set[int]) -> dict[str, Any] | None:
    """ECU-side trace of ECU.set_session() falling back to stored steps: a refused '10 s' directly followed by the steps an
    earlier scan stored for s and by '10 s' again.  The scanner itself never continues like that: after a refused probe that
    is not the last id of its loop the next request is the probe of a higher session id, never '10 01'."""
    dsc = [(i, q[1] & 0x7F, r) for i, (_, q, r, _) in enumerate(log) if len(q) == 2 and q[0] == 0x10]
    for i, s, r in dsc:
        if r is None or r[0] != 0x7F or s not in stored:
            continue
        if not any(x not in skip for x in range(s + 1, 0x80)):
            continue  # last probe of the loop: the next stack is recovered from '10 01' on
        for steps in stored[s]:
            n = len(steps)
            if not n:
                continue
            follow = log[i + 1 : i + 2 + n]
            if len(follow) == n + 1 and all(len(e[1]) == 2 and e[1][0] == 0x10 for e in follow) and [e[1][1] for e in follow] == steps + [s]:
                return {"session": s, "stored_steps": steps, "at_request": i, "log": [f"{e[1].hex()} -> {e[2].hex() if e[2] is not None else '-'}" for e in log[i : i + 2 + n]]}
    return None


def check_history(ctx: Any, hist: dict[str, Any]) -> None:
    from vf import ecu_models as em

    global _db_seq
    cases = hist["scans"]
    os_ = [prepare(ctx, c, db=True) for c in cases]
    hw = [{k: c[k] for k in CASE_KEYS} for c in cases]
    for k, o in enumerate(os_):
        o["w"]["history"] = hw
        o["w"]["scan_index"] = k
    _db_seq += 1
    path = ctx.mkscratch() / f"c09-{_db_seq}.sqlite"
    em.remove_db(path)
    try:
        try:
            try:
                outs = em.run_real(run_history(path, cases, [o["budget"] for o in os_]), DB_WALL)
            except TimeoutError:
                # a real-time watchdog on a loaded machine proves nothing by firing once: the history is repeated, only a repeated stall is reported
                ctx.reach("db.history-repeated-after-watchdog")
                from vf import dbharness as dh

                dh.stop_leaked_connections()
                em.remove_db(path)
                outs = em.run_real(run_history(path, cases, [o["budget"] for o in os_]), DB_WALL)
        except TimeoutError:
            ctx.violation("sessions/db/no-termination/wall-clock", f"a DB-backed history of {len(cases)} scan(s) (about a second each) did not finish within {DB_WALL:.0f} s, twice", os_[0]["w"])
            return
        all_rows = em.read_session_transitions(path)
    finally:
        em.remove_db(path)
    ctx.reach("db.histories")
    stored: dict[int, list[list[int]]] = {}
    for k, (case, o, out) in enumerate(zip(cases, os_, outs)):
        ctx.reach("db.scans")
        if case["full"]:
            ctx.reach("db.full-run")
        rows = [(d, st) for run, d, st in all_rows if run == out["run"]] if out["run"] is not None else []
        foreign = [r for r in all_rows if r[0] not in [x["run"] for x in outs]]
        if foreign:
            ctx.violation("sessions/db/transition-row-for-unknown-run", "session_transition holds rows whose run is none of the scan runs of this history", {**o["w"], "rows": foreign[:10]})
        if k > 0:
            ctx.reach("db.second-scans")
            for kind in hist.get("kinds", []):
                ctx.reach(f"db.second-scan.{kind}")
            nested = {d for d, sts in stored.items() if any(isinstance(st, list) and len(st) >= 2 for st in sts)}
            if nested:
                ctx.reach("db.second-scan.nested-rows-stored")
                if nested - set(o["want"]):
                    ctx.reach("db.second-scan.stored-session-now-out-of-reach")
            if any(isinstance(st, list) and any(x in o["skip"] for x in st) for sts in stored.values() for st in sts):
                ctx.reach("db.second-scan.skip-on-stored-path")
            hit = uses_stored_transitions(out["log"], {d: [st for st in sts if isinstance(st, list)] for d, sts in stored.items()}, o["skip"])
            if hit is not None:
                ctx.violation("sessions/second-scan/uses-stored-transitions", "a refused session change was retried through the steps an earlier scan stored in session_transition "
                              "although the session scan asks for use_db=False: the scan explores the stored graph, not the ECU", {**o["w"], **hit})
        finished = judge(ctx, case, o, out, rows=rows)
        if not finished and rows:
            ctx.reach("db.rows-without-result-phase")
        for d, st in rows:
            if isinstance(d, int):
                stored.setdefault(d, []).append(st)


def run(ctx: Any, params: dict[str, Any]) -> None:
    import gallia.command  # noqa: F401
    from vf import ecu_models as em

    em.capture_logging()
    rng = ctx.rng
    # DB-backed scans first (real time, few): a real DBHandler on a sqlite file in the scratch directory, one or two scans per file
    for i in range(params.get("db", 0)):
        if ctx.out_of_time():
            break
        hist = pinned_history(params["part"], i) if i < 2 else gen_history(rng, ctx.tier)
        check_history(ctx, hist)
        if i % 4 == 0:
            ctx.sample({"db_history": [{k: c[k] for k in ("edges", "guarded", "hooked", "with_hooks", "depth", "skip_expr", "thorough", "full")} for c in hist["scans"]], "kinds": hist["kinds"]})
    for i in range(params["n"]):
        if ctx.out_of_time():
            break
        case = gen_case(rng, ctx.tier)
        if i < 5:  # every shard pins the corner: depth i+1 on a chain with a cycle and an island
            case = pinned_case(i + 1, params["part"])
        check_case(ctx, case)
        if i % 40 == 0:
            ctx.sample({k: case[k] for k in ("edges", "guarded", "hooked", "depth", "skip_expr", "thorough", "reset", "silent_reset", "delayed_reset", "max_retries", "with_hooks", "full")})


def pinned_case(depth: int, part: int) -> dict[str, Any]:
    """deterministic corner for every depth: chain 1->2->..->depth+3, cycle 2->60->61->2, island {100,101}, every session back to 1"""
    edges: dict[int, set[int]] = {}
    chain = list(range(1, depth + 4))
    for a, b in zip(chain, chain[1:]):
        edges.setdefault(a, set()).add(b)
    edges.setdefault(chain[-1], set())
    for a, b in ((2, 60), (60, 61), (61, 2), (100, 101), (101, 100)):
        edges.setdefault(a, set()).add(b)
    for s in list(edges):
        edges[s].add(1)
    case = {"edges": {str(k): sorted(v) for k, v in sorted(edges.items())}, "guarded": [], "depth": depth, "skip": [], "skip_expr": [],
            "thorough": part % 4 == 1 and depth <= 4, "reset": 1 if part % 4 == 2 else None, "ecu_reset": True, "with_hooks": False, "sleep": 0,
            "full": part % 4 == 3, "feats": ["pinned"], "hooked": [], "silent_reset": None, "max_retries": 3, "delayed_reset": None, "s3": None, "silent_dsc": None,
            "records": {}, "alias": None}
    v = part % 16
    if v == 1:  # 0x10 is a second name of session 2 (answered `50 02 ..`); every session has a parameter record of its own length (0..7 bytes)
        case["alias"] = {"ids": {"16": 2}, "reply": "target-id"}
        case["records"] = {str(s): bytes(range((s + depth) % 8)).hex() for s in edges if (s + depth) % 8}
    elif v == 3:  # ... answered with a truncated reply; ids the ECU does not know skipped, written as overlapping entries, the later ones inside the first
        case["alias"] = {"ids": {"16": 2}, "reply": "truncated"}
        case["skip"] = list(range(0x46, 0x60))
        case["skip_expr"] = "0x50-0x5f 70-0x55 0x58" if depth % 2 else ["0x50-0x5f,70-0x55", "0x58"]
    if v in (9, 11):  # the ECU drops '10 03', '10 1e', '10 7f' where it does not offer them (9: everywhere, thorough; 11: outside the default session, full run)
        case["silent_dsc"] = {"ids": [3, 30, 0x7F], "from": "all" if v == 9 else "non-default"}
        case["max_retries"] = 1 if v == 9 else 0
    elif v == 15:  # ... and with --reset before every probe (every attempt of a dropped probe unanswered, max_retries 3)
        case["silent_dsc"] = {"ids": [3, 30], "from": "all"}
        case["reset"] = 1
    if v in (5, 13):  # ECU with a session timeout of 0.4 s / 1.5 s, --sleep 1 / 2 (longer than S3), no tester present
        case["s3"] = {"s3": 0.4 if v == 5 else 1.5, "tp": False, "tp_interval": 0.5, "latency": 0.0 if v == 5 else 0.01}
        case["sleep"] = 1 if v == 5 else 2
        if v == 13:  # ... and with --reset (instead of thorough): reset, wait for the ECU, '10 01', pause, rest of the stack, probe
            case["reset"], case["thorough"] = 1, False
    elif v == 7:  # the same ECU scanned by the full run() with its cyclic tester present (interval 0.2 s) and --sleep 1
        case["s3"] = {"s3": 0.6, "tp": True, "tp_interval": 0.2, "latency": 0.01}
        case["sleep"] = 1
    if v == 2:  # the ECU answers the reset at once and carries it out later (depth-dependent delay; replies take 20 ms)
        case["delayed_reset"] = {"delay": round(0.09 * depth, 3), "latency": 0.02, "boot": 0.3 if depth == 4 else 0.0}
    elif v in (6, 10, 14):  # the ECU carries out every reset (6, 10) / every reset outside the default session (14) without answering
        case["silent_reset"] = {"where": "non-default" if v == 14 else "always", "p": 1.0, "seed": 0}
        case["max_retries"] = 3 if v == 10 else 0
    elif v in (4, 12):  # transitions armed by the OEM hook, scanned with hooks
        case["hooked"], case["with_hooks"] = ([[1, 2], [2, 3]] if v == 4 else [[2, 3], [2, 60]]), True
    elif v == 8:  # ... and without: 3 is identified only, the chain ends at 2
        case["hooked"] = [[2, 3]]
    return case


def replay(ctx: Any, witness: dict[str, Any]) -> None:
    import gallia.command  # noqa: F401
    from vf import ecu_models as em

    em.capture_logging()
    if witness.get("history"):
        check_history(ctx, {"scans": [{**{k: c.get(k, CASE_DEFAULTS.get(k)) for k in CASE_KEYS}, "feats": []} for c in witness["history"]], "kinds": []})
        return
    case = {k: witness.get(k, CASE_DEFAULTS.get(k)) for k in CASE_KEYS}
    case["feats"] = []
    check_case(ctx, case)
