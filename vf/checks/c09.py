"""C09 The session scan reports exactly the sessions reachable within the depth limit (DESIGN.md section 3, C09; 3a)."""

from __future__ import annotations

import re
from typing import Any

from vf import vtime

PROPERTY = "C09"
LEVEL = "exploration"
ENGINE = "ecu-groundtruth"
TECHNIQUE = (
    "runtime monitoring against ECU-side ground truth: the real SessionsScanner.main() (and, for a share of the cases, the real "
    "run() = setup()/main()/teardown()) is executed in-process under a virtual-time event loop against GraphECU, a harness subclass "
    "of gallia's UDSServer whose session transitions are a generated directed graph (gallia's own default response chain answers "
    "absent edges with 0x12/0x7E); the transport logs every request with the ECU session before/after.  Oracle: level-wise "
    "reachability on the generated graph (skipped sessions and refused transitions removed), replay of every reported stack on a "
    "fresh model, request budget / empty virtual schedule for termination, skip list against the ECU-side request log"
)
LEVEL_TEXT = (
    "Exploration: seeded random session graphs (3..14 session ids out of 1..0x7F plus planted chains of length depth+2, cycles, "
    "unreachable components, sessions behind non-default sessions, transitions refused with another NRC), ISO-conformant (every "
    "session returns to the default session) and non-conformant, x depth 1..5 x skip lists in range grammar x thorough x reset x "
    "with-hooks x direct main()/full run().  Held = on every generated scan the result equals the reference reachability set, every "
    "reported stack is a real path, no skipped session was requested and the scan ended within its request budget."
)
LEVEL_NOTE = (
    "Trusted: GraphECU and InProcessTransport in vf/ecu_models.py (about 100 lines on top of gallia's UDSServer base), the level-wise "
    "reachability in this file, vf/vtime.py.  Explicit abort (SystemExit) is accepted only where DESIGN 3a allows it."
)
RULE = (
    "cases = (graph edges, refused transitions, depth, skip list, thorough, reset level, ECU offers reset, with_hooks, sleep, run mode); "
    "graphs are seeded random digraphs with planted features; non-trivial = some session lies at distance >= 2 from the default "
    "session or a planted feature (cycle off the default session, over-long chain, unreachable component, skip that cuts a path, "
    "refused transition) is present; distinct = distinct case tuples; distinct_traces = distinct ECU-side request/reply logs"
)
ASSUMPTIONS = [
    "skip lists never contain the default session (DESIGN 3a)",
    "expected set = sessions s with a walk of 1..depth real transitions from the default session in the graph with skipped sessions removed "
    "(a skipped session is never entered, so paths through it do not count); a transition answered with an NRC is not a transition",
    "explicit abort (SystemExit 1) is accepted, and counted separately, iff some session the scan must enter (or the default session itself) "
    "has no transition back to the default session and either no effective reset is in use or the default session cannot be re-entered from itself; "
    "everywhere else the exact set is required",
    "the ECU model always answers DiagnosticSessionControl (no silent refusals)",
]
EXHAUSTIVE = {"quick": False, "thorough": False}
EXHAUSTIVE_NOTE = ""

GUARD_NRCS = [0x22, 0x33, 0x31, 0x24]
MAX_REQ = {"quick": 20_000, "thorough": 60_000}


def shards(tier: str, seed: int) -> list[dict[str, Any]]:
    if tier == "quick":
        return [{"n": 64, "part": i} for i in range(16)]
    return [{"n": 200, "part": i} for i in range(32)]


def required_reach(tier: str) -> dict[str, int]:
    r = {"#cycle@": 4, "#long-chain@": 5, "#unreachable@": 5, "#via-non-default@": 4, "#depth-hit@": 5,
         "skip.used": 20, "skip.cuts-path": 3, "skip.on-real-edge": 10, "opt.thorough": 20, "opt.reset": 20, "opt.full-run": 10,
         "opt.with-hooks": 10, "guarded.probed": 10, "outcome.exact": 300, "outcome.exact.nonconformant": 3,
         "outcome.abort-allowed": 5, "stacks.replayed": 500, "graph.conformant": 100, "graph.nonconformant": 30,
         "default-session.reported": 50}
    return r


# ---- reference -----------------------------------------------------------------------------------------------------
def real_adj(case: dict[str, Any]) -> dict[int, set[int]]:
    g = {(a, b) for a, b, _ in case["guarded"]}
    adj: dict[int, set[int]] = {}
    for k, v in case["edges"].items():
        adj[int(k)] = {int(x) for x in v if (int(k), int(x)) not in g}
    return adj


def level_reach(adj: dict[int, set[int]], removed: set[int], depth: int | None) -> dict[int, int]:
    """session -> length of the shortest walk (>=1 step) from session 1, nodes in `removed` deleted; depth None = unbounded"""
    dist: dict[int, int] = {}
    frontier = {1}
    seen_frontiers = {1}
    k = 0
    while frontier and (depth is None or k < depth):
        k += 1
        nxt: set[int] = set()
        for u in frontier:
            for v in adj.get(u, ()):
                if v not in removed:
                    nxt.add(v)
        for v in nxt:
            dist.setdefault(v, k)
        frontier = nxt - seen_frontiers  # a node expanded once yields nothing new later
        seen_frontiers |= nxt
    return dist


def count_stacks(adj: dict[int, set[int]], removed: set[int], depth: int, cap: int) -> int:
    """number of stacks a thorough scan searches: walks of length < depth from session 1"""
    level = {1: 1}
    total = 1
    for _ in range(depth - 1):
        nxt: dict[int, int] = {}
        for u, c in level.items():
            for v in adj.get(u, ()):
                if v not in removed:
                    nxt[v] = nxt.get(v, 0) + c
        level = nxt
        total += sum(level.values())
        if total > cap:
            return total
    return total


def has_cycle_off_default(adj: dict[int, set[int]], nodes: set[int]) -> bool:
    """directed cycle of length >= 2 inside `nodes` that does not use session 1"""
    nodes = nodes - {1}
    color: dict[int, int] = {}

    def dfs(u: int) -> bool:
        color[u] = 1
        for v in adj.get(u, ()):
            if v not in nodes or v == u:
                continue
            if color.get(v) == 1:
                return True
            if v not in color and dfs(v):
                return True
        color[u] = 2
        return False

    return any(dfs(u) for u in sorted(nodes) if u not in color)


# ---- generator -----------------------------------------------------------------------------------------------------
def gen_case(rng: Any, tier: str) -> dict[str, Any]:
    from vf import ecu_models as em

    depth = rng.randint(1, 5)
    n = rng.randint(3, 14)
    ids = [1] + rng.sample(range(2, 0x80), n - 1)
    p = min(0.6, 0.02 * (30 ** rng.random()))
    edges: dict[int, set[int]] = {s: set() for s in ids}
    for a in ids:
        for b in ids:
            if a != b and rng.random() < p:
                edges[a].add(b)
            elif a == b and rng.random() < 0.15:
                edges[a].add(b)
    free = [x for x in range(2, 0x80) if x not in ids]
    rng.shuffle(free)
    feats = []
    # make sure something is reachable most of the time
    if rng.random() < 0.9:
        for b in rng.sample(ids[1:], rng.randint(1, min(3, n - 1))):
            edges[1].add(b)
    if rng.random() < 0.45:  # chain of length depth+2 on fresh ids, hanging off a random node
        feats.append("chain")
        start = rng.choice(ids) if rng.random() < 0.5 else 1
        prev = start
        for _ in range(depth + 2):
            c = free.pop()
            edges.setdefault(c, set())
            edges[prev].add(c)
            prev = c
    if rng.random() < 0.45:  # cycle away from the default session
        feats.append("cycle")
        k = rng.randint(2, 4)
        cyc = [free.pop() for _ in range(k)] if rng.random() < 0.5 or n - 1 < k else rng.sample(ids[1:], k)
        for c in cyc:
            edges.setdefault(c, set())
        for a, b in zip(cyc, cyc[1:] + cyc[:1]):
            edges[a].add(b)
        edges[rng.choice([1] + ids[1:])].add(cyc[0])
    if rng.random() < 0.4:  # component without any edge from outside
        feats.append("island")
        isl = [free.pop() for _ in range(rng.randint(1, 3))]
        for c in isl:
            edges.setdefault(c, set())
        for a in isl:
            for b in isl:
                if rng.random() < 0.5:
                    edges[a].add(b)
            if rng.random() < 0.7:
                edges[a].add(1)
            if rng.random() < 0.3:
                edges[a].add(rng.choice(ids))
    style = rng.random()
    if style < 0.62:  # ISO-conformant: every session (also the default session) can go to the default session
        for s in edges:
            edges[s].add(1)
    elif style < 0.8:  # conformant except a few sessions
        for s in edges:
            edges[s].add(1)
        for s in rng.sample(sorted(edges), rng.randint(1, 2)):
            edges[s].discard(1)
    # else: left as generated
    guarded: list[list[int]] = []
    if rng.random() < 0.35:
        feats.append("guarded")
        pairs = [(a, b) for a in edges for b in edges[a] if b != 1]
        for a, b in rng.sample(pairs, min(len(pairs), rng.randint(1, 3))):
            guarded.append([a, b, rng.choice(GUARD_NRCS)])
        for _ in range(rng.randint(0, 2)):  # transitions that are only ever refused
            a, b = rng.choice(sorted(edges)), (free.pop() if rng.random() < 0.5 else rng.choice(sorted(edges)))
            if b != 1 and b not in edges.get(a, ()):
                edges.setdefault(b, set())
                edges[a].add(b)
                guarded.append([a, b, rng.choice(GUARD_NRCS)])
    skip: list[int] = []
    if rng.random() < 0.5:
        cand = [s for s in edges if s != 1]
        k = rng.randint(1, max(1, len(cand) // 3))
        skip = rng.sample(cand, min(k, len(cand))) if rng.random() < 0.8 else []
        for _ in range(rng.randint(0, 4)):  # ids the ECU does not know, and runs of ids
            x = rng.randint(2, 0x7F)
            skip.extend(range(x, min(0x80, x + rng.choice([1, 1, 2, 5]))))
        skip = sorted(set(skip) - {1})
    case = {
        "edges": {str(k): sorted(v) for k, v in sorted(edges.items())},
        "guarded": guarded,
        "depth": depth,
        "skip": skip,
        "skip_expr": em.render_ranges(rng, skip) if skip else [],
        "thorough": rng.random() < 0.3,
        "reset": rng.choice([None, None, None, 1, 1, 3]),
        "ecu_reset": rng.random() < 0.85,
        "with_hooks": rng.random() < 0.3,
        "sleep": rng.choice([0, 0, 0, 2]),
        "full": rng.random() < 0.25,
        "feats": feats,
    }
    # keep the run affordable: a thorough scan searches every walk, a reset costs ~depth+3 requests per probe
    adj = real_adj(case)
    cap = MAX_REQ[tier]
    while True:
        stacks = count_stacks(adj, set(skip), case["depth"], 10_000) if case["thorough"] else min(len(edges), 1 + len(level_reach(adj, set(skip), case["depth"] - 1) if case["depth"] > 1 else {}))
        per_probe = (case["depth"] + 4) if case["reset"] else 1.3
        if stacks * 127 * per_probe <= cap:
            break
        if case["thorough"] and case["depth"] > 2 and rng.random() < 0.7:
            case["depth"] -= 1
        elif case["thorough"]:
            case["thorough"] = False
        elif case["reset"]:
            case["reset"] = None
        else:
            break
    return case


# ---- one scan ------------------------------------------------------------------------------------------------------
STACK_RE = re.compile(r"^\tvia stack: (.*?)(?: \(NRC: .*\))?$")
SESSION_RE = re.compile(r"^\* Session (\S+) $")


def parse_sid(tok: str) -> int:
    tok = tok.strip()
    if tok.startswith("0x"):
        return int(tok, 16)
    if tok.isdigit():
        return int(tok)
    from gallia.services.uds.core.constants import DiagnosticSessionControlSubFuncs

    return int(DiagnosticSessionControlSubFuncs[tok])


def parse_result_records(records: list[tuple[str, str]]) -> tuple[dict[int, list[list[int]]], dict[int, list[list[int]]]]:
    """(activated session -> stacks, identified-but-not-activated session -> stacks) from the result-tagged records"""
    pos: dict[int, list[list[int]]] = {}
    neg: dict[int, list[list[int]]] = {}
    cur: dict[int, list[list[int]]] | None = None
    session: int | None = None
    for name, msg in records:
        if not name.endswith("sessions"):
            continue
        if msg.startswith("Scan finished; Found the following sessions"):
            cur, session = pos, None
        elif msg.startswith("The following sessions were identified"):
            cur, session = neg, None
        elif (m := SESSION_RE.match(msg)) and cur is not None:
            session = parse_sid(m.group(1))
            cur.setdefault(session, [])
        elif (m := STACK_RE.match(msg)) and cur is not None and session is not None:
            cur[session].append([parse_sid(t) for t in m.group(1).split("->")])
    return pos, neg


async def scan(case: dict[str, Any], budget: int) -> dict[str, Any]:
    from gallia.commands.scan.uds.sessions import SessionsScanner
    from vf import ecu_models as em

    srv = em.GraphECU({int(k): v for k, v in case["edges"].items()}, {(a, b): c for a, b, c in case["guarded"]},
                      with_reset=case["ecu_reset"])
    tr = em.InProcessTransport(srv, budget=budget)
    cap = em.fresh_capture()
    opts: dict[str, Any] = {"depth": case["depth"], "skip": list(case["skip_expr"]), "thorough": case["thorough"],
                            "reset": case["reset"], "with_hooks": case["with_hooks"], "sleep": case["sleep"]}
    sc = em.make_scanner(SessionsScanner, **opts)
    out = await em.run_scanner(sc, tr, case["full"])
    out.update({"result": list(sc.result), "log": tr.log, "records": list(cap.results), "problems": list(cap.problems),
                "skip_cfg": list(sc.config.skip)})
    return out


async def replay_path(case: dict[str, Any], path: list[int]) -> tuple[bool, int]:
    """send the session changes to a fresh model; (every change answered positively, final ECU session)"""
    from vf import ecu_models as em

    srv = em.GraphECU({int(k): v for k, v in case["edges"].items()}, {(a, b): c for a, b, c in case["guarded"]},
                      with_reset=case["ecu_reset"])
    tr = em.InProcessTransport(srv)
    ok = True
    for s in path:
        await tr.write(bytes([0x10, s]))
        reply = tr.log[-1][2]
        ok = ok and reply is not None and reply[:2] == bytes([0x50, s])
    return ok, srv.state.session


def check_case(ctx: Any, case: dict[str, Any]) -> None:
    from vf import ecu_models as em

    depth = case["depth"]
    skip = set(case["skip"])
    adj = real_adj(case)
    want = level_reach(adj, skip, depth)
    unbounded = level_reach(adj, skip, None)
    unbounded_noskip = level_reach(adj, set(), None)
    all_sessions = {int(k) for k in case["edges"]}
    eff_reset = bool(case["reset"]) and case["ecu_reset"]
    must_return = set(want) | {1}
    stuck = sorted(s for s in must_return if 1 not in adj.get(s, ()))
    conformant = not stuck
    abort_allowed = (not conformant) and ((not eff_reset) or 1 not in adj.get(1, ()))
    stacks = count_stacks(adj, skip, depth, 10**7) if case["thorough"] else len(all_sessions) + 1
    budget = int(stacks * 127 * (depth + 8) * (2 if case["with_hooks"] else 1) * 2 + 2000)

    feat_far = any(d >= 2 for d in unbounded.values())
    within = {s for s, d in want.items() if d < depth} | {1}  # sessions the scan starts probing from
    feat_cycle = has_cycle_off_default(adj, within - skip)
    feat_long = any(d > depth for d in unbounded.values())
    feat_unreach = bool(all_sessions - set(unbounded_noskip) - {1})
    cuts = set(level_reach(adj, set(), depth)) != set(want)
    nontrivial = feat_far or feat_cycle or feat_long or feat_unreach or cuts or bool(case["guarded"])
    ident = (sorted(case["edges"].items()), case["guarded"], depth, case["skip"], case["thorough"], case["reset"], case["ecu_reset"],
             case["with_hooks"], case["sleep"], case["full"])
    ctx.case(ident, nontrivial=nontrivial)
    ctx.reach("graph.conformant" if conformant else "graph.nonconformant")
    for flag, name in ((case["thorough"], "opt.thorough"), (case["reset"], "opt.reset"), (case["full"], "opt.full-run"),
                       (case["with_hooks"], "opt.with-hooks"), (skip, "skip.used"), (cuts, "skip.cuts-path")):
        if flag:
            ctx.reach(name)
    if any(b in skip for vs in adj.values() for b in vs):
        ctx.reach("skip.on-real-edge")

    w: dict[str, Any] = {k: case[k] for k in ("edges", "guarded", "depth", "skip", "skip_expr", "thorough", "reset", "ecu_reset", "with_hooks", "sleep", "full")}
    w["expected"] = sorted(want)
    mode = "thorough" if case["thorough"] else "default"
    try:
        out = vtime.run(scan(case, budget))
    except vtime.Deadlock:
        ctx.violation(f"sessions/no-termination/blocks-forever/{mode}", "the scan can never complete (nothing scheduled, nothing readable)", w)
        return
    log = out["log"]
    ctx.trace([(b, q, r) for b, q, r, _ in log])
    w["result"] = out["result"]
    w["exit"] = out["exit"]
    w["requests"] = len(log)
    w["log_tail"] = em.hexlog(log, 16)
    w["errors_logged"] = out["problems"][:4]

    # (d) the skip option, against what the ECU received
    if sorted(out["skip_cfg"]) != sorted(skip):
        ctx.violation("sessions/skip-option-parsed-differently", "the skip expression does not denote the generated set (see C20)", {**w, "parsed": out["skip_cfg"]})
    asked = sorted({q[1] & 0x7F for _, q, _, _ in log if len(q) >= 2 and q[0] == 0x10 and (q[1] & 0x7F) in skip})
    if asked:
        ctx.violation("sessions/skip-requested", "a session listed in --skip was requested from the ECU", {**w, "requested_skipped": asked})
    if any(len(q) >= 2 and q[0] == 0x10 and (a, q[1] & 0x7F) in {(x, y) for x, y, _ in case["guarded"]} for a, q, _, _ in log):
        ctx.reach("guarded.probed")

    # (c) termination
    if isinstance(out["error"], em.BudgetExceeded):
        ctx.violation(f"sessions/no-termination/request-budget-exceeded/{mode}", f"more than {budget} requests for a graph that needs far fewer: the scan does not terminate", w)
        return
    if out["error"] is not None:
        ctx.violation(f"sessions/raises/{type(out['error']).__name__}", f"the scan ends with an exception: {out['error']!r:.200}", w)
        return
    if out["exit"] is not None:
        last_dsc = [(q, r) for _, q, r, _ in log if len(q) == 2 and q[0] == 0x10]
        refused = bool(last_dsc) and last_dsc[-1][1] is not None and last_dsc[-1][1][0] == 0x7F
        if out["exit"] == 1 and abort_allowed and refused:
            ctx.reach("outcome.abort-allowed")
            ctx.reach("outcome.abort-allowed/" + ("default-not-reenterable" if 1 not in adj.get(1, ()) else "no-way-back"))
            return
        why = "conformant-graph" if conformant else ("with-reset" if eff_reset else "no-refused-change")
        ctx.violation(f"sessions/aborts/{why}/exit-{out['exit']}", "the scan gives up although every session it enters can return to the default session (or a reset is in use)", {**w, "stuck": stuck})
        return

    # (a) the reported set
    res = out["result"]
    if res != sorted(set(res)):
        ctx.violation("sessions/result-not-sorted-unique", "SessionsScanner.result is not a sorted list of distinct sessions", w)
    got = set(res)
    for s in sorted(set(want) - got):
        kind = "default-session-reentry" if s == 1 else ("at-depth-limit" if want[s] == depth else "below-depth-limit")
        ctx.violation(f"sessions/missing-reachable-session/{kind}/{mode}", f"a session reachable by {want[s]} change(s) (depth {depth}) is not reported", {**w, "session": s, "distance": want[s]})
    entered = {r[1] for _, q, r, _ in log if r is not None and len(r) >= 2 and r[0] == 0x50}
    for s in sorted(got - set(want)):
        if s in skip:
            kind = "skipped-session"
        elif s not in entered:
            kind = "never-entered"
        elif s in unbounded and unbounded[s] > depth:
            kind = "beyond-depth"
        else:
            kind = "reports-unreachable"
        key = f"sessions/reports-unreachable/{kind}/{mode}" if kind != "reports-unreachable" else f"sessions/reports-unreachable/{mode}"
        ctx.violation(key, "a session that cannot be entered within the depth limit is reported", {**w, "session": s, "distance": unbounded.get(s)})
    if got == set(want):
        ctx.reach("outcome.exact")
        if not conformant:
            ctx.reach("outcome.exact.nonconformant")
        # (a scan that does not abort has re-entered the default session from itself, so session 1 is always part of an exact result)
        ctx.reach("default-session.reported" if 1 in got else "default-session.not-reported")
        for d in {depth}:
            if feat_cycle:
                ctx.reach(f"cycle@{d}")
            if feat_long:
                ctx.reach(f"long-chain@{d}")
            if feat_unreach:
                ctx.reach(f"unreachable@{d}")
            if any(x >= 2 for x in want.values()):
                ctx.reach(f"via-non-default@{d}")
            if any(x == depth for x in want.values()) and feat_long:
                ctx.reach(f"depth-hit@{d}")

    # (b) stacks: every reported session comes with at least one stack, every stack is a real path ending there
    pos, neg = parse_result_records(out["records"])
    if sorted(pos) != sorted(got):
        ctx.violation("sessions/logged-sessions-differ-from-result", "the result-tagged records list other sessions than SessionsScanner.result", {**w, "logged": sorted(pos)})
    full_adj = adj
    for s in sorted(got):
        stacks_s = pos.get(s, [])
        if not stacks_s:
            ctx.violation("sessions/no-stack-reported", "a reported session comes without a stack", {**w, "session": s})
            continue
        for i, st in enumerate(stacks_s):
            path = st + [s]
            cur = 1
            real = bool(st) and st[0] == 1
            for nx in path:
                if nx not in full_adj.get(cur, ()):
                    real = False
                    break
                cur = nx
            if i == 0:
                ok, final = vtime.run(replay_path(case, path))
                ctx.reach("stacks.replayed")
                if not ok or final != s:
                    real = False
            if not real:
                ctx.violation(f"sessions/stack-not-a-path/{mode}", "a reported stack, replayed on a fresh ECU, is refused or ends in another session", {**w, "session": s, "stack": st})
                break
            if len(st) > depth:
                ctx.violation(f"sessions/stack-longer-than-depth/{mode}", "a reported stack needs more session changes than the depth limit", {**w, "session": s, "stack": st})
                break
            if any(x in skip for x in path):
                ctx.violation("sessions/stack-through-skipped-session", "a reported stack contains a skipped session", {**w, "session": s, "stack": st})
                break
    # sessions whose change was answered with another NRC may be listed as identified, never as found (covered by (a))
    if neg:
        ctx.reach("identified-not-activated.listed")


def run(ctx: Any, params: dict[str, Any]) -> None:
    import gallia.command  # noqa: F401
    from vf import ecu_models as em

    em.capture_logging()
    rng = ctx.rng
    for i in range(params["n"]):
        if ctx.out_of_time():
            break
        case = gen_case(rng, ctx.tier)
        if i < 5:  # every shard pins the corner: depth i+1 on a chain with a cycle and an island
            case = pinned_case(i + 1, params["part"])
        check_case(ctx, case)
        if i % 40 == 0:
            ctx.sample({k: case[k] for k in ("edges", "guarded", "depth", "skip_expr", "thorough", "reset", "full")})


def pinned_case(depth: int, part: int) -> dict[str, Any]:
    """deterministic corner for every depth: chain 1->2->..->depth+3, cycle 2->60->61->2, island {100,101}, every session back to 1"""
    edges: dict[int, set[int]] = {}
    chain = list(range(1, depth + 4))
    for a, b in zip(chain, chain[1:]):
        edges.setdefault(a, set()).add(b)
    edges.setdefault(chain[-1], set())
    for a, b in ((2, 60), (60, 61), (61, 2), (100, 101), (101, 100)):
        edges.setdefault(a, set()).add(b)
    for s in list(edges):
        edges[s].add(1)
    return {"edges": {str(k): sorted(v) for k, v in sorted(edges.items())}, "guarded": [], "depth": depth, "skip": [], "skip_expr": [],
            "thorough": part % 4 == 1 and depth <= 4, "reset": 1 if part % 4 == 2 else None, "ecu_reset": True, "with_hooks": False, "sleep": 0,
            "full": part % 4 == 3, "feats": ["pinned"]}


def replay(ctx: Any, witness: dict[str, Any]) -> None:
    import gallia.command  # noqa: F401
    from vf import ecu_models as em

    em.capture_logging()
    case = {k: witness[k] for k in ("edges", "guarded", "depth", "skip", "skip_expr", "thorough", "reset", "ecu_reset", "with_hooks", "sleep", "full")}
    case["feats"] = []
    check_case(ctx, case)
