"""C02 Decoded UDS responses expose the received fields and re-encode to the same bytes (DESIGN.md section 3)."""

from __future__ import annotations

import enum
import inspect
import random
from abc import ABC
from typing import Any, Iterator

from vf import iso14229 as iso

PROPERTY = "C02"
LEVEL = "exploration"
ENGINE = "iso14229-reference"
TECHNIQUE = (
    "runtime oracle on the real response parsers: re-encode equality (.pdu == received bytes) for every typed result and "
    "field equality against an independent ISO 14229-1 reference decoder, over generated valid responses, exhaustive short "
    "byte strings and mutated neighbours, through every public parse entry point (UDSResponse.parse_dynamic, <Class>.from_pdu, "
    "<PositiveClass>.parse_static) on the same byte strings; object-independence monitor: typed results are kept alive with a frozen copy "
    "of their public attributes and judged again (pdu, attributes) after later responses of the same class were parsed; "
    "second-parse monitor: every 12th case is parsed, every public attribute of the result is re-assigned / edited in place as a caller may do "
    "(plain attributes, data_record / data_identifier / RawResponse.pdu setters), an equal byte string is parsed again through the same entry "
    "point and the second result is judged (pdu, attributes; raw results must still carry the bytes); "
    "stored-form monitor: typed responses (incl. 4096..70000 byte replies) handed to the real "
    "DBHandler, scan_result.response_pdu / response_data read back from sqlite and compared with the pdu / data the object had when it was "
    "handed over - the caller leaves its object alone, or edits it right after insert_scan_result() returned, or after one suspension, "
    "while the handler is still open"
)
LEVEL_TEXT = (
    "Exploration with exhaustive sub-spaces: UDSResponse.parse_dynamic, every concrete response class' from_pdu and every positive "
    "response class' parse_static (which also has to handle negative responses) are run on "
    "(a) valid responses of every response kind built from the ISO layouts over field boundaries and record lengths, (b) every "
    "byte string of total length <=2 (quick: plus sampled length 3; thorough: every string of length <=3) for each of the 20 "
    "response first bytes, (c) truncations, 1..3 byte extensions and all single-bit flips of valid responses (incl. of 7F sid nrc). A typed result must "
    "re-serialise to the received bytes and expose the reference decoder's field values - when it is parsed and again at the end of its "
    "batch (up to 1500 later parses in the same process, one batch per class in the per-class shard), so state shared between "
    "objects of a class shows in the later object or in the earlier one; every 12th case (all entry points, typed and raw results) is "
    "also parsed a second time after the caller re-assigned / edited in place every public attribute of the first result, and the second "
    "result is judged; (d) typed responses of 1..70000 bytes are "
    "written through DBHandler.insert_scan_result and the stored columns must be the hex form of the pdu and data the object had at that "
    "call, also when the caller edits its object afterwards (at once / after one suspension) before the handler is closed. Held = held on those byte strings."
)
LEVEL_NOTE = "Trusted: reference decoder in vf/iso14229.py. Leniency that loses nothing (accepted and re-encoded identically) is counted, not reported."
RULE = (
    "cases = byte strings fed to the real parsers: reference-built valid responses (boundary field values, records 0..4093 bytes, "
    "0..64 DTC records), exhaustive strings of length <=2 (quick) / <=3 (thorough) per response sid incl. 0x7F, sampled length-3 "
    "strings, and neighbours (every truncation, extension by 1..3 bytes, every single-bit flip) of the valid ones, each through "
    "parse_dynamic and through from_pdu / parse_static of a class of that response sid (negative responses: NegativeResponse.from_pdu and "
    "parse_static of any positive class); non-trivial = the "
    "parser returned a typed (non-raw) object; distinct = distinct (entry point, byte string); evaluations also count the second "
    "judgement of kept objects and the judgement of second parses after an edit of the first result"
)
ASSUMPTIONS = [
    "reference decoder transcribed from ISO 14229-1 (DESIGN.md appendix A)",
    "a byte string the reference calls malformed but the code accepts and re-encodes identically is counted as lenient-identical, not reported",
]
EXHAUSTIVE = {"quick": False, "thorough": True}
EXHAUSTIVE_NOTE = "thorough enumerates every byte string of total length <=3 for each of the 20 response first bytes (19 positive sids + 0x7F)"

FIRST_BYTES = iso.RESPONSE_SIDS + [0x7F]


def shards(tier: str, seed: int) -> list[dict[str, Any]]:
    if tier == "quick":
        return [{"mode": "gen", "n": 8000, "part": i} for i in range(8)] + [{"mode": "short", "len3_samples": 4096, "firsts": FIRST_BYTES[i::5]} for i in range(5)] + [{"mode": "classes", "n": 300}, {"mode": "stored", "n": 150}]
    out: list[dict[str, Any]] = [{"mode": "gen", "n": 40000, "part": i} for i in range(8)]
    # every string of length <= 3: split the second byte range to spread the 20 x 65536 strings
    for fb in FIRST_BYTES:
        out.append({"mode": "exh3", "first": fb})
    out += [{"mode": "classes", "n": 4000}, {"mode": "stored", "n": 1500}]
    return out


def required_reach(tier: str) -> dict[str, int]:
    return {"#typed:": 30, "outcome.raw": 1, "outcome.exception": 1, "outcome.typed": 1000, "neighbours": 1000, "from_pdu.classes": 30, "stored.rows": 100, "stored.long>4095": 3,
            # every public entry point returned typed objects; the static one met negative responses of every length class
            "entry.parse_dynamic.typed": 1000, "entry.from_pdu.typed": 1000, "entry.parse_static.typed": 1000, "parse_static.classes": 30,
            "parse_static.negative-typed": 100, "parse_static.negative-input.len<3": 100, "parse_static.negative-input.len=3": 100, "parse_static.negative-input.len>3": 100,
            # objects of one class with different content in one process: the later one judged, the earlier ones judged again afterwards
            "state.typed-after-other-content-of-same-class": 1000, "state.rechecked-after-later-parse": 1000, "#state.rechecked-class:": 30,
            # the same byte string parsed again after the caller edited the earlier result (edits that changed what that object re-serialises to)
            "again.after-edit-that-changed-pdu.typed": 1000, "again.after-edit-that-changed-pdu.raw": 100, "#again.edited-class:": 30,
            "again.after-edit.entry.parse_dynamic": 1000, "again.after-edit.entry.from_pdu": 1000, "again.after-edit.entry.parse_static": 1000,
            # stored form: what the caller did with its response object after insert_scan_result() had returned
            "stored.caller-afterwards.left-alone": 20, "stored.caller-afterwards.edited-at-once/pdu-changed": 20,
            "stored.caller-afterwards.edited-after-one-suspension/pdu-changed": 20}


# ---- valid response generator (from the ISO layouts) ---------------------------------------------
def rb(rng: random.Random, n: int) -> bytes:
    return rng.randbytes(n)


def rlen(rng: random.Random) -> int:
    return rng.choice([0, 1, 2, 3, 7, 255, 4093, rng.randint(0, 40)])


def b8(rng: random.Random) -> int:
    return rng.choice([0, 1, 0x7F, 0x80, 0xFE, 0xFF, rng.randrange(256)])


def sf7(rng: random.Random) -> int:
    return rng.choice([0, 1, 2, 3, 0x40, 0x7E, 0x7F, rng.randrange(128)])


def did(rng: random.Random) -> bytes:
    return rng.choice([0, 1, 0xFF, 0x100, 0xF186, 0xFFFF, rng.randrange(65536)]).to_bytes(2, "big")


def gen_valid(rng: random.Random) -> bytes:
    r = rng.choice(FIRST_BYTES)
    if r == 0x7F:
        return bytes([0x7F, rng.randrange(256), rng.choice([0x10, 0x11, 0x12, 0x13, 0x22, 0x31, 0x33, 0x78, 0x7E, 0x7F, rng.randrange(256)])])
    if r == 0x50:
        return bytes([r, sf7(rng)]) + rb(rng, rng.choice([0, 4, rng.randint(0, 8)]))
    if r == 0x51:
        return bytes([r, sf7(rng)]) + (bytes([b8(rng)]) if rng.random() < 0.5 else b"")
    if r == 0x67:
        return bytes([r, sf7(rng)]) + rb(rng, rlen(rng))
    if r in (0x68, 0xC5):
        return bytes([r, sf7(rng)])
    if r == 0x7E:
        return b"\x7e\x00"
    if r == 0x62:
        return bytes([r]) + did(rng) + rb(rng, max(1, rlen(rng)))
    if r == 0x63:
        return bytes([r]) + rb(rng, max(1, rlen(rng)))
    if r == 0x6C:
        sf = rng.choice([1, 2, 3, 3])
        if sf == 3 and rng.random() < 0.5:
            return bytes([r, 3])
        return bytes([r, sf]) + did(rng)
    if r == 0x6E:
        return bytes([r]) + did(rng)
    if r == 0x7D:
        aw, sw = rng.randint(1, 15), rng.randint(1, 15)
        return bytes([r, (sw << 4) | aw]) + rng.choice([bytes(aw), b"\xff" * aw, rb(rng, aw)]) + rng.choice([bytes(sw), b"\xff" * sw, rb(rng, sw)])
    if r == 0x54:
        return bytes([r])
    if r == 0x59:
        sf = rng.choice(sorted(iso.DTC_COUNT_SF | iso.DTC_LIST_SF | iso.DTC_SINGLE_SF | {6}))
        if sf in iso.DTC_COUNT_SF:
            return bytes([r, sf, b8(rng), rng.choice([0, 1, 2, 3, 4, 0xFF]), b8(rng), b8(rng)])
        if sf in iso.DTC_LIST_SF:
            n = rng.choice([0, 1, 2, 3, 64, rng.randint(0, 10)])
            recs = [rb(rng, 4) for _ in range(n)]
            if n >= 2 and rng.random() < 0.3:
                recs[-1] = recs[0][:3] + bytes([recs[0][3] ^ 1])  # same DTC reported twice
            if n >= 2 and rng.random() < 0.2:
                recs[-1] = recs[0]
            return bytes([r, sf, b8(rng)]) + b"".join(recs)
        if sf in iso.DTC_SINGLE_SF:
            return bytes([r, sf, b8(rng)]) + (rb(rng, 4) if rng.random() < 0.6 else b"")
        ext = b""
        if rng.random() < 0.8:
            ext = bytes([rng.choice([0, 1, 0x7F, 0xFD, rng.randrange(0xFE)])]) + rb(rng, rlen(rng))
        return bytes([r, 6]) + rng.choice([b"\x00\x00\x00", b"\xff\xff\xff", b"\x00\x00\x01", b"\x01\x00\x00", rb(rng, 3)]) + bytes([b8(rng)]) + ext
    if r == 0x6F:
        return bytes([r]) + did(rng) + bytes([rng.choice([0, 1, 2, 3, b8(rng)])]) + rb(rng, rlen(rng))
    if r == 0x71:
        return bytes([r, rng.choice([1, 2, 3])]) + did(rng) + rb(rng, rlen(rng))
    if r in (0x74, 0x75):
        n = rng.randint(1, 15)
        return bytes([r, n << 4]) + rng.choice([bytes(n), b"\xff" * n, rb(rng, n), b"\x00" * (n - 1) + b"\x01"])
    if r == 0x76:
        return bytes([r, b8(rng)]) + rb(rng, rlen(rng))
    if r == 0x77:
        return bytes([r]) + rb(rng, rlen(rng))
    raise AssertionError(r)


def neighbours(rng: random.Random, b: bytes) -> Iterator[bytes]:
    n = len(b)
    cuts = range(1, n) if n <= 40 else sorted(set(list(range(1, 12)) + [n - 3, n - 2, n - 1]))
    for i in cuts:
        yield b[:i]
    for k in (1, 2, 3):
        yield b + rb(rng, k)
        yield b + bytes(k)
    lim = min(n, 12)
    for i in range(lim):
        for bit in range(8):
            yield b[:i] + bytes([b[i] ^ (1 << bit)]) + b[i + 1 :]


# ---- the monitor --------------------------------------------------------------------------------
ATTR_SKIP = {"kind", "sid", "records", "dtc", "status", "ext", "sub_function"}


def attr_eq(obj: Any, attr: str, want: Any) -> bool:
    if attr == "data_identifier" and hasattr(obj, "data_identifiers"):
        return obj.data_identifiers[0] == want and len(obj.data_identifiers) == 1
    if attr == "data_record" and hasattr(obj, "data_records"):
        return obj.data_records[0] == want and len(obj.data_records) == 1
    got = getattr(obj, attr, "<missing>")
    return bool(got == want)


def class_tag(b: bytes) -> str:
    """structural description of the input, used in violation keys (never the random values)"""
    t = f"{b[0]:02x}"
    if b[0] in (0x59, 0x6C, 0x71) and len(b) > 1:
        t += f".{b[1] & 0x7F:02x}"
    return t


def check_bytes(ctx: Any, b: bytes, parser: Any, entry: str, service: Any, keep: "Keeper | None" = None) -> None:
    ref = iso.decode_response(b)
    ek = entry.rsplit(".", 1)[-1]  # parse_dynamic | from_pdu | parse_static
    AGAIN["n"] += 1
    if AGAIN["n"] % AGAIN_EVERY == 0:
        second_parse_after_edit(ctx, b, parser, entry, service)
    if ek == "parse_static" and b[:1] == b"\x7f":
        # the static entry point hands 7F.. to the negative response parser: which length classes of negative input reached it
        ctx.reach("parse_static.negative-input.len" + ("<3" if len(b) < 3 else "=3" if len(b) == 3 else ">3"))
    try:
        obj = parser(b)
    except Exception as e:
        ctx.reach("outcome.exception")
        ctx.case((entry, b), nontrivial=False)
        if ref is not None:
            ctx.reach("strict.rejects-iso-valid")  # counted here; acceptance of genuine replies is C03's business
            ctx.reach(f"strict.rejects-iso-valid:{class_tag(b)}:{type(e).__name__}")
        return
    if isinstance(obj, (service.RawResponse,)):
        ctx.reach("outcome.raw")
        ctx.case((entry, b), nontrivial=False)
        if obj.pdu != b:
            ctx.violation(f"{entry}/raw-changes-bytes", "raw response does not carry the received bytes", {"entry": entry, "bytes": b, "got": obj.pdu})
        return
    ctx.reach("outcome.typed")
    ctx.reach(f"typed:{type(obj).__name__}")
    ctx.reach(f"entry.{ek}.typed")
    ctx.case((entry, b), nontrivial=True)
    cname = type(obj).__name__
    if ek == "parse_static" and b[0] == 0x7F:
        ctx.reach("parse_static.negative-typed")
    first = SEEN_FIRST.setdefault(cname, b)
    if first != b:
        ctx.reach("state.typed-after-other-content-of-same-class")  # this object is at least the second of its class in this process
    w = {"entry": entry, "bytes": b, "class": cname}
    try:
        p = obj.pdu
    except Exception as e:
        ctx.violation(f"{cname}/pdu-raises/{type(e).__name__}", f"accepted as {cname} but re-serialising raises", {**w, "error": repr(e)})
        if keep is not None:
            keep.add(entry, b, obj, judge_again=False)
        return
    if keep is not None:
        # re-serialises correctly now: must still do so after later parses; otherwise only remembered as "parsed later" (see Keeper)
        keep.add(entry, b, obj, judge_again=p == b)
    if p != b:
        kind = "longer" if len(p) > len(b) else "shorter" if len(p) < len(b) else "same-length"
        # recognisable mechanisms get their own key so that a different normalisation of the same class is still reported
        if ref is not None and ref["kind"] == "dtc_list" and len({d for d, _ in ref["records"]}) < len(ref["records"]):
            ctx.violation(f"{cname}/reencode-differs/duplicate-dtc-collapsed", f"{cname} keeps DTC records in a dict: a DTC reported twice is collapsed", {**w, "got": p})
            return
        if b[0] == 0x6F and len(p) == len(b) + 1 and p[:3] == b[:3] and p[4:] == b[3:]:
            ctx.violation(f"{cname}/from_pdu/control-parameter-prefixed-twice", f"{cname}.from_pdu passes the whole controlStatusRecord as control_states (parameter byte prepended again)", {**w, "got": p})
            return
        ctx.violation(f"{cname}/reencode-differs/{kind}/{'iso-valid' if ref is not None else 'iso-malformed'}",
                      f"accepted as {cname} but re-serialises to other bytes (silent normalisation)", {**w, "got": p})
        return
    if ref is None:
        ctx.reach("lenient-identical")
        return
    # field values at the ISO positions
    for attr, want in ref.items():
        if attr in ATTR_SKIP:
            continue
        if not attr_eq(obj, attr, want):
            ctx.violation(f"{cname}/field-differs/{attr}", f"{cname}.{attr} is not the value at the ISO position", {**w, "attr": attr, "want": want, "got": getattr(obj, attr, None)})
    if ref["kind"] == "negative":
        pass
    if "sub_function" in ref and getattr(obj, "sub_function", ref["sub_function"]) != ref["sub_function"]:
        ctx.violation(f"{cname}/field-differs/sub_function", "sub_function differs", {**w})
    if ref["kind"] == "dtc_list":
        got = list(getattr(obj, "dtc_and_status_record", {}).items())
        if got != ref["records"]:
            ctx.violation(f"{cname}/field-differs/dtc-records", "DTC/status records are not the received ordered list", {**w, "want": ref["records"], "got": got})
    if ref["kind"] == "dtc_ext":
        if tuple(getattr(obj, "dtc_and_status_record", ())) != (ref["dtc"], ref["status"]):
            ctx.violation(f"{cname}/field-differs/dtc-and-status", "DTC and status differ from the received bytes", {**w, "got": getattr(obj, "dtc_and_status_record", None)})


# ---- objects do not share state -----------------------------------------------------------------
# The statement holds for every accepted byte string, whatever was parsed before or is parsed afterwards in the same process: the
# object decoded from X has to expose / re-serialise X also after Y (same class, other content) was decoded, and Y's object Y.
# Y-after-X is what check_bytes sees anyway (counter state.typed-after-other-content-of-same-class); for X-after-Y every typed object
# that re-serialised correctly is kept alive together with a frozen copy of its public attributes and judged again at the end of a batch.
SEEN_FIRST: dict[str, bytes] = {}  # class name -> first byte string this process saw it typed for


def freeze(v: Any) -> Any:
    if isinstance(v, dict):
        return ("dict", tuple((freeze(k), freeze(x)) for k, x in v.items()))
    if isinstance(v, (list, tuple)):
        return (type(v).__name__, tuple(freeze(x) for x in v))
    if isinstance(v, (set, frozenset)):
        return ("set", tuple(sorted(repr(x) for x in v)))
    if isinstance(v, bytearray):
        return ("bytearray", bytes(v))
    return v  # int / enum / bytes / str / None: immutable


def exposed(obj: Any) -> tuple[tuple[str, Any], ...]:
    return tuple((k, freeze(v)) for k, v in sorted(vars(obj).items()) if not k.startswith("_") and k != "trigger_request")


# ---- the same byte string received again after the caller edited the earlier result ---------------
# Response objects are mutable on purpose (plain public attributes, data_record / data_identifier setters, RawResponse.pdu setter)
# and callers post-process what they got.  The statement is about the byte string: what the parser returns for X has to expose /
# re-serialise X also when X was parsed before and the caller has edited *that* result meanwhile.  Every AGAIN_EVERY-th call of
# check_bytes therefore parses its byte string, re-assigns / edits in place every public attribute of the result, parses an equal
# byte string through the same entry point again and judges the second result (raw results: must still carry the bytes).
AGAIN = {"n": 0}
AGAIN_EVERY = 12
EDIT_RNG = random.Random(0)  # re-seeded in run(); separate from ctx.rng so that the generated byte strings do not depend on it


def altered(v: Any, rng: random.Random) -> Any:
    """(True, a different value of the same type) | (True, v) after an in-place edit of a mutable v | (False, None): nothing known"""
    if isinstance(v, bool):
        return True, not v
    if isinstance(v, enum.Enum):
        others = [m for m in type(v) if m is not v]
        return (True, rng.choice(others)) if others else (False, None)
    if isinstance(v, int):
        return True, rng.choice([v ^ 1, v ^ 0x80, v + 1, 0 if v else 1])
    if isinstance(v, (bytes, bytearray)):
        c = [bytes(v) + b"\x00", b"\xa5" + bytes(v)]
        if v:
            c += [bytes(v[:-1]), bytes(v[1:]), bytes([v[0] ^ 0xFF]) + bytes(v[1:]), bytes(v).rstrip(bytes(v[-1:]))]
        return True, type(v)(rng.choice(c))
    if isinstance(v, dict):
        if v and rng.random() < 0.7:
            k = rng.choice(list(v))
            ok, x = altered(v[k], rng)
            if ok and rng.random() < 0.5:
                v[k] = x
            else:
                del v[k]
        else:
            v[rng.randrange(1 << 24)] = rng.randrange(256)
        return True, v
    if isinstance(v, list):
        if v and rng.random() < 0.7:
            i = rng.randrange(len(v))
            ok, x = altered(v[i], rng)
            if ok and rng.random() < 0.5:
                v[i] = x
            else:
                del v[i]
        else:
            v.append(v[0] if v else 0)
        return True, v
    if isinstance(v, tuple) and v:
        i = rng.randrange(len(v))
        ok, x = altered(v[i], rng)
        return (True, v[:i] + (x,) + v[i + 1 :]) if ok else (True, v[:i] + v[i + 1 :])
    return False, None


def settable(obj: Any) -> list[str]:
    """public attributes a caller can assign: instance attributes and properties with a setter"""
    names = [k for k in vars(obj) if not k.startswith("_") and k != "trigger_request"]
    for klass in type(obj).__mro__:
        for k, d in vars(klass).items():
            if isinstance(d, property) and d.fset is not None and not k.startswith("_") and k not in names:
                names.append(k)
    return sorted(names)


def edit_public(obj: Any, rng: random.Random) -> list[str]:
    """what a caller may do with its result: re-assign every public attribute (or edit its mutable value in place)"""
    done = []
    for k in settable(obj):
        try:
            ok, x = altered(getattr(obj, k), rng)
            if ok:
                setattr(obj, k, x)
                done.append(k)
        except Exception:  # a setter that validates, a getter that no longer works after an earlier edit: that attribute stays
            continue
    return done


def second_parse_after_edit(ctx: Any, b: bytes, parser: Any, entry: str, service: Any, rng: random.Random | None = None) -> None:
    ek = entry.rsplit(".", 1)[-1]
    try:
        first = parser(b)
        p1 = first.pdu
    except Exception:
        return  # nothing returned that a caller could edit (or reported by check_bytes)
    if p1 != b:
        return  # reported by check_bytes
    cname = type(first).__name__
    raw = isinstance(first, service.RawResponse)
    snap = exposed(first)
    edited = edit_public(first, rng or EDIT_RNG)
    if not edited:
        ctx.reach("again.nothing-to-edit")  # e.g. 54: a response without fields
        return
    try:
        changed = first.pdu != b
    except Exception:
        changed = True
    ctx.reach(f"again.after-edit.{'raw' if raw else 'typed'}")
    if changed:
        ctx.reach(f"again.after-edit-that-changed-pdu.{'raw' if raw else 'typed'}")
    ctx.reach(f"again.after-edit.entry.{ek}")
    ctx.reach(f"again.edited-class:{cname}")
    for k in edited:
        ctx.reach(f"again.edited-attr:{k}")
    ctx.evals(1)
    w = {"entry": entry, "bytes": b, "class": cname, "edited": edited}
    try:
        second = parser(bytes(bytearray(b)))  # an equal byte string, not the same bytes object
        p2 = second.pdu
    except Exception as e:
        ctx.violation(f"{cname}/second-parse-after-edit/raises/{type(e).__name__}", f"accepted as {cname}; after the caller edited that result the same byte string is not parsed / re-serialised any more", {**w, "error": repr(e)})
        return
    if type(second) is not type(first):
        ctx.violation(f"{cname}/second-parse-after-edit/other-class", f"accepted as {cname}; after the caller edited that result the same byte string is returned as {type(second).__name__}", {**w})
        return
    if p2 != b:
        ctx.violation(f"{cname}/second-parse-after-edit/pdu", f"{cname}: the same byte string parsed again after the caller edited the earlier result re-serialises to other bytes (the earlier, edited object is handed out again)", {**w, "got": p2})
    now = exposed(second)
    if now != snap:
        was = dict(snap)
        diff = sorted(k for k, v in now if was.get(k, "<missing>") != v) or sorted(set(was) - {k for k, _ in now})
        ctx.violation(f"{cname}/second-parse-after-edit/attr:{'+'.join(diff)}", f"{cname}: the same byte string parsed again after the caller edited the earlier result exposes the edited values, not those of the received bytes", {**w, "attrs": diff, "now": repr(now)[:300]})


class Keeper:
    """keeps (entry, received bytes, object, frozen public attributes) of typed results alive; flush() judges them again"""

    def __init__(self, ctx: Any, limit: int = 1500) -> None:
        self.ctx, self.limit = ctx, limit
        self.items: list[tuple[str, bytes, Any, Any]] = []

    def add(self, entry: str, b: bytes, obj: Any, judge_again: bool = True) -> None:
        self.items.append((entry, b, obj, exposed(obj) if judge_again else None))
        if len(self.items) >= self.limit:
            self.flush()

    def flush(self) -> None:
        ctx = self.ctx
        later: dict[str, list[bytes]] = {}  # class name -> up to 3 distinct byte strings parsed into that class after the current item
        for entry, b, obj, snap in reversed(self.items):
            cname = type(obj).__name__
            lb = later.setdefault(cname, [])
            if snap is None:  # did not re-serialise to its bytes when parsed (reported then): only counts as "parsed later"
                if b not in lb and len(lb) < 3:
                    lb.append(b)
                continue
            others = [x for x in lb if x != b]
            if others:
                ctx.reach("state.rechecked-after-later-parse")
                ctx.reach(f"state.rechecked-class:{cname}")
            ctx.evals(1)
            w = {"entry": entry, "bytes": b, "class": cname, "later": others}
            try:
                p = obj.pdu
            except Exception as e:
                ctx.violation(f"{cname}/earlier-object-changed/pdu-raises/{type(e).__name__}", f"{cname} re-serialised to the received bytes when parsed; after later parses .pdu raises", {**w, "error": repr(e)})
                p = b
            if p != b:
                ctx.violation(f"{cname}/earlier-object-changed/pdu", f"{cname} re-serialised to the received bytes when parsed; after later parses of other responses it re-serialises to other bytes (state shared between objects)", {**w, "got": p})
            now = exposed(obj)
            if now != snap:
                was = dict(snap)
                changed = sorted(k for k, v in now if was.get(k, "<missing>") != v) or sorted(set(was) - {k for k, _ in now})
                ctx.violation(f"{cname}/earlier-object-changed/attr:{'+'.join(changed)}", f"public attributes of an earlier {cname} changed while later responses were parsed (state shared between objects)", {**w, "attrs": changed, "now": repr(now)[:300]})
            if b not in lb and len(lb) < 3:
                lb.append(b)
        self.items.clear()


def response_classes(service: Any) -> dict[str, type]:
    out = {}
    for name, obj in vars(service).items():
        if inspect.isclass(obj) and issubclass(obj, service.UDSResponse) and not name.startswith("_") and ABC not in obj.__bases__ and not inspect.isabstract(obj):
            if obj.RESPONSE_SERVICE_ID is not None or name in ("NegativeResponse",):
                out[name] = obj
    return out


class Entries:
    """the public parse entry points: UDSResponse.parse_dynamic, <Class>.from_pdu and <PositiveClass>.parse_static (the spelling of
    the typed call sites, e.g. the hsfz / doip discovery) - classes enumerated from the module, grouped by their response sid"""

    def __init__(self, service: Any) -> None:
        self.dyn = service.UDSResponse.parse_dynamic
        self.classes = response_classes(service)
        self.by_sid: dict[int, list[tuple[str, type]]] = {}
        for name, cls in sorted(self.classes.items()):
            self.by_sid.setdefault(self.rsid(name, cls), []).append((name, cls))
        self.static: list[tuple[str, type]] = [(n, c) for n, c in sorted(self.classes.items()) if callable(getattr(c, "parse_static", None))]
        raw = getattr(service, "RawPositiveResponse", None)
        if raw is not None and callable(getattr(raw, "parse_static", None)):
            self.static.append(("RawPositiveResponse", raw))

    @staticmethod
    def rsid(name: str, cls: Any) -> int:
        return 0x7F if name in ("NegativeResponse", "RawNegativeResponse") else int(cls.RESPONSE_SERVICE_ID)

    def others(self, rng: random.Random, b: bytes) -> list[tuple[str, Any]]:
        """class-level entry points for one byte string: from_pdu / parse_static of a class of that response sid (any class when there is none)"""
        out: list[tuple[str, Any]] = []
        if b[0] == 0x7F:
            name, cls = rng.choice(self.by_sid[0x7F])
            out.append((f"{name}.from_pdu", cls.from_pdu))
            name, cls = rng.choice(self.static)
            out.append((f"{name}.parse_static", cls.parse_static))
            return out
        name, cls = rng.choice(self.by_sid.get(b[0]) or self.static)
        out.append((f"{name}.from_pdu", cls.from_pdu))
        if callable(getattr(cls, "parse_static", None)):
            out.append((f"{name}.parse_static", cls.parse_static))
        return out


def run(ctx: Any, params: dict[str, Any]) -> None:
    import gallia.command  # noqa: F401
    from gallia.services.uds.core import service

    rng = ctx.rng
    EDIT_RNG.seed(f"C02/edit/{ctx.seed}/{ctx.shard_index}")
    AGAIN["n"] = 0
    ent = Entries(service)
    dyn = ent.dyn
    keep = Keeper(ctx)
    mode = params["mode"]

    def all_entries(s: bytes) -> None:
        check_bytes(ctx, s, dyn, "parse_dynamic", service, keep)
        for entry, parser in ent.others(rng, s):
            check_bytes(ctx, s, parser, entry, service, keep)

    if mode == "gen":
        for i in range(params["n"]):
            b = gen_valid(rng)
            if iso.decode_response(b) is None and not (b[0] == 0x7F):
                ctx.violation("harness/generator-invalid", "generator produced bytes its own reference rejects", {"bytes": b})
                continue
            all_entries(b)
            if i % 4 == 0:
                for nb in neighbours(rng, b):
                    ctx.reach("neighbours")
                    if i % 16 == 0:  # the per-class shard runs the class-level entry points on neighbours systematically
                        all_entries(nb)
                    else:
                        check_bytes(ctx, nb, dyn, "parse_dynamic", service, keep)
            if i % 500 == 0:
                ctx.sample({"valid_response": b})
            if ctx.out_of_time():
                break
    elif mode == "short":
        for fb in params["firsts"]:
            all_entries(bytes([fb]))
            for x in range(256):
                all_entries(bytes([fb, x]))
            for _ in range(params["len3_samples"]):
                all_entries(bytes([fb, rng.randrange(256), rng.randrange(256)]))
            ctx.reach("exhaustive.len<=2.firstbytes")
    elif mode == "exh3":
        fb = params["first"]
        all_entries(bytes([fb]))
        for x in range(256):
            all_entries(bytes([fb, x]))
            for y in range(256):
                all_entries(bytes([fb, x, y]))
        ctx.reach("exhaustive.len<=3.firstbytes")
    elif mode == "stored":
        replies = [gen_valid(rng) for _ in range(params["n"])]
        for n in LONG_LENGTHS:
            replies += [b"\x62\xf1\x90" + rb(rng, n), b"\x76\x01" + rb(rng, n), b"\x63" + rb(rng, n), b"\x71\x01\x12\x34" + rb(rng, n), b"\x67\x01" + rb(rng, n)]
        rng.shuffle(replies)
        stored_form(ctx, replies, service)
    elif mode == "classes":
        # every concrete response class' own from_pdu and parse_static on valid responses of its service id and their neighbours;
        # parse_static additionally on negative responses and their neighbours (it is documented to return those as well).
        # One batch of kept objects per class: many objects of the same class with different content, judged again at the end.
        classes = ent.classes
        ctx.reach("from_pdu.classes", len(classes))
        ctx.reach("parse_static.classes", len(ent.static))
        ctx.sample({"response_classes": sorted(classes), "parse_static_classes": [n for n, _ in ent.static]})
        pool: dict[int, list[bytes]] = {}
        for _ in range(params["n"] * 20):
            b = gen_valid(rng)
            pool.setdefault(b[0], []).append(b)
        todo = dict(classes)
        todo.update(dict(ent.static))
        for name, cls in sorted(todo.items()):
            points = [(f"{name}.from_pdu", cls.from_pdu)]
            static = getattr(cls, "parse_static", None)
            if callable(static):
                points.append((f"{name}.parse_static", static))
            if name in classes:
                cands = pool.get(ent.rsid(name, cls), [])
            else:  # RawPositiveResponse: any positive response
                cands = [rng.choice(pool[k]) for k in rng.choices(sorted(k for k in pool if k != 0x7F), k=params["n"])]
            rng.shuffle(cands)
            for b in cands[: params["n"]]:
                with_nb = rng.random() < 0.1
                for entry, parser in points:
                    check_bytes(ctx, b, parser, entry, service, keep)
                    if with_nb:
                        for nb in neighbours(rng, b):
                            check_bytes(ctx, nb, parser, entry, service, keep)
            if callable(static):
                negs = pool.get(0x7F, [])
                for b in rng.sample(negs, min(len(negs), max(40, params["n"] // 8))):
                    check_bytes(ctx, b, static, f"{name}.parse_static", service, keep)
                    if rng.random() < 0.25:
                        for nb in neighbours(rng, b):
                            check_bytes(ctx, nb, static, f"{name}.parse_static", service, keep)
            keep.flush()
            if ctx.out_of_time():
                break
    keep.flush()


LONG_LENGTHS = [20, 21, 255, 4093, 4094, 4095, 4096, 4097, 8190, 8191, 20000, 70000]


def stored_form(ctx: Any, replies: list[bytes], service: Any, use: str = "mix") -> None:
    """'logs and the database store the re-serialised form as what the ECU sent': hand typed responses to the real DBHandler
    (insert_scan_result, writer task, sqlite) and compare the stored columns with the pdu / data the object had when it was handed over.
    The caller keeps its response object: after insert_scan_result() returned it leaves the object alone, or edits its public
    attributes at once (before anything else ran), or after it was suspended once - while the handler is still open."""
    import asyncio
    import json

    from gallia.db.handler import LogMode
    from gallia.services.uds.core.service import RawRequest

    from vf import dbharness as dbh

    path = ctx.mkscratch() / "c02-stored.sqlite"
    kept: list[tuple[bytes, Any, bytes, bytes | None, str]] = []  # received, object, pdu and data when handed over, what the caller did afterwards

    async def main() -> None:
        from datetime import UTC, datetime

        h = await dbh.open_handler(path, "vfwire://c02")
        try:
            for i, b in enumerate(replies):
                try:
                    obj = service.UDSResponse.parse_dynamic(b)
                    handed_pdu = obj.pdu
                    handed_data = getattr(obj, "data", None)
                except Exception:
                    continue
                if type(obj).__name__.startswith("Raw"):
                    continue
                now = datetime.now(UTC).astimezone()
                req = RawRequest(bytes([(b[1] if b[0] == 0x7F else b[0] - 0x40) & 0xFF]) + b[1:3])
                await dbh.guarded(h.insert_scan_result({"session": 1}, req, obj, None, now, now, LogMode.implicit), "insert_scan_result")
                did = "left-alone"
                mode = i % 3 if use == "mix" else 1 + i % 2
                if mode:
                    if mode == 2:
                        await asyncio.sleep(0)
                    if edit_public(obj, EDIT_RNG):
                        did = "edited-at-once" if mode == 1 else "edited-after-one-suspension"
                        try:
                            if obj.pdu != handed_pdu:
                                did += "/pdu-changed"
                        except Exception:
                            did += "/pdu-changed"
                kept.append((b, obj, handed_pdu, handed_data, did))
        except BaseException:
            await dbh.force_close(h)
            raise
        try:
            await dbh.close_handler(h)
        except dbh.HandlerStep as e:  # torn down by force; whether rows were lost is decided from the file below
            close_failed.append(e)

    close_failed: list[Any] = []
    asyncio.run(asyncio.wait_for(main(), 600))
    rows = dbh.read_rows(path)
    if len(rows) != len(kept):
        edited = sum(1 for k in kept if k[4] != "left-alone")
        after = "/response-objects-edited-after-insert" if edited else ""
        nxt = kept[min(len(rows), len(kept) - 1)] if kept else (b"", None, b"", None, "left-alone")
        how = f"; disconnect() {close_failed[0].kind}: {close_failed[0].error}" if close_failed else ""
        ctx.violation(f"stored/row-count-differs{after}", f"{len(kept)} typed responses handed to insert_scan_result ({edited} of them edited by the caller afterwards), {len(rows)} rows stored{how}", {"handed": len(kept), "rows": len(rows), "bytes": nxt[0], "stored_tail": "", "caller_afterwards": nxt[4]})
        if len(rows) > len(kept):
            return
    elif close_failed:
        raise close_failed[0]  # every row is there and disconnect() still failed: not this property's business, not a verdict
    for (b, obj, handed_pdu, handed_data, did), row in zip(kept, rows):
        ctx.reach("stored.rows")
        ctx.reach(f"stored.caller-afterwards.{did}")
        if len(b) > 4095:
            ctx.reach("stored.long>4095")
        tag = type(obj).__name__
        lc = "len>4095" if len(b) > 4095 else "len>20" if len(b) > 20 else "short"
        after = "" if did == "left-alone" else "/response-object-edited-after-insert"
        ctx.case(("stored", b), True)
        try:
            got = dbh.unhex(row["response_pdu"])
        except ValueError:
            got = None
        if got != handed_pdu:
            ctx.violation(f"stored/response_pdu-differs-from-reserialised/{lc}{after}", f"{tag}: scan_result.response_pdu is not the hex form of the pdu the response had when it was handed to insert_scan_result ({len(handed_pdu)} bytes; stored text ends {str(row['response_pdu'])[-12:]!r}; caller afterwards: {did})", {"bytes": b, "stored_tail": str(row["response_pdu"])[-40:], "stored_len": len(str(row["response_pdu"])), "caller_afterwards": did})
        data = json.loads(row["response_data"]) if row["response_data"] else {}
        if "data" in data:
            try:
                dgot = b"" if data["data"] == "''" else bytes.fromhex(data["data"])  # gallia writes empty bytes as ''
            except ValueError:
                dgot = None
            if dgot != handed_data:
                ctx.violation(f"stored/response_data-differs/{lc}{after}", f"{tag}: response_data.data is not the hex form of the data the response had when it was handed over (caller afterwards: {did})", {"bytes": b, "stored_tail": str(data["data"])[-40:], "caller_afterwards": did})
        ctx.evals(1)


def replay(ctx: Any, witness: dict[str, Any]) -> None:
    import gallia.command  # noqa: F401
    from gallia.services.uds.core import service

    b = bytes.fromhex(witness["bytes"][4:])
    EDIT_RNG.seed("C02/edit/replay")
    if "stored_tail" in witness:
        if witness.get("caller_afterwards", "left-alone") != "left-alone":
            stored_form(ctx, [b] * 16, service, use="edit")
        else:
            stored_form(ctx, [b], service)
        return
    entry = witness.get("entry", "parse_dynamic")
    if entry == "parse_dynamic":
        parser = service.UDSResponse.parse_dynamic
    else:
        parser = getattr(getattr(service, entry.split(".")[0]), entry.split(".")[1])
    keep = Keeper(ctx)
    if "edited" in witness:  # second-parse-after-edit: the edit is random, try a few
        for _ in range(32):
            second_parse_after_edit(ctx, b, parser, entry, service)
    check_bytes(ctx, b, parser, entry, service, keep)
    for later in witness.get("later", []):  # earlier-object-changed: the later responses of the same class, then judge the first again
        check_bytes(ctx, bytes.fromhex(later[4:]), parser, entry, service, keep)
    keep.flush()
