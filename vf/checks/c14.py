"""C14 The virtual ECU survives any request and its answers are accepted by the client (DESIGN.md section 3)."""

from __future__ import annotations

import asyncio
import socket
from binascii import hexlify, unhexlify
from pathlib import Path
from typing import Any

from vf import memstream
from vf.models import vecu

PROPERTY = "C14"
LEVEL = "exploration"
ENGINE = "iso14229-reference"
TECHNIQUE = (
    "runtime monitors on the real virtual ECU: no-raise + session-invariant postcondition (icontract on UDSServer.respond) + "
    "client acceptance oracle (UDSResponse.parse_dynamic and helpers.parse_pdu on every reply) + connection-loop survival over "
    "in-memory streams + the virtual ECU behind its real listening socket (UnixUDSServerTransport.run / TCPUDSServerTransport.run, "
    "as `gallia vecu` starts it) answering real client connections, under generated request histories and a per-session sweep of dense models "
    "with value-range reach counters on the fields the ECU draws"
)
LEVEL_TEXT = (
    "Exploration: virtual ECUs (seeds x parameter sets) answer histories of up to 2000 requests each (random bytes of length 1..4095, "
    "every service id with 0..8 bytes of 00/FF/random, structured valid requests incl. multi-identifier and suppress-bit variants, "
    "model-aware requests that drive session changes, seed/key pairs and resets). After every request: no exception, the session is "
    "one the ECU offers (postcondition evaluated on the real respond()), the reply re-parses to the same bytes and gallia's own "
    "parse_pdu accepts it for exactly that request in raw and typed form. The same histories are replayed through the real "
    "TCPUDSServerTransport.handle_client loop on in-memory streams: it must answer every request and only end at EOF. "
    "Socket mode: the ECU is started through the transport's own run() on a unix socket (unix-lines) or a loopback port (tcp-lines), "
    "so the streams are the ones the server creates for itself; a plain asyncio client opens several connections one after the other "
    "to the same ECU and sends histories in which every request length class up to 4095 bytes (powers of two and their neighbours, "
    "the ISO-TP maximum, random lengths; random bytes and service-shaped heads) occurs, one request at a time or in bursts; every "
    "request that is due a reply must get exactly the reply the twin computes, on the same connection, before the client closes. "
    "Sweep: densely populated models (nearly every service and sub-function offered, tens of sessions) have every one of their sessions "
    "entered - along the session changes the ECU itself offers, also where that takes more than one - once per probe, and are asked there "
    "for every reset type ISO 14229-1 defines, plainly and with the suppress bit, and for their DTCs by status mask; same oracles. The "
    "value fields of those replies are drawn by the ECU per (model, session, request bytes): the run only counts as held if both ends "
    "(0x00, 0xFF) of the powerDownTime and DTCStatusAvailabilityMask ranges were seen in replies."
)
LEVEL_NOTE = ("Trusted: the in-memory stream stand-ins (vf/memstream.py). Empty requests and non-hex lines are outside the statement. "
              "Requests are at most 4095 bytes long (the largest PDU classic ISO-TP carries), also on the socket path.")
RULE = (
    "cases = (server seed, parameter set, history prefix, request); requests from the shared generator (vf/models/vecu.gen_request); "
    "non-trivial = the ECU produced a reply (so the client-acceptance oracle ran); distinct = distinct (server, state, request); "
    "socket mode adds one case per client connection (server, transport kind, connection number, requests sent); "
    "the sweep adds cases (dense server, session, reset / DTC request) through the same judge"
)
ASSUMPTIONS = ["requests are non-empty byte strings of at most 4095 bytes; lines on the connection loop are valid hex (as the line transports produce)"]
EXHAUSTIVE = {"quick": False, "thorough": False}


def shards(tier: str, seed: int) -> list[dict[str, Any]]:
    if tier == "quick":
        return [{"base": f"q{seed}-{i}", "servers": 20, "length": 2000, "sweep": 6} for i in range(12)] + [{"base": f"loop{seed}-{i}", "servers": 6, "length": 400, "loop": True} for i in range(4)] + [
            {"base": f"sock{seed}-{i}", "servers": 4, "length": 120, "connections": 3, "sock": True} for i in range(2)]
    return [{"base": f"t{seed}-{i}", "servers": 60, "length": 4000, "sweep": 24} for i in range(14)] + [{"base": f"loop{seed}-{i}", "servers": 60, "length": 600, "loop": True} for i in range(2)] + [
        {"base": f"sock{seed}-{i}", "servers": 12, "length": 300, "connections": 4, "sock": True} for i in range(2)]


def required_reach(tier: str) -> dict[str, int]:
    return {"replies": 10000, "contract.session-invariant": 10000, "client.accepted.raw": 10000, "client.accepted.typed": 10000,
            "positive-replies": 500, "suppressed": 50, "non-default-session": 500, "loop.connections": 4, "loop.replies": 500,
            "long-requests": 10, "inactivity-pause": 20,
            "sock.unix.connections": 4, "sock.tcp.connections": 4, "sock.reconnects": 4, "sock.lockstep-connections": 2,
            "sock.burst-connections": 2, "sock.replies": 500, "sock.len.2^9": 5, "sock.len.2^10": 5, "sock.len.2^11": 5,
            "sock.len.2^12": 5, "sock.len.max": 3,
            "sweep.servers": 36, "sweep.sessions": 1500, "sweep.sessions-beyond-default-reach": 200, "sweep.reset-probes": 6000,
            "sweep.reset-probes-suppressed": 6000, "range.power-down-time.replies": 1000, "range.power-down-time.00": 1,
            "range.power-down-time.ff": 1, "range.dtc-availability-mask.replies": 2000, "range.dtc-availability-mask.00": 1,
            "range.dtc-availability-mask.ff": 1}


class Mon:
    def __init__(self, ctx: Any):
        import icontract
        from gallia.services.uds import helpers
        from gallia.services.uds.core import service
        from gallia.services.uds.server import UDSServer

        self.ctx = ctx
        self.helpers = helpers
        self.service = service
        self.cur: dict[str, Any] = {}
        mon = self

        def session_offered(self: Any, result: Any) -> bool:
            ctx.reach("contract.session-invariant")
            if self.state.session not in self.supported_services:
                ctx.violation("invariant/session-not-offered", "after answering, the virtual ECU is in a session it does not offer",
                              {**mon.cur, "session": self.state.session, "offered": sorted(self.supported_services)})
            return True

        if not getattr(UDSServer.respond, "_vf_wrapped", False):
            wrapped = icontract.ensure(session_offered)(UDSServer.respond)
            wrapped._vf_wrapped = True  # type: ignore[attr-defined]
            UDSServer.respond = wrapped  # type: ignore[method-assign]

    def note_ranges(self, reply: bytes) -> None:
        """reach only: single-byte reply fields whose value the model draws from a documented range 0x00..0xFF - were both ends seen?"""
        field = None
        if len(reply) == 3 and reply[0] == 0x51 and reply[1] == 0x04:
            field = "range.power-down-time"  # ECUReset/enableRapidPowerShutDown: powerDownTime
        elif len(reply) >= 3 and reply[0] == 0x59 and reply[1] == 0x02:
            field = "range.dtc-availability-mask"  # ReadDTCInformation/reportDTCByStatusMask: DTCStatusAvailabilityMask
        if field is not None:
            self.ctx.reach(f"{field}.replies")
            if reply[2] in (0x00, 0xFF):
                self.ctx.reach(f"{field}.{reply[2]:02x}")

    def judge_reply(self, cfg: dict[str, Any], hist: list[bytes], q: bytes, reply: bytes | None) -> None:
        ctx = self.ctx
        s = self.service
        if reply is None:
            ctx.case((cfg["server_seed"], q), nontrivial=False)
            ctx.reach("no-reply")
            if len(q) >= 2 and q[1] & 0x80:
                ctx.reach("suppressed")
            return
        ctx.reach("replies")
        self.note_ranges(reply)
        ctx.case((cfg["server_seed"], cfg.get("session"), q), nontrivial=True)
        w = {**cfg, "history": hist[-20:], "request": q, "reply": reply}
        if reply[0] != 0x7F:
            ctx.reach("positive-replies")
        try:
            back = s.UDSResponse.parse_dynamic(reply)
            if back.pdu != reply:
                ctx.violation(f"reply/not-wellformed/reparse-differs/{reply[0]:02x}", "the ECU's reply does not re-parse to itself", {**w, "got": back.pdu})
        except Exception as e:
            ctx.violation(f"reply/not-wellformed/{type(e).__name__}/{reply[0]:02x}", "the ECU's reply is rejected by gallia's response parser", {**w, "error": repr(e)})
        for form, req in (("raw", s.RawRequest(q)), ("typed", s.UDSRequest.parse_dynamic(q))):
            try:
                r = self.helpers.parse_pdu(reply, req)
                ctx.reach(f"client.accepted.{form}")
                if r.pdu != reply:
                    ctx.violation(f"client/{form}/accepted-bytes-differ/{q[0]:02x}", "client-side object re-serialises to other bytes", {**w, "got": r.pdu})
            except Exception as e:
                sub = f".{q[1] & 0x7F:02x}" if q[0] in (0x19, 0x2C, 0x31) and len(q) > 1 else ""
                ctx.violation(f"client/{form}/{type(e).__name__}/sid-{q[0]:02x}{sub}/reply-{reply[0]:02x}", "gallia's client refuses the virtual ECU's answer to exactly this request", {**w, "error": repr(e)[:300]})


# ---- sweep: the same few requests in every session of densely populated models ---------------------------------------
# Models in which (nearly) everything is offered.  What such an ECU puts into the value fields of a positive reply is drawn per
# (model, active session, request bytes); a particular value of a one-byte field - the ends of its range above all - therefore only
# turns up in a few of the (model, session, spelling) combinations, and the long random histories spend their requests elsewhere.
DENSE_SETS: list[dict[str, Any]] = [
    {"p_session": 1.0, "p_service": 1.0, "p_sub_function": 1.0, "p_identifier": 1.0, "p_correct_payload_format": 1.0, "p_dtc_status_mask": 1.0},
    {"p_session": 1.0, "p_service": 0.9, "p_sub_function": 0.8, "p_identifier": 0.5, "p_correct_payload_format": 0.9},
    {"p_session": 0.7, "p_service": 0.3, "p_sub_function": 0.9, "mandatory_services": [0x10, 0x11, 0x19, 0x3E], "p_identifier": 0.2},
    {"p_session": 1.0, "p_service": 1.0, "p_sub_function": 1.0, "mandatory_sessions": [1, 2, 3], "optional_sessions": list(range(4, 0x40))},
]
RESET_TYPES = (1, 2, 3, 4, 5)  # the reset types ISO 14229-1 defines


def route(offered: Any, src: int, dst: int) -> list[int] | None:
    """sessions to ask for, one DiagnosticSessionControl each, to get from src to dst according to what the ECU says it offers"""
    prev: dict[int, int] = {src: src}
    todo = [src]
    while todo and dst not in prev:
        s = todo.pop(0)
        for n in offered.get(s, {}).get(0x10) or []:
            if n not in prev:
                prev[n] = s
                todo.append(n)
    if dst not in prev:
        return None
    path: list[int] = []
    while dst != src:
        path.append(dst)
        dst = prev[dst]
    return path[::-1]


async def sweep(ctx: Any, mon: Mon, params: dict[str, Any]) -> None:
    """every session a dense model has (also those that take more than one session change to get to) is entered, again and again,
    and asked there for every defined kind of ECU reset, plainly and with the suppress bit, and for its DTCs by status mask"""
    rng = ctx.rng
    for i in range(params.get("sweep", 0)):
        rp = DENSE_SETS[i % len(DENSE_SETS)]
        sseed = f"{params['base']}-sweep{i}"
        cfg: dict[str, Any] = {"server_seed": sseed, "rp": -1, "params": rp}
        d = vecu.Driver(sseed, rp, vecu.all_switches())
        await d.setup()
        offered = d.server.supported_services
        hist: list[bytes] = []
        fresh = 0  # hist[fresh:] starts at a freshly reset ECU (default session): enough to get back to the present state

        async def ask(q: bytes) -> bool:
            nonlocal fresh
            hist.append(q)
            cfg["session"] = d.server.state.session
            mon.cur = {**cfg, "history": hist[fresh:][-20:], "request": q}
            try:
                reply, _ = await d.transport.handle_request(q)
            except Exception as e:
                ctx.violation(f"raises/{type(e).__name__}/sid-{q[0]:02x}", "virtual ECU raises while answering a request (the connection loop would drop the client)", {**mon.cur, "error": repr(e)})
                return False
            mon.judge_reply(cfg, hist[fresh:], q, reply)
            if reply is not None and reply[0] in (0x50, 0x51) and d.server.state.session == 1:
                fresh = len(hist)
            return True

        ctx.reach("sweep.servers")
        sessions = sorted(offered)
        rng.shuffle(sessions)
        alive = True
        for s in sessions:
            probes = [bytes([0x11, sf | spr]) for sf in RESET_TYPES for spr in (0, 0x80)]
            rng.shuffle(probes)
            probes.insert(0, bytes([0x19, 0x02, rng.choice([0x00, 0xFF, rng.randrange(256)])]))
            entered = False
            for p in probes:
                path = route(offered, d.server.state.session, s)
                if path is None:
                    ctx.reach("sweep.no-route")
                    break
                for hop in path:
                    if not (alive := await ask(bytes([0x10, hop]))):
                        break
                if not alive or d.server.state.session != s:
                    break  # whether a session change is granted is C13's business
                if not entered:
                    entered = True
                    ctx.reach("sweep.sessions")
                    if s != 1 and s not in (offered[1].get(0x10) or []):
                        ctx.reach("sweep.sessions-beyond-default-reach")
                if p[0] == 0x11:
                    ctx.reach("sweep.reset-probes-suppressed" if p[1] & 0x80 else "sweep.reset-probes")
                if not (alive := await ask(p)):
                    break
            if not alive:
                break
        if i == 0:
            ctx.sample({"server_seed": sseed, "params": rp, "sessions": len(sessions), "requests": len(hist), "first_requests": hist[:6]})


async def direct(ctx: Any, mon: Mon, params: dict[str, Any]) -> None:
    rng = ctx.rng
    await sweep(ctx, mon, params)
    for i in range(params["servers"]):
        if ctx.out_of_time():
            break
        rp = rng.randrange(len(vecu.PARAM_SETS))
        sseed = f"{params['base']}-{i}"
        cfg: dict[str, Any] = {"server_seed": sseed, "rp": rp}
        d = vecu.Driver(sseed, vecu.PARAM_SETS[rp], vecu.all_switches())
        await d.setup()
        m = d.model
        assert m is not None
        hist: list[bytes] = []
        last_seed: tuple[int, bytes] | None = None
        for _ in range(params["length"]):
            if rng.random() < 0.01:
                # the tester falls silent: more than 10 s of inactivity reset the ECU state (the server's clock is virtual here)
                gap = rng.choice([3.0, 30.0, 30.0, 600.0])
                vecu.CLOCK.advance(gap)
                if gap > 10:
                    m.reset()
                    last_seed = None
                    ctx.reach("inactivity-pause")
                    hist.append(b"\x00PAUSE")
            q = vecu.gen_request(rng, m, last_seed)
            if last_seed is None and hist and hist[-1] == b"\x00PAUSE" and rng.random() < 0.5:
                q = bytes([0x27, rng.choice([2, 4, 0x12])]) + rng.randbytes(2)  # a key right after the pause
            hist.append(q)
            if len(q) > 255:
                ctx.reach("long-requests")
            cfg["session"] = d.server.state.session
            mon.cur = {**cfg, "history": hist[-20:], "request": q}
            try:
                raw = d.is_raw(q)
                reply, _ = await d.transport.handle_request(q)
            except Exception as e:
                ctx.violation(f"raises/{type(e).__name__}/sid-{q[0]:02x}", "virtual ECU raises while answering a request (the connection loop would drop the client)", {**mon.cur, "error": repr(e)})
                break
            m.check(q, raw, reply)  # keeps the shadow model in step (verdicts belong to C13)
            m.S = d.server.state.session
            last_seed = (m.last_sa[0], m.last_sa[1]) if m.last_sa is not None and m.last_sa[1] is not vecu.UNKNOWN else None
            if d.server.state.session != 1:
                ctx.reach("non-default-session")
            mon.judge_reply(cfg, hist, q, reply)
        if i == 0:
            ctx.sample({"server_seed": sseed, "rp": rp, "first_requests": hist[:6]})


async def conn_loop(ctx: Any, mon: Mon, params: dict[str, Any]) -> None:
    """the real connection loop on in-memory streams, against a twin server driven directly"""
    from gallia.services.uds.server import TCPUDSServerTransport
    from gallia.transports import TargetURI

    rng = ctx.rng
    for i in range(params["servers"]):
        if ctx.out_of_time():
            break
        rp = rng.randrange(len(vecu.PARAM_SETS))
        sseed = f"{params['base']}-{i}"
        cfg = {"server_seed": sseed, "rp": rp}
        twin = vecu.Driver(sseed, vecu.PARAM_SETS[rp], vecu.all_switches())
        await twin.setup()
        m = twin.model
        assert m is not None
        reqs: list[bytes] = []
        expected: list[bytes | None] = []
        last_seed = None
        for _ in range(params["length"]):
            q = vecu.gen_request(rng, m, None)  # no seed/key pairs: seeds are fresh per server instance
            try:
                reply, _ = await twin.transport.handle_request(q)
            except Exception:
                break  # reported by the direct mode
            m.check(q, twin.is_raw(q), reply)
            m.S = twin.server.state.session
            reqs.append(q)
            expected.append(reply)
        server = vecu.make_server(sseed, vecu.PARAM_SETS[rp], None)
        await server.setup()
        tr = TCPUDSServerTransport(server, TargetURI("tcp-lines://127.0.0.1:1"))
        reader = memstream.new_reader(limit=2**20)
        writer = memstream.MemWriter()
        # segment the byte stream arbitrarily
        stream = b"".join(hexlify(q) + b"\n" for q in reqs)
        task = asyncio.ensure_future(tr.handle_client(reader, writer))  # type: ignore[arg-type]
        pos = 0
        while pos < len(stream):
            n = rng.choice([1, 2, 7, 64, 1000, 9000])
            reader.feed_data(stream[pos : pos + n])
            pos += n
            await asyncio.sleep(0)
        for _ in range(50):
            await asyncio.sleep(0)
        ended_early = task.done()
        reader.feed_eof()
        try:
            await asyncio.wait_for(task, 30)
        except Exception as e:
            ctx.violation(f"loop/raises/{type(e).__name__}", "connection loop raises", {**cfg, "error": repr(e)})
            continue
        ctx.reach("loop.connections")
        got = bytes(writer.buffer).split(b"\n")[:-1]
        want = [hexlify(r) for r in expected if r is not None]
        ctx.reach("loop.replies", len(got))
        ctx.case(("loop", sseed, len(reqs)))
        if ended_early:
            ctx.violation("loop/ended-before-eof", "connection loop ended before the client closed (connection dropped)", {**cfg, "requests": len(reqs), "replies": len(got)})
            continue
        if len(got) != len(want):
            ctx.violation("loop/reply-count", "connection loop did not answer every request that is due a reply", {**cfg, "requests": len(reqs), "replies": len(got), "expected": len(want)})
            continue
        for g, wv in zip(got, want):
            if g != wv and not (g[:2] == b"67" and wv[:2] == b"67" and g[2:4] == wv[2:4]):
                ctx.violation("loop/reply-differs", "connection loop sends another reply than the server computes for that request", {**cfg, "got": g[:80], "want": wv[:80]})
                break


# ---- socket mode: the virtual ECU behind its own listening socket ----------------------------------------------------
ANSWER_WITHIN = 30.0  # real seconds a client waits for a reply line (only ever spent when the ECU has gone silent)
MAX_REQUEST = 4095  # the largest PDU classic ISO-TP carries
LENGTH_CLASSES = sorted({n for k in range(8, 13) for n in (2**k - 1, 2**k, 2**k + 1) if n <= MAX_REQUEST} | {MAX_REQUEST - 1, MAX_REQUEST})


def sized_request(rng: Any, m: Any) -> bytes:
    """a request of a chosen length class: random bytes or a service-shaped head, filled up with random bytes"""
    n = rng.choice(LENGTH_CLASSES) if rng.random() < 0.7 else rng.randint(256, MAX_REQUEST)
    offered = sorted(m.M.get(m.S, {})) or [0x3E]
    head = rng.choice([b"", b"", bytes([rng.choice(offered)]), b"\x2e" + rng.randbytes(2), b"\x31\x01" + rng.randbytes(2), b"\x36\x01",
                       b"\x3e\x00", b"\x27\x02", b"\x3d\x11", bytes([rng.randrange(256)])])
    return (head + rng.randbytes(n))[:n]


def len_class(n: int) -> str:
    return f"sock.len.2^{max(8, (n - 1).bit_length())}"  # 2^k: 2^(k-1) < n <= 2^k (everything up to 256 in 2^8)


def free_port() -> int:
    with socket.socket() as s:
        s.bind(("127.0.0.1", 0))
        return int(s.getsockname()[1])


class Served:
    """One virtual ECU started the way `gallia vecu <uri> rng` starts it: transport.run() of the transport class that belongs to
    the URI scheme.  The only thing put in between is an observer around the instance's handle_client, which records when the
    connection loop of a connection has returned and then closes that connection's writer (gallia leaves it open), so that a client
    sees EOF instead of silence and the listening server can be shut down without waiting for ever (Python 3.12.1 wait_closed)."""

    def __init__(self, kind: str, server: Any, scratch: Path, tag: str):
        self.kind, self.server, self.scratch, self.tag = kind, server, scratch, tag
        self.conns: list[dict[str, Any]] = []
        self.task: asyncio.Future[None] | None = None
        self.path: Path | None = None
        self.port = 0
        self.uri = ""

    def _start(self) -> None:
        from gallia.services.uds.server import TCPUDSServerTransport, UnixUDSServerTransport
        from gallia.transports import TargetURI

        if self.kind == "unix":
            self.path = self.scratch / f"{self.tag}.sock"
            self.path.unlink(missing_ok=True)
            self.uri = f"unix-lines://{self.path}"
            tr: Any = UnixUDSServerTransport(self.server, TargetURI(self.uri))
        else:
            self.port = free_port()
            self.uri = f"tcp-lines://127.0.0.1:{self.port}"
            tr = TCPUDSServerTransport(self.server, TargetURI(self.uri))
        real = tr.handle_client
        conns = self.conns

        async def observed(reader: Any, writer: Any) -> None:
            rec = {"ended": False, "writer": writer, "done": asyncio.Event()}
            conns.append(rec)
            try:
                await real(reader, writer)
            finally:
                rec["ended"] = True
                rec["done"].set()
                writer.close()

        tr.handle_client = observed
        self.task = asyncio.ensure_future(tr.run())

    async def _open(self) -> tuple[Any, Any]:
        if self.kind == "unix":
            return await asyncio.open_unix_connection(str(self.path), limit=2**20)
        return await asyncio.open_connection("127.0.0.1", self.port, limit=2**20)

    async def connect(self) -> tuple[Any, Any, dict[str, Any]] | str:
        """a client connection that this server's connection loop has picked up, or the reason why there is none"""
        loop = asyncio.get_running_loop()
        for attempt in range(6):
            if self.task is None:
                self._start()
            assert self.task is not None
            end = loop.time() + 60
            while loop.time() < end and not self.task.done():
                before = len(self.conns)
                try:
                    reader, writer = await self._open()
                except OSError:
                    await asyncio.sleep(0.01)
                    continue
                seen = loop.time() + 20
                while len(self.conns) == before and loop.time() < seen and not self.task.done():
                    await asyncio.sleep(0.005)
                if len(self.conns) > before:
                    return reader, writer, self.conns[before]
                writer.close()  # somebody else's listener on that port, or run() gave up
                break
            if self.task.done() and not self.task.cancelled() and isinstance(self.task.exception(), OSError) and self.kind == "tcp":
                self.task = None  # the port was taken in the meantime: another one
                continue
            if self.task.done():
                return f"run() ended: {self.task.exception()!r}" if not self.task.cancelled() else "run() was cancelled"
            return "no connection to the listening socket came about"
        return "no free loopback port"

    async def stop(self, ctx: Any) -> None:
        for rec in self.conns:
            rec["writer"].close()
        await asyncio.sleep(0.01)
        if self.task is not None and not self.task.done():
            self.task.cancel()
            _, pending = await asyncio.wait([self.task], timeout=10)
            if pending:
                ctx.reach("sock.shutdown-hung")  # interpreter trait (Server.wait_closed), not a verdict
        elif self.task is not None and not self.task.cancelled():
            self.task.exception()
        if self.path is not None:
            self.path.unlink(missing_ok=True)


def same_reply(got: bytes, want: bytes) -> bool:
    # seeds are fresh per server instance: 67 <odd level> <seed> only has to agree in kind
    return got == want or (got[:1] == b"\x67" and want[:1] == b"\x67" and got[1:2] == want[1:2])


async def one_connection(ctx: Any, mon: Mon, sv: Served, cfg: dict[str, Any], pairs: list[tuple[bytes, bytes | None]], burst: bool, rng: Any) -> bool:
    """send the (request, reply the twin computed) pairs over one client connection; False = the connection is unusable"""
    kind = sv.kind
    c = await sv.connect()
    if isinstance(c, str):
        if kind == "tcp" and c == "no free loopback port":
            ctx.reach("sock.tcp-port-unavailable")
        else:
            ctx.violation(f"sock/{kind}/not-listening", "the virtual ECU's transport does not accept a client connection", {**cfg, "mode": "sock", "kind": kind, "why": c})
        return False
    reader, writer, rec = c
    sent: list[bytes] = []

    def wit(q: bytes, **kw: Any) -> dict[str, Any]:
        return {**cfg, "mode": "sock", "kind": kind, "burst": burst, "request_len": len(q), "request_head": q[:16], "requests_before_on_connection": len(sent) - 1,
                "previous": [x[:24] for x in sent[-6:-1]], "loop_returned": rec["ended"], **kw}

    async def send(q: bytes) -> str | None:
        sent.append(q)
        ctx.reach(len_class(len(q)))
        if len(q) == MAX_REQUEST:
            ctx.reach("sock.len.max")
        data = hexlify(q) + b"\n"
        try:
            if rng.random() < 0.3:
                cut = rng.randrange(len(data))
                writer.write(data[:cut])
                await asyncio.wait_for(writer.drain(), ANSWER_WITHIN)
                await asyncio.sleep(0)
                data = data[cut:]
            writer.write(data)
            await asyncio.wait_for(writer.drain(), ANSWER_WITHIN)
        except (ConnectionError, TimeoutError) as e:
            ctx.violation(f"sock/{kind}/connection-dropped", "the virtual ECU dropped the connection: a request cannot be sent any more", wit(q, error=repr(e)))
            return "dropped"
        return None

    async def receive(q: bytes, want: bytes) -> str | None:
        try:
            line = await asyncio.wait_for(reader.readline(), ANSWER_WITHIN)
        except TimeoutError:
            ctx.violation(f"sock/{kind}/no-answer", "a request that is due a reply gets none on a live connection", wit(q, expected=want))
            return "silent"
        except ConnectionError as e:
            line, why = b"", repr(e)
        else:
            why = "EOF"
        if not line.endswith(b"\n"):
            ctx.violation(f"sock/{kind}/connection-dropped", "the virtual ECU dropped the connection instead of answering a request", wit(q, expected=want, end=why))
            return "dropped"
        ctx.reach("sock.replies")
        try:
            got = unhexlify(line.strip())
        except ValueError:
            ctx.violation(f"sock/{kind}/reply-not-hex", "the virtual ECU sends a line that is not a hex encoded PDU", wit(q, line=line[:80]))
            return "garbage"
        if not same_reply(got, want):
            ctx.violation(f"sock/{kind}/reply-differs", "over the socket the virtual ECU sends another reply than it computes for that request", wit(q, got=got[:80], expected=want[:80]))
            return "differs"
        if got:
            mon.judge_reply(cfg, [x[:64] for x in sent[-20:]], q, got)
        return None

    ok = True
    pos = 0
    while pos < len(pairs) and ok:
        block = pairs[pos : pos + (rng.choice([2, 3, 8]) if burst else 1)]
        pos += len(block)
        for q, _ in block:
            if await send(q) is not None:
                ok = False
                break
        if not ok:
            break
        for q, want in block:
            if want is not None and await receive(q, want) is not None:
                ok = False
                break
    if ok and rec["ended"]:
        ctx.violation(f"sock/{kind}/loop-ended-before-eof", "connection loop ended before the client closed (connection dropped)", wit(sent[-1] if sent else b""))
        ok = False
    writer.close()
    try:
        await asyncio.wait_for(writer.wait_closed(), 10)
    except (ConnectionError, TimeoutError):
        pass
    try:
        await asyncio.wait_for(rec["done"].wait(), 10)  # tidy: the server side has seen the EOF
    except TimeoutError:
        ctx.reach("sock.loop-still-running-after-eof")
    if ok:
        ctx.reach(f"sock.{kind}.connections")
        ctx.reach("sock.burst-connections" if burst else "sock.lockstep-connections")
        if len(sv.conns) > 1:
            ctx.reach("sock.reconnects")  # the same ECU (state carried over) serves another connection after the previous one was closed
    ctx.case(("sock", cfg["server_seed"], kind, len(sv.conns), len(sent)))
    return ok


async def sock_loop(ctx: Any, mon: Mon, params: dict[str, Any]) -> None:
    """the real start-up path: transport.run() listening on a unix socket / loopback port, real client connections, twin as oracle"""
    rng = ctx.rng
    scratch = ctx.mkscratch()
    for i in range(params["servers"]):
        if ctx.out_of_time():
            break
        kind = ("unix", "tcp")[i % 2]
        rp = rng.randrange(len(vecu.PARAM_SETS))
        sseed = f"{params['base']}-{i}"
        cfg: dict[str, Any] = {"server_seed": sseed, "rp": rp}
        twin = vecu.Driver(sseed, vecu.PARAM_SETS[rp], vecu.all_switches())
        await twin.setup()
        m = twin.model
        assert m is not None
        server = vecu.make_server(sseed, vecu.PARAM_SETS[rp], None)
        await server.setup()
        sv = Served(kind, server, scratch, f"s{i}")
        try:
            for c in range(params["connections"]):
                pairs: list[tuple[bytes, bytes | None]] = []
                broken = False
                for j in range(params["length"] + 1):
                    if j == params["length"]:
                        q = b"\x3e\x00"  # always due a reply: nothing the ECU still owes is left unread when the client closes
                    elif rng.random() < 0.15 or j == 0:
                        q = sized_request(rng, m)
                    else:
                        q = vecu.gen_request(rng, m, None)  # no seed/key pairs: seeds are fresh per server instance
                    try:
                        reply, _ = await twin.transport.handle_request(q)
                    except Exception:
                        broken = True  # reported by the direct mode
                        break
                    m.check(q, twin.is_raw(q), reply)
                    m.S = twin.server.state.session
                    pairs.append((q, reply))
                if not await one_connection(ctx, mon, sv, cfg, pairs, burst=bool((c + i // 2) % 2), rng=rng) or broken:
                    break
        finally:
            await sv.stop(ctx)
        if i == 0:
            ctx.sample({"server_seed": sseed, "rp": rp, "listening_on": sv.uri, "connections": len(sv.conns)})


def run_sock(coro: Any) -> None:
    # not asyncio.run(): its final "cancel whatever is left" would wait for ever on a listening server that could not be shut down
    loop = asyncio.new_event_loop()
    asyncio.set_event_loop(loop)
    loop.run_until_complete(coro)


def run(ctx: Any, params: dict[str, Any]) -> None:
    import gallia.command  # noqa: F401

    mon = Mon(ctx)
    if params.get("sock"):
        run_sock(sock_loop(ctx, mon, params))
    elif params.get("loop"):
        asyncio.run(conn_loop(ctx, mon, params))
    else:
        asyncio.run(direct(ctx, mon, params))


def replay(ctx: Any, witness: dict[str, Any]) -> None:
    import gallia.command  # noqa: F401

    def ux(x: Any) -> bytes:
        return bytes.fromhex(x[4:]) if isinstance(x, str) and x.startswith("hex:") else x

    async def go_sock() -> None:
        import random

        mon = Mon(ctx)
        twin = vecu.Driver(witness["server_seed"], vecu.PARAM_SETS[witness["rp"]], vecu.all_switches())
        await twin.setup()
        server = vecu.make_server(witness["server_seed"], vecu.PARAM_SETS[witness["rp"]], None)
        await server.setup()
        n = int(witness.get("request_len", 1))
        q = (ux(witness.get("request_head", b"\x3e\x00")) + bytes(n))[:n] or b"\x3e\x00"
        pairs = []
        for r in (b"\x3e\x00", q, b"\x3e\x00"):
            reply, _ = await twin.transport.handle_request(r)
            pairs.append((r, reply))
        sv = Served(witness.get("kind", "unix"), server, ctx.mkscratch(), "replay")
        try:
            await one_connection(ctx, mon, sv, {"server_seed": witness["server_seed"], "rp": witness["rp"]}, pairs, bool(witness.get("burst")), random.Random(0))
        finally:
            await sv.stop(ctx)

    if witness.get("mode") == "sock":
        run_sock(go_sock())
        return

    async def go() -> None:
        mon = Mon(ctx)
        d = vecu.Driver(witness["server_seed"], witness.get("params") or vecu.PARAM_SETS[witness["rp"]], vecu.all_switches())
        await d.setup()
        hist: list[bytes] = []
        for h in witness.get("history", []):
            q = ux(h)
            if q == b"\x00PAUSE":
                vecu.CLOCK.advance(30.0)
                continue
            hist.append(q)
            try:
                reply, _ = await d.transport.handle_request(q)
            except Exception as e:
                ctx.violation(f"raises/{type(e).__name__}/sid-{q[0]:02x}", "virtual ECU raises", {"request": q, "error": repr(e)})
                return
            mon.judge_reply({"server_seed": witness["server_seed"], "rp": witness["rp"]}, hist, q, reply)

    asyncio.run(go())
