"""C14 The virtual ECU survives any request and its answers are accepted by the client (DESIGN.md section 3)."""

from __future__ import annotations

import asyncio
from binascii import hexlify
from typing import Any

from vf import memstream
from vf.models import vecu

PROPERTY = "C14"
LEVEL = "exploration"
ENGINE = "iso14229-reference"
TECHNIQUE = (
    "runtime monitors on the real virtual ECU: no-raise + session-invariant postcondition (icontract on UDSServer.respond) + "
    "client acceptance oracle (UDSResponse.parse_dynamic and helpers.parse_pdu on every reply) + connection-loop survival over "
    "in-memory streams, under generated request histories"
)
LEVEL_TEXT = (
    "Exploration: virtual ECUs (seeds x parameter sets) answer histories of up to 2000 requests each (random bytes of length 1..4095, "
    "every service id with 0..8 bytes of 00/FF/random, structured valid requests incl. multi-identifier and suppress-bit variants, "
    "model-aware requests that drive session changes, seed/key pairs and resets). After every request: no exception, the session is "
    "one the ECU offers (postcondition evaluated on the real respond()), the reply re-parses to the same bytes and gallia's own "
    "parse_pdu accepts it for exactly that request in raw and typed form. The same histories are replayed through the real "
    "TCPUDSServerTransport.handle_client loop on in-memory streams: it must answer every request and only end at EOF."
)
LEVEL_NOTE = "Trusted: the in-memory stream stand-ins (vf/memstream.py). Empty requests and non-hex lines are outside the statement."
RULE = (
    "cases = (server seed, parameter set, history prefix, request); requests from the shared generator (vf/models/vecu.gen_request); "
    "non-trivial = the ECU produced a reply (so the client-acceptance oracle ran); distinct = distinct (server, state, request)"
)
ASSUMPTIONS = ["requests are non-empty byte strings; lines on the connection loop are valid hex (as the line transports produce)"]
EXHAUSTIVE = {"quick": False, "thorough": False}


def shards(tier: str, seed: int) -> list[dict[str, Any]]:
    if tier == "quick":
        return [{"base": f"q{seed}-{i}", "servers": 20, "length": 2000} for i in range(12)] + [{"base": f"loop{seed}-{i}", "servers": 6, "length": 400, "loop": True} for i in range(4)]
    return [{"base": f"t{seed}-{i}", "servers": 60, "length": 4000} for i in range(14)] + [{"base": f"loop{seed}-{i}", "servers": 60, "length": 600, "loop": True} for i in range(2)]


def required_reach(tier: str) -> dict[str, int]:
    return {"replies": 10000, "contract.session-invariant": 10000, "client.accepted.raw": 10000, "client.accepted.typed": 10000,
            "positive-replies": 500, "suppressed": 50, "non-default-session": 500, "loop.connections": 4, "loop.replies": 500,
            "long-requests": 10, "inactivity-pause": 20}


class Mon:
    def __init__(self, ctx: Any):
        import icontract
        from gallia.services.uds import helpers
        from gallia.services.uds.core import service
        from gallia.services.uds.server import UDSServer

        self.ctx = ctx
        self.helpers = helpers
        self.service = service
        self.cur: dict[str, Any] = {}
        mon = self

        def session_offered(self: Any, result: Any) -> bool:
            ctx.reach("contract.session-invariant")
            if self.state.session not in self.supported_services:
                ctx.violation("invariant/session-not-offered", "after answering, the virtual ECU is in a session it does not offer",
                              {**mon.cur, "session": self.state.session, "offered": sorted(self.supported_services)})
            return True

        if not getattr(UDSServer.respond, "_vf_wrapped", False):
            wrapped = icontract.ensure(session_offered)(UDSServer.respond)
            wrapped._vf_wrapped = True  # type: ignore[attr-defined]
            UDSServer.respond = wrapped  # type: ignore[method-assign]

    def judge_reply(self, cfg: dict[str, Any], hist: list[bytes], q: bytes, reply: bytes | None) -> None:
        ctx = self.ctx
        s = self.service
        if reply is None:
            ctx.case((cfg["server_seed"], q), nontrivial=False)
            ctx.reach("no-reply")
            if len(q) >= 2 and q[1] & 0x80:
                ctx.reach("suppressed")
            return
        ctx.reach("replies")
        ctx.case((cfg["server_seed"], cfg.get("session"), q), nontrivial=True)
        w = {**cfg, "history": hist[-20:], "request": q, "reply": reply}
        if reply[0] != 0x7F:
            ctx.reach("positive-replies")
        try:
            back = s.UDSResponse.parse_dynamic(reply)
            if back.pdu != reply:
                ctx.violation(f"reply/not-wellformed/reparse-differs/{reply[0]:02x}", "the ECU's reply does not re-parse to itself", {**w, "got": back.pdu})
        except Exception as e:
            ctx.violation(f"reply/not-wellformed/{type(e).__name__}/{reply[0]:02x}", "the ECU's reply is rejected by gallia's response parser", {**w, "error": repr(e)})
        for form, req in (("raw", s.RawRequest(q)), ("typed", s.UDSRequest.parse_dynamic(q))):
            try:
                r = self.helpers.parse_pdu(reply, req)
                ctx.reach(f"client.accepted.{form}")
                if r.pdu != reply:
                    ctx.violation(f"client/{form}/accepted-bytes-differ/{q[0]:02x}", "client-side object re-serialises to other bytes", {**w, "got": r.pdu})
            except Exception as e:
                sub = f".{q[1] & 0x7F:02x}" if q[0] in (0x19, 0x2C, 0x31) and len(q) > 1 else ""
                ctx.violation(f"client/{form}/{type(e).__name__}/sid-{q[0]:02x}{sub}/reply-{reply[0]:02x}", "gallia's client refuses the virtual ECU's answer to exactly this request", {**w, "error": repr(e)[:300]})


async def direct(ctx: Any, mon: Mon, params: dict[str, Any]) -> None:
    rng = ctx.rng
    for i in range(params["servers"]):
        if ctx.out_of_time():
            break
        rp = rng.randrange(len(vecu.PARAM_SETS))
        sseed = f"{params['base']}-{i}"
        cfg: dict[str, Any] = {"server_seed": sseed, "rp": rp}
        d = vecu.Driver(sseed, vecu.PARAM_SETS[rp], vecu.all_switches())
        await d.setup()
        m = d.model
        assert m is not None
        hist: list[bytes] = []
        last_seed: tuple[int, bytes] | None = None
        for _ in range(params["length"]):
            if rng.random() < 0.01:
                # the tester falls silent: more than 10 s of inactivity reset the ECU state (the server's clock is virtual here)
                gap = rng.choice([3.0, 30.0, 30.0, 600.0])
                vecu.CLOCK.advance(gap)
                if gap > 10:
                    m.reset()
                    last_seed = None
                    ctx.reach("inactivity-pause")
                    hist.append(b"\x00PAUSE")
            q = vecu.gen_request(rng, m, last_seed)
            if last_seed is None and hist and hist[-1] == b"\x00PAUSE" and rng.random() < 0.5:
                q = bytes([0x27, rng.choice([2, 4, 0x12])]) + rng.randbytes(2)  # a key right after the pause
            hist.append(q)
            if len(q) > 255:
                ctx.reach("long-requests")
            cfg["session"] = d.server.state.session
            mon.cur = {**cfg, "history": hist[-20:], "request": q}
            try:
                raw = d.is_raw(q)
                reply, _ = await d.transport.handle_request(q)
            except Exception as e:
                ctx.violation(f"raises/{type(e).__name__}/sid-{q[0]:02x}", "virtual ECU raises while answering a request (the connection loop would drop the client)", {**mon.cur, "error": repr(e)})
                break
            m.check(q, raw, reply)  # keeps the shadow model in step (verdicts belong to C13)
            m.S = d.server.state.session
            last_seed = (m.last_sa[0], m.last_sa[1]) if m.last_sa is not None and m.last_sa[1] is not vecu.UNKNOWN else None
            if d.server.state.session != 1:
                ctx.reach("non-default-session")
            mon.judge_reply(cfg, hist, q, reply)
        if i == 0:
            ctx.sample({"server_seed": sseed, "rp": rp, "first_requests": hist[:6]})


async def conn_loop(ctx: Any, mon: Mon, params: dict[str, Any]) -> None:
    """the real connection loop on in-memory streams, against a twin server driven directly"""
    from gallia.services.uds.server import TCPUDSServerTransport
    from gallia.transports import TargetURI

    rng = ctx.rng
    for i in range(params["servers"]):
        if ctx.out_of_time():
            break
        rp = rng.randrange(len(vecu.PARAM_SETS))
        sseed = f"{params['base']}-{i}"
        cfg = {"server_seed": sseed, "rp": rp}
        twin = vecu.Driver(sseed, vecu.PARAM_SETS[rp], vecu.all_switches())
        await twin.setup()
        m = twin.model
        assert m is not None
        reqs: list[bytes] = []
        expected: list[bytes | None] = []
        last_seed = None
        for _ in range(params["length"]):
            q = vecu.gen_request(rng, m, None)  # no seed/key pairs: seeds are fresh per server instance
            try:
                reply, _ = await twin.transport.handle_request(q)
            except Exception:
                break  # reported by the direct mode
            m.check(q, twin.is_raw(q), reply)
            m.S = twin.server.state.session
            reqs.append(q)
            expected.append(reply)
        server = vecu.make_server(sseed, vecu.PARAM_SETS[rp], None)
        await server.setup()
        tr = TCPUDSServerTransport(server, TargetURI("tcp-lines://127.0.0.1:1"))
        reader = memstream.new_reader(limit=2**20)
        writer = memstream.MemWriter()
        # segment the byte stream arbitrarily
        stream = b"".join(hexlify(q) + b"\n" for q in reqs)
        task = asyncio.ensure_future(tr.handle_client(reader, writer))  # type: ignore[arg-type]
        pos = 0
        while pos < len(stream):
            n = rng.choice([1, 2, 7, 64, 1000, 9000])
            reader.feed_data(stream[pos : pos + n])
            pos += n
            await asyncio.sleep(0)
        for _ in range(50):
            await asyncio.sleep(0)
        ended_early = task.done()
        reader.feed_eof()
        try:
            await asyncio.wait_for(task, 30)
        except Exception as e:
            ctx.violation(f"loop/raises/{type(e).__name__}", "connection loop raises", {**cfg, "error": repr(e)})
            continue
        ctx.reach("loop.connections")
        got = bytes(writer.buffer).split(b"\n")[:-1]
        want = [hexlify(r) for r in expected if r is not None]
        ctx.reach("loop.replies", len(got))
        ctx.case(("loop", sseed, len(reqs)))
        if ended_early:
            ctx.violation("loop/ended-before-eof", "connection loop ended before the client closed (connection dropped)", {**cfg, "requests": len(reqs), "replies": len(got)})
            continue
        if len(got) != len(want):
            ctx.violation("loop/reply-count", "connection loop did not answer every request that is due a reply", {**cfg, "requests": len(reqs), "replies": len(got), "expected": len(want)})
            continue
        for g, wv in zip(got, want):
            if g != wv and not (g[:2] == b"67" and wv[:2] == b"67" and g[2:4] == wv[2:4]):
                ctx.violation("loop/reply-differs", "connection loop sends another reply than the server computes for that request", {**cfg, "got": g[:80], "want": wv[:80]})
                break


def run(ctx: Any, params: dict[str, Any]) -> None:
    import gallia.command  # noqa: F401

    mon = Mon(ctx)
    if params.get("loop"):
        asyncio.run(conn_loop(ctx, mon, params))
    else:
        asyncio.run(direct(ctx, mon, params))


def replay(ctx: Any, witness: dict[str, Any]) -> None:
    import gallia.command  # noqa: F401

    def ux(x: Any) -> bytes:
        return bytes.fromhex(x[4:]) if isinstance(x, str) and x.startswith("hex:") else x

    async def go() -> None:
        mon = Mon(ctx)
        d = vecu.Driver(witness["server_seed"], vecu.PARAM_SETS[witness["rp"]], vecu.all_switches())
        await d.setup()
        hist: list[bytes] = []
        for h in witness.get("history", []):
            q = ux(h)
            if q == b"\x00PAUSE":
                vecu.CLOCK.advance(30.0)
                continue
            hist.append(q)
            try:
                reply, _ = await d.transport.handle_request(q)
            except Exception as e:
                ctx.violation(f"raises/{type(e).__name__}/sid-{q[0]:02x}", "virtual ECU raises", {"request": q, "error": repr(e)})
                return
            mon.judge_reply({"server_seed": witness["server_seed"], "rp": witness["rp"]}, hist, q, reply)

    asyncio.run(go())
