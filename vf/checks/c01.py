"""C01 UDS requests serialise to the ISO 14229-1 layout and parse back losslessly (DESIGN.md section 3)."""

from __future__ import annotations

import asyncio
import inspect
from abc import ABC
from typing import Any

from vf import gen_uds
from vf import iso14229 as iso
from vf.gen_uds import Case

PROPERTY = "C01"
LEVEL = "exploration"
ENGINE = "iso14229-reference"
TECHNIQUE = (
    "runtime oracle: independent ISO 14229-1 reference encoder vs. the real request classes (construct, .pdu, from_pdu, "
    "parse_dynamic, UDSClient method bytes) on generated boundary/random parameters; icontract postcondition on the real "
    "uds_memory_parameters"
)
LEVEL_TEXT = (
    "Exploration: every concrete public request class found at run time in gallia.services.uds.core.service is constructed "
    "with boundary and random in-range parameters (both suppress settings, ALFID widths 1..15 x 1..15, 0..n groups, records "
    "of 0..4093 bytes) and one-parameter-out-of-range variants; bytes are compared with an independent reference encoder, "
    "then parsed back statically and dynamically. Held = held on those cases, not for all parameters."
)
LEVEL_NOTE = "Trusted: the layout table in vf/iso14229.py (appendix A of DESIGN.md) and the constructor-argument mapping in vf/gen_uds.py."
RULE = (
    "cases = (request class, constructor arguments) from per-class generators: boundary values {0,1,mid,max-1,max} of each "
    "integer field, both suppress-bit settings, all 225 ALFID width pairs, 0..n repeated groups, records of length "
    "0/1/2/255/4093, seeded random fill; plus single-parameter-out-of-range cases; non-trivial = every case except RawRequest; "
    "distinct = distinct (class, arguments)"
)
ASSUMPTIONS = [
    "reference layouts transcribed from ISO 14229-1 (DESIGN.md appendix A)",
    "classes that list ABC among their direct bases or whose name starts with '_' are not user-constructible kinds",
    "field comparison after parse_dynamic only when the dynamic class equals the constructing class (IOCBI wrappers re-parse as the generic IOCBI request)",
    "an empty securityKey / empty dataRecord of WriteMemoryByAddress is not treated as out of documented range",
]
EXHAUSTIVE = {"quick": False, "thorough": False}
EXHAUSTIVE_NOTE = "exhaustive sub-spaces: all 128x2 sub-function bytes of the 2-byte requests, all 225 ALFID width pairs per memory request kind"

CLIENT_METHODS = {
    "diagnostic_session_control": "DiagnosticSessionControlRequest",
    "ecu_reset": "ECUResetRequest",
    "security_access_request_seed": "RequestSeedRequest",
    "security_access_send_key": "SendKeyRequest",
    "communication_control": "CommunicationControlRequest",
    "tester_present": "TesterPresentRequest",
    "control_dtc_setting": "ControlDTCSettingRequest",
    "read_data_by_identifier": "ReadDataByIdentifierRequest",
    "read_memory_by_address": "ReadMemoryByAddressRequest",
    "write_data_by_identifier": "WriteDataByIdentifierRequest",
    "write_memory_by_address": "WriteMemoryByAddressRequest",
    "clear_diagnostic_information": "ClearDiagnosticInformationRequest",
    "read_dtc_information_report_number_of_dtc_by_status_mask": "ReportNumberOfDTCByStatusMaskRequest",
    "read_dtc_information_report_dtc_by_status_mask": "ReportDTCByStatusMaskRequest",
    "read_dtc_information_report_mirror_memory_dtc_by_status_mask": "ReportMirrorMemoryDTCByStatusMaskRequest",
    "read_dtc_information_report_number_of_mirror_memory_dtc_by_status_mask": "ReportNumberOfMirrorMemoryDTCByStatusMaskRequest",
    "read_dtc_information_report_number_of_emissions_related_obd_dtc_by_status_mask": "ReportNumberOfEmissionsRelatedOBDDTCByStatusMaskRequest",
    "read_dtc_information_report_emissions_related_obd_dtc_by_status_mask": "ReportEmissionsRelatedOBDDTCByStatusMaskRequest",
    "report_dtc_extended_data_record_by_dtc_number": "ReportDTCExtDataRecordByDTCNumberRequest",
    "input_output_control_by_identifier": "InputOutputControlByIdentifierRequest",
    "input_output_control_by_identifier_return_control_to_ecu": "ReturnControlToECURequest",
    "input_output_control_by_identifier_reset_to_default": "ResetToDefaultRequest",
    "input_output_control_by_identifier_freeze_current_state": "FreezeCurrentStateRequest",
    "input_output_control_by_identifier_short_term_adjustment": "ShortTermAdjustmentRequest",
    "routine_control_start_routine": "StartRoutineRequest",
    "routine_control_stop_routine": "StopRoutineRequest",
    "routine_control_request_routine_results": "RequestRoutineResultsRequest",
    "request_download": "RequestDownloadRequest",
    "request_upload": "RequestUploadRequest",
    "transfer_data": "TransferDataRequest",
    "request_transfer_exit": "RequestTransferExitRequest",
    "define_by_identifier": "DefineByIdentifierRequest",
    "define_by_memory_address": "DefineByMemoryAddressRequest",
    "clear_dynamically_defined_data_identifier": "ClearDynamicallyDefinedDataIdentifierRequest",
    "send_raw": "RawRequest",
}


def shards(tier: str, seed: int) -> list[dict[str, Any]]:
    if tier == "quick":
        return [{"per_kind": 250, "part": i, "parts": 8} for i in range(8)]
    return [{"per_kind": 12000, "part": i, "parts": 16} for i in range(16)]


def required_reach(tier: str) -> dict[str, int]:
    return {
        "kinds.enumerated": 40,
        "kinds.with_valid_case": 40,
        "kinds.with_invalid_case": 30,
        "contract.uds_memory_parameters": 100,
        "suppress.defaulted": 1000,
        "client.methods_exercised": 30,
        "suppress.set": 100,
        "suppress.clear": 100,
        "alfid.pairs": 225,
    }


def enumerate_kinds() -> dict[str, type]:
    from gallia.services.uds.core import service

    out: dict[str, type] = {}
    for name, obj in vars(service).items():
        if not inspect.isclass(obj) or not issubclass(obj, service.UDSRequest) or obj is service.UDSRequest:
            continue
        if name.startswith("_") or ABC in obj.__bases__ or inspect.isabstract(obj):
            continue
        out[name] = obj
    return out


def first_diff(a: bytes, b: bytes) -> str:
    if len(a) != len(b):
        return "len"
    for i, (x, y) in enumerate(zip(a, b)):
        if x != y:
            return f"@{i}" if i < 6 else "@tail"
    return "same"


class Monitor:
    def __init__(self, ctx: Any):
        self.ctx = ctx
        self.contract_evals = 0
        self.install_contract()

    def install_contract(self) -> None:
        """icontract postcondition on the real uds_memory_parameters, rebound in every namespace holding it."""
        import icontract
        from gallia.services.uds.core import service, utils

        ctx = self.ctx
        mon = self

        def post(memory_address: int, memory_size: int, address_and_length_fmt: int | None, result: tuple[int, bytes, bytes]) -> bool:
            mon.contract_evals += 1
            fmt, ab, sb = result
            ok = (
                len(ab) == (fmt & 0x0F)
                and len(sb) == (fmt >> 4)
                and int.from_bytes(ab, "big") == memory_address
                and int.from_bytes(sb, "big") == memory_size
                and (address_and_length_fmt is None or fmt == address_and_length_fmt)
                and 1 <= len(ab) <= 15
                and 1 <= len(sb) <= 15
            )
            if ok and address_and_length_fmt is None:
                ok = len(ab) == iso.minw(memory_address) and len(sb) == iso.minw(memory_size)
            if not ok:
                ctx.violation("uds_memory_parameters/postcondition", "uds_memory_parameters returns widths/bytes that disagree with its arguments",
                              {"memory_address": memory_address, "memory_size": memory_size, "fmt": address_and_length_fmt, "result": [fmt, ab, sb]})
            return True

        wrapped = icontract.ensure(post)(utils.uds_memory_parameters)
        for mod in (utils, service):
            if getattr(mod, "uds_memory_parameters", None) is not None:
                setattr(mod, "uds_memory_parameters", wrapped)

    # -- one valid case -----------------------------------------------------------------------
    def check_valid(self, kinds: dict[str, type], c: Case) -> None:
        from gallia.services.uds.core import service

        ctx = self.ctx
        cls = kinds[c.cls]
        w = {"case": c.to_json()}
        ctx.case(c.ident(), nontrivial=c.cls != "RawRequest")
        ctx.reach(f"valid:{c.cls}")
        if "suppress_response" in c.fields:
            ctx.reach("suppress.set" if c.fields["suppress_response"] else "suppress.clear")
        args, kwargs = defaulted_suppress(cls.__init__, c)
        if len(args) != len(c.args) or len(kwargs) != len(c.kwargs):
            ctx.reach("suppress.defaulted")
        try:
            obj = cls(*args, **kwargs)
        except Exception as e:
            ctx.violation(f"{c.cls}/construct-raises/{type(e).__name__}", f"constructing {c.cls} with in-range parameters raises", {**w, "error": repr(e)})
            return
        try:
            pdu = obj.pdu
        except Exception as e:
            ctx.violation(f"{c.cls}/pdu-raises/{type(e).__name__}", f"{c.cls}.pdu raises for in-range parameters", {**w, "error": repr(e)})
            return
        assert c.expect is not None
        if pdu != c.expect:
            ctx.violation(f"{c.cls}/pdu-differs/{first_diff(pdu, c.expect)}", f"{c.cls}.pdu differs from the ISO layout", {**w, "got": pdu, "want": c.expect})
            return
        for attr, val in c.fields.items():
            got = getattr(obj, attr, "<missing>")
            if (list(got) if isinstance(got, (list, tuple)) and isinstance(val, list) else got) != val:
                ctx.violation(f"{c.cls}/attr-after-construct/{attr}", "constructed object exposes another field value", {**w, "attr": attr, "got": got})
        # static parse
        try:
            back = cls.from_pdu(c.expect)
        except Exception as e:
            ctx.violation(f"{c.cls}/from_pdu-raises/{type(e).__name__}", f"{c.cls}.from_pdu rejects its own well-formed bytes", {**w, "error": repr(e)})
            back = None
        if back is not None:
            self.compare(c, back, cls, "from_pdu", w, True)
        # dynamic parse
        try:
            dyn = service.UDSRequest.parse_dynamic(c.expect)
        except Exception as e:
            ctx.violation(f"{c.cls}/dynamic-raises/{type(e).__name__}", "parse_dynamic raises", {**w, "error": repr(e)})
            return
        if c.cls == "RawRequest":
            if dyn.pdu != c.expect:
                ctx.violation("RawRequest/dynamic-bytes", "dynamic parse of raw bytes changes them", {**w, "got": dyn.pdu})
            return
        if isinstance(dyn, service.RawRequest):
            ctx.violation(f"{c.cls}/dynamic-degraded-to-raw", f"well-formed {c.cls} bytes are degraded to RawRequest by parse_dynamic", w)
            return
        if dyn.service_id != c.expect[0] or dyn.pdu != c.expect:
            ctx.violation(f"{c.cls}/dynamic-bytes", "dynamically parsed request re-serialises differently", {**w, "got": dyn.pdu})
            return
        want_dyn = gen_uds.DYNAMIC_GENERIC.get(c.cls, c.cls)
        if type(dyn).__name__ != want_dyn:
            ctx.violation(f"{c.cls}/dynamic-class/{type(dyn).__name__}", "parse_dynamic yields a request of another kind", {**w, "got": type(dyn).__name__})
            return
        if type(dyn) is cls:
            self.compare(c, dyn, cls, "dynamic", w, False)

    def compare(self, c: Case, back: Any, cls: type, how: str, w: dict[str, Any], check_class: bool) -> None:
        ctx = self.ctx
        if check_class and type(back) is not cls:
            ctx.violation(f"{c.cls}/{how}-class", "parse yields another class", {**w, "got": type(back).__name__})
            return
        try:
            p = back.pdu
        except Exception as e:
            ctx.violation(f"{c.cls}/{how}-pdu-raises", "re-serialising the parsed request raises", {**w, "error": repr(e)})
            return
        if p != c.expect:
            ctx.violation(f"{c.cls}/{how}-bytes/{first_diff(p, c.expect or b'')}", "parsed request re-serialises to other bytes", {**w, "got": p})
            return
        for attr, val in c.fields.items():
            got = getattr(back, attr, "<missing>")
            if (list(got) if isinstance(got, (list, tuple)) and isinstance(val, list) else got) != val:
                ctx.violation(f"{c.cls}/{how}-field/{attr}", f"parsed request exposes another value for {attr}", {**w, "attr": attr, "got": got, "want": val})

    # -- one invalid case ---------------------------------------------------------------------
    def check_invalid(self, kinds: dict[str, type], c: Case) -> None:
        ctx = self.ctx
        cls = kinds[c.cls]
        ctx.case(c.ident())
        ctx.reach(f"invalid:{c.cls}")
        try:
            obj = cls(*c.args, **c.kwargs)
            pdu = obj.pdu
        except Exception:
            ctx.reach("invalid.refused")
            return
        ctx.violation(f"{c.cls}/accepts-out-of-range/{c.bad}", f"{c.cls} encodes a parameter outside its documented range ({c.bad})", {"case": c.to_json(), "got": pdu})


class CaptureTransport:
    """Stands in for a BaseTransport: records the bytes handed over, answers generalReject."""

    def __init__(self) -> None:
        self.sent: list[bytes] = []

    async def request_unsafe(self, data: bytes, timeout: float | None = None, tags: Any = None) -> bytes:
        self.sent.append(data)
        return bytes([0x7F, data[0], 0x10])


def defaulted_suppress(fn: Any, c: Case) -> tuple[tuple[Any, ...], dict[str, Any]]:
    """'No suppression' is what a user gets who does not mention the bit at all: for about half of the cases with
    suppress_response=False the argument is left out, so that the code's own default is what is observed."""
    import zlib

    args, kwargs = tuple(c.args), dict(c.kwargs)
    if c.fields.get("suppress_response") is not False or not (zlib.crc32(repr(c.ident()).encode()) & 1):
        return args, kwargs
    if kwargs.get("suppress_response") is False:
        del kwargs["suppress_response"]
        return args, kwargs
    try:
        names = [p for p in inspect.signature(fn).parameters if p != "self"]
    except (TypeError, ValueError):
        return args, kwargs
    if args and args[-1] is False and len(args) <= len(names) and names[len(args) - 1] == "suppress_response":
        return args[:-1], kwargs
    return args, kwargs


async def client_bytes(method: str, c: Case) -> bytes | Exception:
    from gallia.services.uds.core.client import UDSClient

    t = CaptureTransport()
    cl = UDSClient(t, timeout=1.0)  # type: ignore[arg-type]
    args, kwargs = defaulted_suppress(getattr(UDSClient, method), c)
    try:
        await getattr(cl, method)(*args, **kwargs)
    except Exception as e:
        if not t.sent:
            return e
    return t.sent[0] if t.sent else RuntimeError("nothing sent")


def run(ctx: Any, params: dict[str, Any]) -> None:
    import gallia.command  # noqa: F401  (import order trap)
    from gallia.services.uds.core.client import UDSClient

    rng = ctx.rng
    kinds = enumerate_kinds()
    mon = Monitor(ctx)
    names = sorted(kinds)
    if params["part"] == 0:
        ctx.reach("kinds.enumerated", len(names))
        for n in names:
            if n not in gen_uds.GEN:
                ctx.violation(f"harness/unmapped-kind/{n}", "request class without a layout in vf/gen_uds.py (monitor cannot decide it)", {"cls": n})
        ctx.sample({"kinds": names})
    mine = [n for i, n in enumerate(names) if n in gen_uds.GEN]
    per = params["per_kind"]
    loop = asyncio.new_event_loop()
    methods_seen: set[str] = set()
    public_methods = {m for m, f in vars(UDSClient).items() if inspect.iscoroutinefunction(f) and not m.startswith("_")}
    try:
        for n in mine:
            seen_valid = seen_invalid = False
            for _ in range(per):
                for c in gen_uds.GEN[n](rng):
                    mon.check_valid(kinds, c)
                    seen_valid = True
                    if rng.random() < 0.02:
                        ctx.sample({"cls": c.cls, "args": list(c.args), "expect": c.expect})
            if n in gen_uds.BADGEN:
                for _ in range(max(1, per // 10)):
                    for c in gen_uds.BADGEN[n](rng):
                        mon.check_invalid(kinds, c)
                        seen_invalid = True
            if params["part"] == 0:
                if seen_valid:
                    ctx.reach("kinds.with_valid_case")
                if seen_invalid:
                    ctx.reach("kinds.with_invalid_case")
            # client methods documenting this kind
            for m, cn in CLIENT_METHODS.items():
                if cn != n or m not in public_methods:
                    continue
                for _ in range(max(3, per // 4)):
                    c = next(gen_uds.GEN[n](rng))
                    args = c.args
                    if m in ("define_by_identifier", "define_by_memory_address", "clear_dynamically_defined_data_identifier", "read_data_by_identifier"):
                        pass
                    ctx.case(("client", m, c.ident()))
                    got = loop.run_until_complete(client_bytes(m, c))
                    if isinstance(got, Exception):
                        ctx.violation(f"client/{m}/raises/{type(got).__name__}", f"UDSClient.{m} raises for in-range parameters", {"method": m, "case": c.to_json(), "error": repr(got)})
                    elif got != c.expect:
                        ctx.violation(f"client/{m}/bytes-differ/{first_diff(got, c.expect or b'')}", f"UDSClient.{m} puts other bytes on the wire than the service it documents", {"method": m, "case": c.to_json(), "got": got})
                    methods_seen.add(m)
            if ctx.out_of_time():
                break
        # exhaustive small domains
        if params["part"] == 0:
            for sf in range(128):
                for spr in (False, True):
                    mon.check_valid(kinds, Case("DiagnosticSessionControlRequest", (sf, spr), {}, iso.req_session(sf, spr), {"diagnostic_session_type": sf, "suppress_response": spr}))
                    mon.check_valid(kinds, Case("ECUResetRequest", (sf, spr), {}, iso.req_reset(sf, spr), {"reset_type": sf, "suppress_response": spr}))
                    mon.check_valid(kinds, Case("ControlDTCSettingRequest", (sf, b"", spr), {}, iso.req_control_dtc(sf, b"", spr), {"dtc_setting_type": sf, "suppress_response": spr}))
            for aw in range(1, 16):
                for sw in range(1, 16):
                    f = iso.alfid_byte(aw, sw)
                    a, s = 256**aw - 1, 256 ** (sw - 1)
                    ctx.reach("alfid.pairs")
                    mon.check_valid(kinds, Case("ReadMemoryByAddressRequest", (a, s, None), {}, iso.req_rmba(a, s, f), {"memory_address": a, "memory_size": s, "address_and_length_format_identifier": f}))
                    mon.check_valid(kinds, Case("ReadMemoryByAddressRequest", (1, 1, f), {}, iso.req_rmba(1, 1, f), {"memory_address": 1, "memory_size": 1, "address_and_length_format_identifier": f}))
                    mon.check_valid(kinds, Case("WriteMemoryByAddressRequest", (a, b"\xaa", s, f), {}, iso.req_wmba(a, b"\xaa", s, f), {"memory_address": a, "memory_size": s}))
                    mon.check_valid(kinds, Case("RequestDownloadRequest", (a, s, 1, 2, None), {}, iso.req_updown(0x34, a, s, 1, 2, f), {"memory_address": a, "memory_size": s}))
                    mon.check_valid(kinds, Case("RequestUploadRequest", (a, s, 0, 0, f), {}, iso.req_updown(0x35, a, s, 0, 0, f), {"memory_address": a, "memory_size": s}))
                    mon.check_valid(kinds, Case("DefineByMemoryAddressRequest", (0xF200, [a, 0], [s, 1], None, False), {}, iso.req_dddi_by_mem(0xF200, [(a, s), (0, 1)], f), {"memory_addresses": [a, 0], "memory_sizes": [s, 1]}))
            ctx.reach("client.methods_exercised", 0)
            unmapped = sorted(public_methods - set(CLIENT_METHODS) - {"connect", "reconnect", "reconnect_unsafe", "request", "request_unsafe"})
            if unmapped:
                ctx.violation("harness/unmapped-client-methods", "UDSClient service methods without a mapping in the monitor", {"methods": unmapped})
    finally:
        loop.close()
    ctx.reach("client.methods_exercised", len(methods_seen) if params["part"] == 0 else 0)
    ctx.reach("contract.uds_memory_parameters", mon.contract_evals)


def replay(ctx: Any, witness: dict[str, Any]) -> None:
    import gallia.command  # noqa: F401

    def unhex(o: Any) -> Any:
        if isinstance(o, str) and o.startswith("hex:"):
            return bytes.fromhex(o[4:])
        if isinstance(o, list):
            return [unhex(x) for x in o]
        return o

    kinds = enumerate_kinds()
    mon = Monitor(ctx)
    cj = witness["case"]
    c = Case(cj["cls"], tuple(unhex(cj["args"])), cj.get("kwargs", {}), unhex(cj.get("expect")), {}, cj.get("bad", ""))
    if c.expect is None:
        mon.check_invalid(kinds, c)
    else:
        mon.check_valid(kinds, c)
        if "method" in witness:
            loop = asyncio.new_event_loop()
            got = loop.run_until_complete(client_bytes(witness["method"], c))
            loop.close()
            if got != c.expect:
                ctx.violation(f"client/{witness['method']}/bytes-differ", "client bytes differ", {"got": got if isinstance(got, bytes) else repr(got)})
