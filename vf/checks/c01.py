"""C01 UDS requests serialise to the ISO 14229-1 layout and parse back losslessly (DESIGN.md section 3)."""

from __future__ import annotations

import array
import asyncio
import collections.abc
import enum
import inspect
import random
import typing
from abc import ABC
from collections import UserList, deque
from typing import Any

from vf import gen_uds
from vf import iso14229 as iso
from vf.gen_uds import Case

PROPERTY = "C01"
LEVEL = "exploration"
ENGINE = "iso14229-reference"
TECHNIQUE = (
    "runtime oracle: independent ISO 14229-1 reference encoder vs. the real request classes (construct, .pdu, from_pdu, "
    "parse_dynamic, UDSClient method bytes) on generated boundary/random parameters; icontract postcondition on the real "
    "uds_memory_parameters; second use: pairs of cases of one kind - two live objects, every public field of a constructed / "
    "parsed object re-assigned to the other case's values (and back), UDSClient.request bytes of the re-used object, a second "
    "parse of the same bytes after the first result was edited; argument spelling: every parameter a constructor / UDSClient "
    "method documents as int | Sequence[int] (found from the signatures at run time) handed over in every other spelling of the "
    "same values (tuple, range, deque, UserList, array, user-defined Sequence, list/tuple/int subclasses, IntEnum member)"
)
LEVEL_TEXT = (
    "Exploration: every concrete public request class found at run time in gallia.services.uds.core.service is constructed "
    "with boundary and random in-range parameters (both suppress settings, ALFID widths 1..15 x 1..15, 0..n groups, records "
    "of 0..4093 bytes) and one-parameter-out-of-range variants; bytes are compared with an independent reference encoder, "
    "then parsed back statically and dynamically. Every third case is paired with the previous case of its kind: both objects "
    "alive at once, all public fields of the first object (constructed, from_pdu, parse_dynamic) re-assigned to the second "
    "case's values and back, the bytes of the first case parsed again after the first parse result was edited; memory requests "
    "additionally with single-field re-assignments that keep the widths of the object's ALFID, for all 225 ALFIDs. "
    "Every valid case (and three spellings of every refused case) of a kind with int | Sequence[int] parameters is repeated with "
    "those arguments in ten other spellings of the same values, one or several parameters at a time, plus blocks of consecutive "
    "identifiers / memory regions (1..300 groups) whose natural spelling is a range; the client methods of these kinds likewise. "
    "Held = held on those cases, not for all parameters."
)
LEVEL_NOTE = "Trusted: the layout table in vf/iso14229.py (appendix A of DESIGN.md) and the constructor-argument mapping in vf/gen_uds.py."
RULE = (
    "cases = (request class, constructor arguments) from per-class generators: boundary values {0,1,mid,max-1,max} of each "
    "integer field, both suppress-bit settings, all 225 ALFID width pairs, 0..n repeated groups, records of length "
    "0/1/2/255/4093, seeded random fill; plus single-parameter-out-of-range cases; non-trivial = every case except RawRequest; "
    "distinct = distinct (class, arguments); re-use cases = (case, next case of the same kind): field values of a request are "
    "its public attributes at the time of .pdu, a parse result depends on the bytes only; spelling cases = (case, parameter -> "
    "container / int type): a request is determined by the values of its arguments, not by the Sequence / int type carrying them"
)
ASSUMPTIONS = [
    "reference layouts transcribed from ISO 14229-1 (DESIGN.md appendix A)",
    "classes that list ABC among their direct bases or whose name starts with '_' are not user-constructible kinds",
    "field comparison after parse_dynamic only when the dynamic class equals the constructing class (IOCBI wrappers re-parse as the generic IOCBI request)",
    "an empty securityKey / empty dataRecord of WriteMemoryByAddress is not treated as out of documented range",
    "re-assignment: only complete re-assignments to another in-range case of the same class (incl. its ALFID field) and single-field "
    "re-assignments within the widths of the object's ALFID field are judged; a single new value that no longer fits the ALFID "
    "chosen at construction, and out-of-range values assigned after construction, have no outcome prescribed by the statement",
    "a parameter annotated int | Sequence[int] accepts every collections.abc.Sequence (nominal: subclass or registered) of in-range ints and every "
    "instance of int; str / bytes are not Sequences of int and are not tried; after construction a list-valued field may be held in any Sequence "
    "with the same elements",
]
EXHAUSTIVE = {"quick": False, "thorough": False}
EXHAUSTIVE_NOTE = "exhaustive sub-spaces: all 128x2 sub-function bytes of the 2-byte requests, all 225 ALFID width pairs per memory request kind"

CLIENT_METHODS = {
    "diagnostic_session_control": "DiagnosticSessionControlRequest",
    "ecu_reset": "ECUResetRequest",
    "security_access_request_seed": "RequestSeedRequest",
    "security_access_send_key": "SendKeyRequest",
    "communication_control": "CommunicationControlRequest",
    "tester_present": "TesterPresentRequest",
    "control_dtc_setting": "ControlDTCSettingRequest",
    "read_data_by_identifier": "ReadDataByIdentifierRequest",
    "read_memory_by_address": "ReadMemoryByAddressRequest",
    "write_data_by_identifier": "WriteDataByIdentifierRequest",
    "write_memory_by_address": "WriteMemoryByAddressRequest",
    "clear_diagnostic_information": "ClearDiagnosticInformationRequest",
    "read_dtc_information_report_number_of_dtc_by_status_mask": "ReportNumberOfDTCByStatusMaskRequest",
    "read_dtc_information_report_dtc_by_status_mask": "ReportDTCByStatusMaskRequest",
    "read_dtc_information_report_mirror_memory_dtc_by_status_mask": "ReportMirrorMemoryDTCByStatusMaskRequest",
    "read_dtc_information_report_number_of_mirror_memory_dtc_by_status_mask": "ReportNumberOfMirrorMemoryDTCByStatusMaskRequest",
    "read_dtc_information_report_number_of_emissions_related_obd_dtc_by_status_mask": "ReportNumberOfEmissionsRelatedOBDDTCByStatusMaskRequest",
    "read_dtc_information_report_emissions_related_obd_dtc_by_status_mask": "ReportEmissionsRelatedOBDDTCByStatusMaskRequest",
    "report_dtc_extended_data_record_by_dtc_number": "ReportDTCExtDataRecordByDTCNumberRequest",
    "input_output_control_by_identifier": "InputOutputControlByIdentifierRequest",
    "input_output_control_by_identifier_return_control_to_ecu": "ReturnControlToECURequest",
    "input_output_control_by_identifier_reset_to_default": "ResetToDefaultRequest",
    "input_output_control_by_identifier_freeze_current_state": "FreezeCurrentStateRequest",
    "input_output_control_by_identifier_short_term_adjustment": "ShortTermAdjustmentRequest",
    "routine_control_start_routine": "StartRoutineRequest",
    "routine_control_stop_routine": "StopRoutineRequest",
    "routine_control_request_routine_results": "RequestRoutineResultsRequest",
    "request_download": "RequestDownloadRequest",
    "request_upload": "RequestUploadRequest",
    "transfer_data": "TransferDataRequest",
    "request_transfer_exit": "RequestTransferExitRequest",
    "define_by_identifier": "DefineByIdentifierRequest",
    "define_by_memory_address": "DefineByMemoryAddressRequest",
    "clear_dynamically_defined_data_identifier": "ClearDynamicallyDefinedDataIdentifierRequest",
    "send_raw": "RawRequest",
}


def shards(tier: str, seed: int) -> list[dict[str, Any]]:
    if tier == "quick":
        return [{"per_kind": 250, "part": i, "parts": 8} for i in range(8)]
    return [{"per_kind": 12000, "part": i, "parts": 16} for i in range(16)]


def required_reach(tier: str) -> dict[str, int]:
    return {
        "kinds.enumerated": 40,
        "kinds.with_valid_case": 40,
        "kinds.with_invalid_case": 30,
        "contract.uds_memory_parameters": 100,
        "suppress.defaulted": 1000,
        "client.methods_exercised": 30,
        "suppress.set": 100,
        "suppress.clear": 100,
        "alfid.pairs": 225,
        # second use of an object / second parse of the same bytes
        "reuse.kinds": 40,
        "reuse.pairs": 2000,
        "reuse.changed_bytes": 1000,
        "reuse.origin.constructed": 2000,
        "reuse.origin.from_pdu": 2000,
        "reuse.origin.dynamic": 1000,
        "reuse.singular_setter": 100,
        "reuse.client_sent": 100,
        "reuse.partial": 3000,
        "reparse.after_edit.static": 2000,
        "reparse.after_edit.dynamic": 1000,
        "reparse.after_edit.raw": 20,
        "reparse.after_edit.generic": 20,
        # the same values in another documented spelling of an `int | Sequence[int]` parameter
        "spelling.kinds": 3,
        "spelling.client_methods": 3,
        "spelling.variants": 20000,
        **{f"spelling.as.{how}": 3000 for how in CONTAINERS},
        **{f"spelling.as.{how}": 500 for how in SCALARS},
        "spelling.range_of_several": 800,
        "spelling.scalar_in_container": 3000,
        "spelling.several_parameters": 5000,
        "spelling.block_cases": 300,
        "spelling.client": 300,
        "spelling.invalid": 3000,
    }


def enumerate_kinds() -> dict[str, type]:
    from gallia.services.uds.core import service

    out: dict[str, type] = {}
    for name, obj in vars(service).items():
        if not inspect.isclass(obj) or not issubclass(obj, service.UDSRequest) or obj is service.UDSRequest:
            continue
        if name.startswith("_") or ABC in obj.__bases__ or inspect.isabstract(obj):
            continue
        out[name] = obj
    return out


def first_diff(a: bytes, b: bytes) -> str:
    if len(a) != len(b):
        return "len"
    for i, (x, y) in enumerate(zip(a, b)):
        if x != y:
            return f"@{i}" if i < 6 else "@tail"
    return "same"


# Public attributes of a request that the generator's field table leaves out because a parse cannot recover them
# (controlOptionRecord / controlEnableMaskRecord split of service 0x2F).  ISO: the record of the shortTermAdjustment
# wrapper is inputOutputControlParameter 0x03 followed by the controlStates.
EXTRA_FIELDS = {
    "InputOutputControlByIdentifierRequest": lambda c: {"control_option_record": c.args[1], "control_enable_mask_record": c.args[2]},
    "ShortTermAdjustmentRequest": lambda c: {"control_option_record": b"\x03" + c.args[1], "control_enable_mask_record": c.args[2]},
}
# list-valued public attribute -> documented setter for its first element
SINGULAR = {
    "data_identifiers": "data_identifier",
    "source_data_identifiers": "source_data_identifier",
    "positions_in_source_data_record": "position_in_source_data_record",
    "memory_sizes": "memory_size",
    "memory_addresses": "memory_address",
}


def full_fields(c: Case) -> dict[str, Any]:
    """value of every user-settable public attribute of the request that case `c` describes"""
    f = dict(c.fields)
    if c.cls in EXTRA_FIELDS:
        f.update(EXTRA_FIELDS[c.cls](c))
    return f


def public_vars(o: Any) -> dict[str, Any]:
    return {k: v for k, v in vars(o).items() if not k.startswith("_")}


def assign_fields(o: Any, old: dict[str, Any], new: dict[str, Any], singular: bool) -> int:
    """A user re-assigns every public field of `o` (currently holding `old`) to the values `new`.  With `singular`, the first
    element of a list-valued field goes through the class's own first-element setter.  -> number of singular setters used"""
    used = 0
    for k, v in new.items():
        if isinstance(v, list):
            s = SINGULAR.get(k)
            d = inspect.getattr_static(type(o), s, None) if s else None
            if singular and v and isinstance(old.get(k), list) and old[k] and isinstance(d, property) and d.fset is not None:
                setattr(o, k, [old[k][0]] + list(v[1:]))
                setattr(o, s, v[0])
                used += 1
            else:
                setattr(o, k, list(v))
        else:
            setattr(o, k, v)
    return used


# -- spellings of one argument ----------------------------------------------------------------------
# A parameter documented as `int | Sequence[int]` takes every collections.abc.Sequence of in-range integers (and every int,
# not only exact `int` objects).  The same values in another documented container are the same request.
class IdTable(collections.abc.Sequence):  # type: ignore[type-arg]
    """a user-defined read-only Sequence[int]"""

    def __init__(self, items: Any) -> None:
        self._items = tuple(items)

    def __getitem__(self, i: Any) -> Any:
        return self._items[i]

    def __len__(self) -> int:
        return len(self._items)

    def __repr__(self) -> str:
        return f"IdTable({list(self._items)!r})"


class ListSub(list):  # type: ignore[type-arg]
    pass


class TupleSub(tuple):  # type: ignore[type-arg]
    pass


class IntSub(int):
    pass


_ENUMS: dict[int, Any] = {}


def as_int_enum(v: int) -> Any:
    if v not in _ENUMS:
        if len(_ENUMS) > 4096:
            _ENUMS.clear()
        _ENUMS[v] = enum.IntEnum("Identifier", {"Member": v}).Member  # type: ignore[attr-defined]
    return _ENUMS[v]


def as_range(items: list[int]) -> Any:
    """the range with exactly these elements, if they are an arithmetic progression"""
    if not items:
        return range(0)
    if len(items) == 1:
        return range(items[0], items[0] + 1)
    step = items[1] - items[0]
    if step == 0:
        return None
    r = range(items[0], items[-1] + (1 if step > 0 else -1), step)
    return r if len(r) == len(items) and list(r) == items else None


def as_array(items: list[int]) -> Any:
    if all(0 <= v <= 0xFFFF for v in items):
        return array.array("H", items)
    if all(0 <= v < 2**64 for v in items):
        return array.array("Q", items)
    return None


CONTAINERS: dict[str, Any] = {
    "tuple": tuple,
    "range": as_range,
    "deque": deque,
    "UserList": UserList,
    "user_sequence": IdTable,
    "list_subclass": ListSub,
    "tuple_subclass": TupleSub,
    "array": as_array,
}
SCALARS: dict[str, Any] = {"int_subclass": IntSub, "int_enum": as_int_enum}
SPELLINGS = list(CONTAINERS) + list(SCALARS)


def documents_int_sequence(ann: Any) -> bool:
    if isinstance(ann, str):
        return "Sequence[int]" in ann.replace("collections.abc.", "").replace("typing.", "")
    for a in (ann, *typing.get_args(ann)):
        if typing.get_origin(a) is collections.abc.Sequence and typing.get_args(a) == (int,):
            return True
    return False


_PARAMS: dict[Any, tuple[list[str], list[str]]] = {}


def int_sequence_params(fn: Any) -> tuple[list[str], list[str]]:
    """(names of the parameters of `fn` after self, those among them documented as a Sequence[int])"""
    if fn not in _PARAMS:
        try:
            ps = list(inspect.signature(fn).parameters.values())[1:]
        except (TypeError, ValueError):
            ps = []
        ps = [p for p in ps if p.kind in (p.POSITIONAL_ONLY, p.POSITIONAL_OR_KEYWORD, p.KEYWORD_ONLY)]
        _PARAMS[fn] = ([p.name for p in ps], [p.name for p in ps if documents_int_sequence(p.annotation)])
    return _PARAMS[fn]


def spell(value: Any, how: str) -> Any:
    """`value` (an int or a list of ints, as the generators write it) in the spelling `how`; None if there is no such spelling"""
    if how in SCALARS:
        return SCALARS[how](value) if type(value) is int else None
    if type(value) is int:
        value = [value]
    if type(value) is not list or not all(type(v) is int for v in value):
        return None
    return CONTAINERS[how](value)


def apply_spelling(names: list[str], args: tuple[Any, ...], kwargs: dict[str, Any], plan: dict[str, str]) -> tuple[tuple[Any, ...], dict[str, Any], dict[str, str]]:
    """-> (args, kwargs, the part of the plan that could be applied) with the planned arguments re-spelled"""
    a2, k2, applied = list(args), dict(kwargs), {}
    for name, how in plan.items():
        if name in k2:
            v = spell(k2[name], how)
            if v is not None:
                k2[name], applied[name] = v, how
        elif name in names and names.index(name) < len(a2):
            v = spell(a2[names.index(name)], how)
            if v is not None:
                a2[names.index(name)], applied[name] = v, how
    return tuple(a2), k2, applied


def block_cases(kind: str, rng: random.Random) -> list[Case]:
    """groups that follow each other in the identifier / address space (a block of identifiers, consecutive memory regions):
    the values of which a range is the natural spelling"""
    spr = rng.random() < 0.5
    if kind == "ReadDataByIdentifierRequest":
        n, step = rng.choice([1, 2, 3, 4, 8, 40, 300]), rng.choice([1, 1, 1, 2, 0x10, -1, -3])
        span = abs(step) * (n - 1)
        lo = min(rng.choice([0, 0xF190, 0xFFFF, rng.randint(0, 0xFFFF)]), 0xFFFF - span)
        dids = list(range(lo, lo + span + 1, abs(step)))[:: 1 if step > 0 else -1]
        return [Case(kind, (dids,), {}, iso.req_rdbi(dids), {"data_identifiers": dids})]
    if kind == "DefineByIdentifierRequest":
        n, step = rng.choice([1, 2, 3, 8, 20, 60]), rng.choice([1, 1, 2, 0x100, -1])
        span = abs(step) * (n - 1)
        lo = min(rng.choice([0, 0xF190, 0xFFFF, rng.randint(0, 0xFFFF)]), 0xFFFF - span)
        srcs = list(range(lo, lo + span + 1, abs(step)))[:: 1 if step > 0 else -1]
        p0 = rng.randint(1, 0xFF - n + 1)
        pos = list(range(p0, p0 + n))
        sizes = rng.choice([list(range(n, 0, -1)), list(range(0xFF - n + 1, 0x100)), [rng.randint(1, 0xFF)] * n])
        d = gen_uds.rnd_did(rng)
        exp = iso.req_dddi_by_id(d, list(zip(srcs, pos, sizes)), spr)
        return [Case(kind, (d, srcs, pos, sizes, spr), {}, exp, {"dynamically_defined_data_identifier": d, "source_data_identifiers": srcs,
                                                                  "positions_in_source_data_record": pos, "memory_sizes": sizes, "suppress_response": spr})]
    if kind == "DefineByMemoryAddressRequest":
        n, aw, sw = rng.choice([1, 2, 3, 8, 20]), rng.randint(1, 15), rng.randint(1, 15)
        stride = rng.choice([1, 4, 0x100, 0x1000])
        stride = stride if stride * n < 256**aw else 1
        base = rng.choice([0, 256**aw - stride * n, rng.randrange(256**aw - stride * n + 1)])
        addrs = list(range(base, base + stride * n, stride))
        if rng.random() < 0.3:
            addrs.reverse()
        sizes = rng.choice([[stride] * n, list(range(1, n + 1)), list(range(n, 0, -1))])
        sizes = [z if z < 256**sw else 1 for z in sizes]
        f = None if rng.random() < 0.5 else iso.alfid_byte(aw, sw)
        d = gen_uds.rnd_did(rng)
        exp = iso.req_dddi_by_mem(d, list(zip(addrs, sizes)), f, spr)
        return [Case(kind, (d, addrs, sizes, f, spr), {}, exp, {"dynamically_defined_data_identifier": d, "memory_addresses": addrs, "memory_sizes": sizes,
                                                                "address_and_length_format_identifier": exp[4], "suppress_response": spr})]
    return []


class Monitor:
    def __init__(self, ctx: Any):
        self.ctx = ctx
        self.contract_evals = 0
        self.reuse_kinds: set[str] = set()
        # own stream for the decisions of the re-use family, so that the generated cases stay those of the seed
        self.rng2 = random.Random(f"C01-reuse/{getattr(ctx, 'seed', 0)}/{getattr(ctx, 'shard_index', 0)}")
        # and one for the spellings of container-valued arguments
        self.rng3 = random.Random(f"C01-spelling/{getattr(ctx, 'seed', 0)}/{getattr(ctx, 'shard_index', 0)}")
        self.spelled_kinds: set[str] = set()
        self.spelled_methods: set[str] = set()
        self.client_turn = 0
        self.install_contract()

    def install_contract(self) -> None:
        """icontract postcondition on the real uds_memory_parameters, rebound in every namespace holding it."""
        import icontract
        from gallia.services.uds.core import service, utils

        ctx = self.ctx
        mon = self

        def post(memory_address: int, memory_size: int, address_and_length_fmt: int | None, result: tuple[int, bytes, bytes]) -> bool:
            mon.contract_evals += 1
            fmt, ab, sb = result
            ok = (
                len(ab) == (fmt & 0x0F)
                and len(sb) == (fmt >> 4)
                and int.from_bytes(ab, "big") == memory_address
                and int.from_bytes(sb, "big") == memory_size
                and (address_and_length_fmt is None or fmt == address_and_length_fmt)
                and 1 <= len(ab) <= 15
                and 1 <= len(sb) <= 15
            )
            if ok and address_and_length_fmt is None:
                ok = len(ab) == iso.minw(memory_address) and len(sb) == iso.minw(memory_size)
            if not ok:
                ctx.violation("uds_memory_parameters/postcondition", "uds_memory_parameters returns widths/bytes that disagree with its arguments",
                              {"memory_address": memory_address, "memory_size": memory_size, "fmt": address_and_length_fmt, "result": [fmt, ab, sb]})
            return True

        wrapped = icontract.ensure(post)(utils.uds_memory_parameters)
        for mod in (utils, service):
            if getattr(mod, "uds_memory_parameters", None) is not None:
                setattr(mod, "uds_memory_parameters", wrapped)

    # -- one valid case -----------------------------------------------------------------------
    def check_valid(self, kinds: dict[str, type], c: Case) -> None:
        from gallia.services.uds.core import service

        ctx = self.ctx
        cls = kinds[c.cls]
        w = {"case": c.to_json()}
        ctx.case(c.ident(), nontrivial=c.cls != "RawRequest")
        ctx.reach(f"valid:{c.cls}")
        if "suppress_response" in c.fields:
            ctx.reach("suppress.set" if c.fields["suppress_response"] else "suppress.clear")
        args, kwargs = defaulted_suppress(cls.__init__, c)
        if len(args) != len(c.args) or len(kwargs) != len(c.kwargs):
            ctx.reach("suppress.defaulted")
        try:
            obj = cls(*args, **kwargs)
        except Exception as e:
            ctx.violation(f"{c.cls}/construct-raises/{type(e).__name__}", f"constructing {c.cls} with in-range parameters raises", {**w, "error": repr(e)})
            return
        try:
            pdu = obj.pdu
        except Exception as e:
            ctx.violation(f"{c.cls}/pdu-raises/{type(e).__name__}", f"{c.cls}.pdu raises for in-range parameters", {**w, "error": repr(e)})
            return
        assert c.expect is not None
        if pdu != c.expect:
            ctx.violation(f"{c.cls}/pdu-differs/{first_diff(pdu, c.expect)}", f"{c.cls}.pdu differs from the ISO layout", {**w, "got": pdu, "want": c.expect})
            return
        for attr, val in c.fields.items():
            got = getattr(obj, attr, "<missing>")
            if (list(got) if isinstance(got, (list, tuple)) and isinstance(val, list) else got) != val:
                ctx.violation(f"{c.cls}/attr-after-construct/{attr}", "constructed object exposes another field value", {**w, "attr": attr, "got": got})
        # static parse
        try:
            back = cls.from_pdu(c.expect)
        except Exception as e:
            ctx.violation(f"{c.cls}/from_pdu-raises/{type(e).__name__}", f"{c.cls}.from_pdu rejects its own well-formed bytes", {**w, "error": repr(e)})
            back = None
        if back is not None:
            self.compare(c, back, cls, "from_pdu", w, True)
        # dynamic parse
        try:
            dyn = service.UDSRequest.parse_dynamic(c.expect)
        except Exception as e:
            ctx.violation(f"{c.cls}/dynamic-raises/{type(e).__name__}", "parse_dynamic raises", {**w, "error": repr(e)})
            return
        if c.cls == "RawRequest":
            if dyn.pdu != c.expect:
                ctx.violation("RawRequest/dynamic-bytes", "dynamic parse of raw bytes changes them", {**w, "got": dyn.pdu})
            return
        if isinstance(dyn, service.RawRequest):
            ctx.violation(f"{c.cls}/dynamic-degraded-to-raw", f"well-formed {c.cls} bytes are degraded to RawRequest by parse_dynamic", w)
            return
        if dyn.service_id != c.expect[0] or dyn.pdu != c.expect:
            ctx.violation(f"{c.cls}/dynamic-bytes", "dynamically parsed request re-serialises differently", {**w, "got": dyn.pdu})
            return
        want_dyn = gen_uds.DYNAMIC_GENERIC.get(c.cls, c.cls)
        if type(dyn).__name__ != want_dyn:
            ctx.violation(f"{c.cls}/dynamic-class/{type(dyn).__name__}", "parse_dynamic yields a request of another kind", {**w, "got": type(dyn).__name__})
            return
        if type(dyn) is cls:
            self.compare(c, dyn, cls, "dynamic", w, False)

    def compare(self, c: Case, back: Any, cls: type, how: str, w: dict[str, Any], check_class: bool) -> None:
        ctx = self.ctx
        if check_class and type(back) is not cls:
            ctx.violation(f"{c.cls}/{how}-class", "parse yields another class", {**w, "got": type(back).__name__})
            return
        try:
            p = back.pdu
        except Exception as e:
            ctx.violation(f"{c.cls}/{how}-pdu-raises", "re-serialising the parsed request raises", {**w, "error": repr(e)})
            return
        if p != c.expect:
            ctx.violation(f"{c.cls}/{how}-bytes/{first_diff(p, c.expect or b'')}", "parsed request re-serialises to other bytes", {**w, "got": p})
            return
        for attr, val in c.fields.items():
            got = getattr(back, attr, "<missing>")
            if (list(got) if isinstance(got, (list, tuple)) and isinstance(val, list) else got) != val:
                ctx.violation(f"{c.cls}/{how}-field/{attr}", f"parsed request exposes another value for {attr}", {**w, "attr": attr, "got": got, "want": val})

    # -- one invalid case ---------------------------------------------------------------------
    def check_invalid(self, kinds: dict[str, type], c: Case) -> None:
        ctx = self.ctx
        cls = kinds[c.cls]
        ctx.case(c.ident())
        ctx.reach(f"invalid:{c.cls}")
        try:
            obj = cls(*c.args, **c.kwargs)
            pdu = obj.pdu
        except Exception:
            ctx.reach("invalid.refused")
            return
        ctx.violation(f"{c.cls}/accepts-out-of-range/{c.bad}", f"{c.cls} encodes a parameter outside its documented range ({c.bad})", {"case": c.to_json(), "got": pdu})

    # -- the same request with its arguments spelled differently ------------------------------------
    def spelling_plan(self, mine: list[str], primary_how: str) -> dict[str, str]:
        primary = self.rng3.choice(mine)
        plan = {primary: primary_how}
        if len(mine) > 1 and self.rng3.random() < 0.5:
            for p in mine:
                if p != primary:
                    plan[p] = self.rng3.choice(SPELLINGS)
        return plan

    def note_spelling(self, applied: dict[str, str], args: tuple[Any, ...], kwargs: dict[str, Any], names: list[str], orig: tuple[Any, ...]) -> None:
        ctx = self.ctx
        ctx.reach("spelling.variants")
        if len(applied) > 1:
            ctx.reach("spelling.several_parameters")
        for name, how in applied.items():
            ctx.reach(f"spelling.as.{how}")
            i = names.index(name)
            was = orig[i] if i < len(orig) else None
            if how in CONTAINERS and type(was) is int:
                ctx.reach("spelling.scalar_in_container")
            if how == "range" and isinstance(was, list) and len(was) >= 2:
                ctx.reach("spelling.range_of_several")

    def check_spellings(self, kinds: dict[str, type], c: Case, plans: list[dict[str, str]] | None = None) -> None:
        """The arguments of case `c` that its constructor documents as `int | Sequence[int]` are handed over in every other
        spelling of the same values (tuple, range, deque, UserList, array, a user-defined Sequence, subclasses of list / tuple /
        int, an IntEnum member).  The request is the same one: same bytes, same field values; an out-of-range case stays refused."""
        ctx = self.ctx
        cls = kinds[c.cls]
        names, seqs = int_sequence_params(cls.__init__)
        if not seqs:
            return
        given = {**dict(zip(names, c.args)), **c.kwargs}
        mine = [p for p in seqs if type(given.get(p)) in (int, list)]
        if not mine:
            return
        if c.expect is not None:
            try:
                if cls(*c.args, **c.kwargs).pdu != c.expect:
                    return  # already wrong as the generator spells it: check_valid reports that
            except Exception:
                return
        self.spelled_kinds.add(c.cls)
        if plans is None:
            # a refusal is judged in three of the spellings, a valid case in all of them
            plans = [self.spelling_plan(mine, how) for how in (SPELLINGS if c.expect is not None else self.rng3.sample(SPELLINGS, 3))]
            primary_first = True
        else:
            primary_first = False
        for plan in plans:
            args, kwargs, applied = apply_spelling(names, c.args, c.kwargs, plan)
            if not applied or (primary_first and next(iter(plan)) not in applied):
                continue
            w = {"case": c.to_json(), "spelling": applied, "spelled_args": repr(args)[:400]}
            ctx.case(("spelling", c.ident(), tuple(sorted(applied.items()))))
            self.note_spelling(applied, args, kwargs, names, c.args)
            if c.expect is None:
                ctx.reach("spelling.invalid")
                try:
                    pdu = cls(*args, **kwargs).pdu
                except Exception:
                    ctx.reach("invalid.refused")
                    continue
                ctx.violation(f"{c.cls}/argument-spelling/accepts-out-of-range/{c.bad}", f"{c.cls} encodes a parameter outside its documented range ({c.bad}) when the "
                              "argument comes in another documented container", {**w, "got": pdu})
                continue
            try:
                obj = cls(*args, **kwargs)
            except Exception as e:
                ctx.violation(f"{c.cls}/argument-spelling/construct-raises/{type(e).__name__}", f"constructing {c.cls} raises for in-range values handed over in another "
                              "documented spelling (Sequence[int] other than list, int other than exact int)", {**w, "error": repr(e)})
                continue
            try:
                pdu = obj.pdu
            except Exception as e:
                ctx.violation(f"{c.cls}/argument-spelling/pdu-raises/{type(e).__name__}", f"{c.cls}.pdu raises for in-range values handed over in another documented spelling", {**w, "error": repr(e)})
                continue
            if pdu != c.expect:
                ctx.violation(f"{c.cls}/argument-spelling/pdu-differs/{first_diff(pdu, c.expect)}", f"{c.cls}.pdu differs from the ISO layout when the same values come in another "
                              "documented spelling", {**w, "got": pdu, "want": c.expect})
                continue
            for attr, val in c.fields.items():
                got = getattr(obj, attr, "<missing>")
                if isinstance(val, list) and isinstance(got, collections.abc.Sequence) and not isinstance(got, (str, bytes)):
                    got = list(got)
                if got != val:
                    ctx.violation(f"{c.cls}/argument-spelling/attr-after-construct/{attr}", "constructed object exposes another field value when the same values come in another "
                                  "documented spelling", {**w, "attr": attr, "got": repr(got)[:200]})

    def check_client_spelling(self, method: str, c: Case, loop: Any, plan: dict[str, str] | None = None) -> None:
        """same for the parameters the UDSClient service method documents as `int | Sequence[int]`: bytes handed to the transport"""
        from gallia.services.uds.core.client import UDSClient

        ctx = self.ctx
        names, seqs = int_sequence_params(getattr(UDSClient, method))
        given = {**dict(zip(names, c.args)), **c.kwargs}
        mine = [p for p in seqs if type(given.get(p)) in (int, list)]
        if not mine:
            return
        if plan is None:
            self.client_turn += 1
            plan = {p: SPELLINGS[(self.client_turn + i) % len(SPELLINGS)] for i, p in enumerate(mine)}
        args, kwargs, applied = apply_spelling(names, c.args, c.kwargs, plan)
        if not applied:
            return
        w = {"method": method, "case": c.to_json(), "spelling": applied, "spelled_args": repr(args)[:400]}
        ctx.case(("client-spelling", method, c.ident(), tuple(sorted(applied.items()))))
        self.note_spelling(applied, args, kwargs, names, c.args)
        ctx.reach("spelling.client")
        self.spelled_methods.add(method)
        got = loop.run_until_complete(client_call_bytes(method, args, kwargs))
        if isinstance(got, Exception):
            ctx.violation(f"client/{method}/argument-spelling/raises/{type(got).__name__}", f"UDSClient.{method} raises for in-range values handed over in another documented spelling", {**w, "error": repr(got)})
        elif got != c.expect:
            ctx.violation(f"client/{method}/argument-spelling/bytes-differ/{first_diff(got, c.expect or b'')}", f"UDSClient.{method} puts other bytes on the wire when the same values "
                          "come in another documented spelling", {**w, "got": got})

    # -- second use of a request object / second parse of the same bytes -------------------------
    def check_reuse(self, kinds: dict[str, type], a: Case, b: Case, loop: Any = None) -> None:
        """Two cases of one kind.  The request's fields are its public attributes, and a request whose attributes were
        assigned is a request a user constructed: (1) two objects alive at once each keep their own bytes; (2) an object built
        from `a` (by the constructor, by from_pdu, by parse_dynamic) whose public fields are all re-assigned to the values of `b`
        serialises to the reference bytes of `b`, and to those of `a` again after being set back (third use); (3) parsing the
        bytes of `a` again after the first parse result was edited still yields the fields and bytes of `a`."""
        from gallia.services.uds.core import service

        ctx = self.ctx
        cls = kinds[a.cls]
        assert a.expect is not None and b.expect is not None
        ctx.case(("reuse", a.ident(), b.ident()), nontrivial=a.cls != "RawRequest")
        fa, fb = full_fields(a), full_fields(b)
        w = {"case": a.to_json(), "then": b.to_json(), "fields": [a.fields, b.fields]}
        try:
            oa = cls(*a.args, **a.kwargs)
            if oa.pdu != a.expect or cls(*b.args, **b.kwargs).pdu != b.expect:
                return  # a single fresh object is already wrong: check_valid reports that
            ob = cls(*b.args, **b.kwargs)
            pa, pb = oa.pdu, ob.pdu
        except Exception:
            return  # reported by check_valid
        ctx.reach("reuse.pairs")
        if a.expect != b.expect:
            ctx.reach("reuse.changed_bytes")
        if pa != a.expect or pb != b.expect:
            ctx.violation(f"{a.cls}/live-pair-pdu-differs", "a request object serialises differently once a second object of its kind exists", {**w, "got": [pa, pb]})
            return
        # every public attribute the table has no value for must be determined by the class, else the assignment is not complete
        va, vb = public_vars(oa), public_vars(ob)
        if any(k not in fb and va[k] != vb.get(k) for k in va):
            ctx.reach(f"reuse.incomplete:{a.cls}")
            return

        origins: list[tuple[str, Any]] = [("constructed", oa)]
        try:
            origins.append(("from_pdu", cls.from_pdu(a.expect)))
        except Exception:
            pass  # reported by check_valid
        try:
            d1 = service.UDSRequest.parse_dynamic(a.expect)
        except Exception:
            d1 = None  # reported by check_valid
        if type(d1) is cls:
            origins.append(("dynamic", d1))
        done = 0
        for origin, o in origins:
            if not self.reassigned(o, origin, fa, fb, b, w, True):
                continue
            done += 1
            ctx.reach(f"reuse.origin.{origin}")
            if origin == "constructed" and loop is not None and self.rng2.random() < 0.15:
                got = loop.run_until_complete(request_bytes(o))
                ctx.reach("reuse.client_sent")
                if isinstance(got, Exception):
                    ctx.violation(f"client/request/reassigned-raises/{type(got).__name__}", "UDSClient.request raises for a request object whose fields were re-assigned in range", {**w, "error": repr(got)})
                elif got != b.expect:
                    ctx.violation(f"client/request/reassigned-bytes-differ/{a.cls}", "UDSClient.request puts other bytes on the wire than the layout of the request's current fields", {**w, "got": got})
            if origin == "from_pdu":
                # the first parse result was edited: a second parse of the same bytes
                ctx.reach("reparse.after_edit.static")
                try:
                    again = cls.from_pdu(a.expect)
                except Exception as e:
                    ctx.violation(f"{a.cls}/from_pdu-again-raises/{type(e).__name__}", "second from_pdu of the same bytes raises after the first result was edited", {**w, "error": repr(e)})
                else:
                    self.compare(a, again, cls, "from_pdu-again", w, True)
            elif origin == "dynamic":
                if a.cls == "RawRequest":
                    ctx.reach("reparse.after_edit.raw")  # the raw fallback object, edited through its pdu setter
                self.check_dynamic_again(a, cls, w)
            # third use: back to the first values
            self.reassigned(o, origin + "-back", fb, fa, a, w, False)
        if done:
            self.reuse_kinds.add(a.cls)
        if d1 is not None and type(d1) is not cls:
            # raw fallback / generic class of the service: edit whatever came back, then parse again
            if self.edit_foreign(d1, b):
                self.check_dynamic_again(a, cls, w)

    def reassigned(self, o: Any, origin: str, old: dict[str, Any], new: dict[str, Any], target: Case, w: dict[str, Any], singular: bool) -> bool:
        ctx = self.ctx
        try:
            used = assign_fields(o, old, new, singular)
        except AttributeError:
            ctx.reach(f"reuse.not_assignable:{target.cls}")  # a class with read-only fields offers no such use
            return False
        if used:
            ctx.reach("reuse.singular_setter", used)
        try:
            p = o.pdu
        except Exception as e:
            ctx.violation(f"{target.cls}/reassigned-{origin}-pdu-raises/{type(e).__name__}", "a request whose public fields were re-assigned to in-range values cannot be serialised", {**w, "error": repr(e)})
            return True
        if p != target.expect:
            ctx.violation(f"{target.cls}/reassigned-{origin}-pdu-differs/{first_diff(p, target.expect or b'')}", "a request whose public fields were re-assigned does not serialise to the ISO layout of its current field values",
                          {**w, "got": p, "want": target.expect, "fields": repr(public_vars(o))[:400]})
        return True

    def edit_foreign(self, d1: Any, b: Case) -> bool:
        """edit a parse result that is not of the constructing class (RawRequest fallback, generic IOCBI request)"""
        from gallia.services.uds.core import service

        if isinstance(d1, service.RawRequest):
            d1.pdu = b.expect
            return True
        try:
            other = service.UDSRequest.parse_dynamic(b.expect)
        except Exception:
            return False
        mine, changed = public_vars(d1), False
        for k, v in public_vars(other).items():
            if k in mine and mine[k] != v:
                try:
                    setattr(d1, k, v)
                except AttributeError:
                    continue
                changed = True
        if changed:
            self.ctx.reach("reparse.after_edit.generic")
        return changed

    def check_dynamic_again(self, c: Case, cls: type, w: dict[str, Any]) -> None:
        """same demands as for the first dynamic parse in check_valid, on a parse made after an earlier result was edited"""
        from gallia.services.uds.core import service

        ctx = self.ctx
        ctx.reach("reparse.after_edit.dynamic")
        assert c.expect is not None
        try:
            dyn = service.UDSRequest.parse_dynamic(c.expect)
        except Exception as e:
            ctx.violation(f"{c.cls}/dynamic-again-raises/{type(e).__name__}", "second parse_dynamic of the same bytes raises", {**w, "error": repr(e)})
            return
        if c.cls == "RawRequest":
            if dyn.pdu != c.expect:
                ctx.violation("RawRequest/dynamic-again-bytes", "second dynamic parse of the same raw bytes yields other bytes after the first result was edited", {**w, "got": dyn.pdu})
            return
        if isinstance(dyn, service.RawRequest):
            ctx.violation(f"{c.cls}/dynamic-again-degraded-to-raw", f"second parse_dynamic of well-formed {c.cls} bytes degrades to RawRequest", w)
            return
        if dyn.service_id != c.expect[0] or dyn.pdu != c.expect:
            ctx.violation(f"{c.cls}/dynamic-again-bytes", "second parse_dynamic of the same bytes yields a request with other bytes after the first result was edited", {**w, "got": dyn.pdu})
            return
        want_dyn = gen_uds.DYNAMIC_GENERIC.get(c.cls, c.cls)
        if type(dyn).__name__ != want_dyn:
            ctx.violation(f"{c.cls}/dynamic-again-class/{type(dyn).__name__}", "second parse_dynamic yields a request of another kind", {**w, "got": type(dyn).__name__})
            return
        if type(dyn) is cls:
            self.compare(c, dyn, cls, "dynamic-again", w, False)

    def check_partial(self, kinds: dict[str, type], cls_name: str, args: tuple[Any, ...], steps: list[tuple[str, Any, bytes]]) -> None:
        """One object, one public field re-assigned at a time; every new value fits the widths of the object's
        addressAndLengthFormatIdentifier field, so the field values stay a consistent request with one prescribed layout."""
        ctx = self.ctx
        try:
            o = kinds[cls_name](*args)
        except Exception:
            return  # reported by check_valid
        for i, (attr, val, want) in enumerate(steps):
            w = {"cls": cls_name, "args": list(args), "assignments": [[s[0], s[1]] for s in steps[: i + 1]]}
            ctx.case(("partial", cls_name, args, i))
            ctx.reach("reuse.partial")
            try:
                setattr(o, attr, val)
            except AttributeError:
                ctx.reach(f"reuse.not_assignable:{cls_name}")
                return
            try:
                got = o.pdu
            except Exception as e:
                ctx.violation(f"{cls_name}/partial-reassign-pdu-raises/{attr}", "a request with one field re-assigned within the widths of its ALFID cannot be serialised", {**w, "error": repr(e)})
                return
            if got != want:
                ctx.violation(f"{cls_name}/partial-reassign-pdu-differs/{attr}", "a request with one field re-assigned does not serialise to the ISO layout of its current field values", {**w, "got": got, "want": want})
                return


class CaptureTransport:
    """Stands in for a BaseTransport: records the bytes handed over, answers generalReject."""

    def __init__(self) -> None:
        self.sent: list[bytes] = []

    async def request_unsafe(self, data: bytes, timeout: float | None = None, tags: Any = None) -> bytes:
        self.sent.append(data)
        return bytes([0x7F, data[0], 0x10])


def defaulted_suppress(fn: Any, c: Case) -> tuple[tuple[Any, ...], dict[str, Any]]:
    """'No suppression' is what a user gets who does not mention the bit at all: for about half of the cases with
    suppress_response=False the argument is left out, so that the code's own default is what is observed."""
    import zlib

    args, kwargs = tuple(c.args), dict(c.kwargs)
    if c.fields.get("suppress_response") is not False or not (zlib.crc32(repr(c.ident()).encode()) & 1):
        return args, kwargs
    if kwargs.get("suppress_response") is False:
        del kwargs["suppress_response"]
        return args, kwargs
    try:
        names = [p for p in inspect.signature(fn).parameters if p != "self"]
    except (TypeError, ValueError):
        return args, kwargs
    if args and args[-1] is False and len(args) <= len(names) and names[len(args) - 1] == "suppress_response":
        return args[:-1], kwargs
    return args, kwargs


async def client_bytes(method: str, c: Case) -> bytes | Exception:
    from gallia.services.uds.core.client import UDSClient

    t = CaptureTransport()
    cl = UDSClient(t, timeout=1.0)  # type: ignore[arg-type]
    args, kwargs = defaulted_suppress(getattr(UDSClient, method), c)
    try:
        await getattr(cl, method)(*args, **kwargs)
    except Exception as e:
        if not t.sent:
            return e
    return t.sent[0] if t.sent else RuntimeError("nothing sent")


async def client_call_bytes(method: str, args: tuple[Any, ...], kwargs: dict[str, Any]) -> bytes | Exception:
    """bytes the UDSClient service method hands to the transport for exactly these arguments"""
    from gallia.services.uds.core.client import UDSClient

    t = CaptureTransport()
    cl = UDSClient(t, timeout=1.0)  # type: ignore[arg-type]
    try:
        await getattr(cl, method)(*args, **kwargs)
    except Exception as e:
        if not t.sent:
            return e
    return t.sent[0] if t.sent else RuntimeError("nothing sent")


async def request_bytes(obj: Any) -> bytes | Exception:
    """bytes UDSClient.request() hands to the transport for an existing request object"""
    from gallia.services.uds.core.client import UDSClient

    t = CaptureTransport()
    cl = UDSClient(t, timeout=1.0)  # type: ignore[arg-type]
    try:
        await cl.request(obj)
    except Exception as e:
        if not t.sent:
            return e
    return t.sent[0] if t.sent else RuntimeError("nothing sent")


def run(ctx: Any, params: dict[str, Any]) -> None:
    import gallia.command  # noqa: F401  (import order trap)
    from gallia.services.uds.core.client import UDSClient

    rng = ctx.rng
    kinds = enumerate_kinds()
    mon = Monitor(ctx)
    names = sorted(kinds)
    if params["part"] == 0:
        ctx.reach("kinds.enumerated", len(names))
        for n in names:
            if n not in gen_uds.GEN:
                ctx.violation(f"harness/unmapped-kind/{n}", "request class without a layout in vf/gen_uds.py (monitor cannot decide it)", {"cls": n})
        ctx.sample({"kinds": names})
    mine = [n for i, n in enumerate(names) if n in gen_uds.GEN]
    per = params["per_kind"]
    loop = asyncio.new_event_loop()
    methods_seen: set[str] = set()
    public_methods = {m for m, f in vars(UDSClient).items() if inspect.iscoroutinefunction(f) and not m.startswith("_")}
    try:
        for n in mine:
            seen_valid = seen_invalid = False
            prev: Case | None = None
            for i in range(per):
                for c in gen_uds.GEN[n](rng):
                    mon.check_valid(kinds, c)
                    mon.check_spellings(kinds, c)
                    seen_valid = True
                    if prev is not None and i % 3 == 0:
                        mon.check_reuse(kinds, prev, c, loop)
                    prev = c
                    if rng.random() < 0.02:
                        ctx.sample({"cls": c.cls, "args": list(c.args), "expect": c.expect})
            # blocks of consecutive identifiers / regions, in every spelling (own random stream)
            for _ in range(max(2, per // 5)):
                for c in block_cases(n, mon.rng3):
                    ctx.reach("spelling.block_cases")
                    mon.check_valid(kinds, c)
                    mon.check_spellings(kinds, c)
            if n in gen_uds.BADGEN:
                for _ in range(max(1, per // 10)):
                    for c in gen_uds.BADGEN[n](rng):
                        mon.check_invalid(kinds, c)
                        mon.check_spellings(kinds, c)
                        seen_invalid = True
            if params["part"] == 0:
                if seen_valid:
                    ctx.reach("kinds.with_valid_case")
                if seen_invalid:
                    ctx.reach("kinds.with_invalid_case")
            # client methods documenting this kind
            for m, cn in CLIENT_METHODS.items():
                if cn != n or m not in public_methods:
                    continue
                for _ in range(max(3, per // 4)):
                    c = next(gen_uds.GEN[n](rng))
                    args = c.args
                    if m in ("define_by_identifier", "define_by_memory_address", "clear_dynamically_defined_data_identifier", "read_data_by_identifier"):
                        pass
                    ctx.case(("client", m, c.ident()))
                    got = loop.run_until_complete(client_bytes(m, c))
                    if isinstance(got, Exception):
                        ctx.violation(f"client/{m}/raises/{type(got).__name__}", f"UDSClient.{m} raises for in-range parameters", {"method": m, "case": c.to_json(), "error": repr(got)})
                    elif got != c.expect:
                        ctx.violation(f"client/{m}/bytes-differ/{first_diff(got, c.expect or b'')}", f"UDSClient.{m} puts other bytes on the wire than the service it documents", {"method": m, "case": c.to_json(), "got": got})
                    methods_seen.add(m)
                    mon.check_client_spelling(m, c, loop)
            if ctx.out_of_time():
                break
        # exhaustive small domains
        if params["part"] == 0:
            for sf in range(128):
                for spr in (False, True):
                    mon.check_valid(kinds, Case("DiagnosticSessionControlRequest", (sf, spr), {}, iso.req_session(sf, spr), {"diagnostic_session_type": sf, "suppress_response": spr}))
                    mon.check_valid(kinds, Case("ECUResetRequest", (sf, spr), {}, iso.req_reset(sf, spr), {"reset_type": sf, "suppress_response": spr}))
                    mon.check_valid(kinds, Case("ControlDTCSettingRequest", (sf, b"", spr), {}, iso.req_control_dtc(sf, b"", spr), {"dtc_setting_type": sf, "suppress_response": spr}))
            for aw in range(1, 16):
                for sw in range(1, 16):
                    f = iso.alfid_byte(aw, sw)
                    a, s = 256**aw - 1, 256 ** (sw - 1)
                    ctx.reach("alfid.pairs")
                    mon.check_valid(kinds, Case("ReadMemoryByAddressRequest", (a, s, None), {}, iso.req_rmba(a, s, f), {"memory_address": a, "memory_size": s, "address_and_length_format_identifier": f}))
                    mon.check_valid(kinds, Case("ReadMemoryByAddressRequest", (1, 1, f), {}, iso.req_rmba(1, 1, f), {"memory_address": 1, "memory_size": 1, "address_and_length_format_identifier": f}))
                    mon.check_valid(kinds, Case("WriteMemoryByAddressRequest", (a, b"\xaa", s, f), {}, iso.req_wmba(a, b"\xaa", s, f), {"memory_address": a, "memory_size": s}))
                    mon.check_valid(kinds, Case("RequestDownloadRequest", (a, s, 1, 2, None), {}, iso.req_updown(0x34, a, s, 1, 2, f), {"memory_address": a, "memory_size": s}))
                    mon.check_valid(kinds, Case("RequestUploadRequest", (a, s, 0, 0, f), {}, iso.req_updown(0x35, a, s, 0, 0, f), {"memory_address": a, "memory_size": s}))
                    mon.check_valid(kinds, Case("DefineByMemoryAddressRequest", (0xF200, [a, 0], [s, 1], None, False), {}, iso.req_dddi_by_mem(0xF200, [(a, s), (0, 1)], f), {"memory_addresses": [a, 0], "memory_sizes": [s, 1]}))
                    # one object, one field re-assigned at a time, widths of the object's ALFID kept
                    mon.check_partial(kinds, "ReadMemoryByAddressRequest", (1, 1, f), [
                        ("memory_address", a, iso.req_rmba(a, 1, f)), ("memory_size", s, iso.req_rmba(a, s, f)), ("memory_address", 0, iso.req_rmba(0, s, f))])
                    mon.check_partial(kinds, "ReadMemoryByAddressRequest", (a, s, None), [  # ALFID chosen by the constructor, shown as a field
                        ("memory_address", a - 1, iso.req_rmba(a - 1, s, f)), ("memory_size", s + 1, iso.req_rmba(a - 1, s + 1, f))])
                    mon.check_partial(kinds, "WriteMemoryByAddressRequest", (1, b"\xaa", 1, f), [
                        ("memory_address", a, iso.req_wmba(a, b"\xaa", 1, f)), ("data_record", b"\xbb\xcc", iso.req_wmba(a, b"\xbb\xcc", 1, f)),
                        ("memory_size", s, iso.req_wmba(a, b"\xbb\xcc", s, f))])
                    for cn, sid in (("RequestDownloadRequest", 0x34), ("RequestUploadRequest", 0x35)):
                        mon.check_partial(kinds, cn, (1, 1, 1, 2, f), [
                            ("memory_address", a, iso.req_updown(sid, a, 1, 1, 2, f)), ("memory_size", s, iso.req_updown(sid, a, s, 1, 2, f)),
                            ("compression_method", 0xF, iso.req_updown(sid, a, s, 0xF, 2, f)), ("encryption_method", 0, iso.req_updown(sid, a, s, 0xF, 0, f))])
                    mon.check_partial(kinds, "DefineByMemoryAddressRequest", (0xF200, [1, 0], [1, 1], f, False), [
                        ("memory_address", a, iso.req_dddi_by_mem(0xF200, [(a, 1), (0, 1)], f)), ("memory_sizes", [s, 1], iso.req_dddi_by_mem(0xF200, [(a, s), (0, 1)], f)),
                        ("suppress_response", True, iso.req_dddi_by_mem(0xF200, [(a, s), (0, 1)], f, True)),
                        ("dynamically_defined_data_identifier", 0xF3FF, iso.req_dddi_by_mem(0xF3FF, [(a, s), (0, 1)], f, True))])
            ctx.reach("client.methods_exercised", 0)
            unmapped = sorted(public_methods - set(CLIENT_METHODS) - {"connect", "reconnect", "reconnect_unsafe", "request", "request_unsafe"})
            if unmapped:
                ctx.violation("harness/unmapped-client-methods", "UDSClient service methods without a mapping in the monitor", {"methods": unmapped})
    finally:
        loop.close()
    ctx.reach("client.methods_exercised", len(methods_seen) if params["part"] == 0 else 0)
    ctx.reach("reuse.kinds", len(mon.reuse_kinds) if params["part"] == 0 else 0)
    ctx.reach("spelling.kinds", len(mon.spelled_kinds) if params["part"] == 0 else 0)
    ctx.reach("spelling.client_methods", len(mon.spelled_methods) if params["part"] == 0 else 0)
    ctx.reach("contract.uds_memory_parameters", mon.contract_evals)


def replay(ctx: Any, witness: dict[str, Any]) -> None:
    import gallia.command  # noqa: F401

    def unhex(o: Any) -> Any:
        if isinstance(o, str) and o.startswith("hex:"):
            return bytes.fromhex(o[4:])
        if isinstance(o, list):
            return [unhex(x) for x in o]
        if isinstance(o, dict):
            return {k: unhex(v) for k, v in o.items()}
        return o

    kinds = enumerate_kinds()
    mon = Monitor(ctx)
    cj = witness["case"]
    c = Case(cj["cls"], tuple(unhex(cj["args"])), cj.get("kwargs", {}), unhex(cj.get("expect")), {}, cj.get("bad", ""))
    if "spelling" in witness:
        # the case carries the arguments as the generators spell them; the witness names the spelling of each parameter
        c.fields = {}
        if "method" in witness:
            loop = asyncio.new_event_loop()
            try:
                mon.check_client_spelling(witness["method"], c, loop, dict(witness["spelling"]))
            finally:
                loop.close()
        else:
            mon.check_spellings(kinds, c, [dict(witness["spelling"])])
        return
    if "assignments" in witness:
        return  # check_partial witnesses name the constructor arguments and the assignments; re-create by hand
    if "then" in witness and c.expect is not None:
        tj = witness["then"]
        b = Case(tj["cls"], tuple(unhex(tj["args"])), tj.get("kwargs", {}), unhex(tj.get("expect")), unhex(witness.get("fields", [{}, {}])[1]))
        c.fields = unhex(witness.get("fields", [{}, {}])[0])
        mon.check_reuse(kinds, c, b, None)
    elif c.expect is None:
        mon.check_invalid(kinds, c)
    else:
        mon.check_valid(kinds, c)
        if "method" in witness:
            loop = asyncio.new_event_loop()
            got = loop.run_until_complete(client_bytes(witness["method"], c))
            loop.close()
            if got != c.expect:
                ctx.violation(f"client/{witness['method']}/bytes-differ", "client bytes differ", {"got": got if isinstance(got, bytes) else repr(got)})
