"""C13 The virtual ECU answers by the ISO 14229-1 default response rules (DESIGN.md section 3, appendix D)."""

from __future__ import annotations

import asyncio
import itertools
from typing import Any

from vf import iso14229 as iso
from vf.models import vecu

PROPERTY = "C13"
LEVEL = "exploration"
ENGINE = "iso14229-reference"
TECHNIQUE = (
    "runtime reference-model monitor: every reply of the real RandomUDSServer (via UDSServerTransport.handle_request) and its "
    "state after every request are compared online with an executable model of the ISO 14229-1 default response chain, "
    "over generated models, request histories, exhaustive short requests and behaviour-switch subsets"
)
LEVEL_TEXT = (
    "Exploration: real virtual ECUs (seeds x randomness parameter sets incl. empty/full lists) are driven in-process with request "
    "histories (model-aware requests, structured valid requests, random bytes) and with every request of length 1 and 2 plus "
    "sampled length 3 for all 256 service ids; each reply and the server state (session, security level) after each request is "
    "judged by a reference rule chain parameterised by the server's own service model. All single-switch-off configurations and "
    "sampled subsets of the nine switches are run with the chain minus those rules. Held = held on those executions."
)
LEVEL_NOTE = (
    "Trusted: rule chain in vf/models/vecu.py (appendix D). 'Unparsable' is observed with gallia's own dynamic request parser; "
    "which services carry a sub-function is read from the model under test."
)
RULE = (
    "cases = (server seed, randomness parameters, switch subset, request history prefix, request); histories of 200-2000 requests "
    "from the shared request generator, plus exhaustive sweeps: all 256 one-byte and 65536 two-byte requests and sampled three-byte "
    "requests per swept state; non-trivial = request answered by rules 1-6 with a rule other than 'unknown everywhere'; distinct = "
    "distinct (model, switches, state, request)"
)
ASSUMPTIONS = [
    "appendix D rule chain; handler-level answers are only required to be a positive reply of that service or a negative reply naming it "
    "(plus exact expectations for session change, session read, tester present, ECU reset, seed/key sequencing)",
    "with default_response_if_sub_function_not_supported switched off, DiagnosticSessionControl requests are restricted to sessions the model offers "
    "(the statement does not define an ECU inside a session it does not offer)",
]
EXHAUSTIVE = {"quick": False, "thorough": False}
EXHAUSTIVE_NOTE = "exhaustive sub-space per swept state: every request of length 1 and 2 (all 256 service ids x all second bytes)"


def shards(tier: str, seed: int) -> list[dict[str, Any]]:
    out: list[dict[str, Any]] = []
    if tier == "quick":
        for i in range(6):
            out.append({"mode": "sweep", "server_seed": f"q{seed}-{i}", "rp": i % len(vecu.PARAM_SETS), "sessions": 2, "len3": 2000})
        for i in range(4):
            out.append({"mode": "history", "base": f"h{seed}-{i}", "servers": 6, "length": 1500, "off": "none"})
        out.append({"mode": "history", "base": f"s{seed}", "servers": 9, "length": 1200, "off": "single"})
        out.append({"mode": "history", "base": f"m{seed}", "servers": 40, "length": 250, "off": "subsets"})
        return out
    for i in range(40):
        out.append({"mode": "sweep", "server_seed": f"t{seed}-{i}", "rp": i % len(vecu.PARAM_SETS), "sessions": 6, "len3": 30000})
    for i in range(12):
        out.append({"mode": "history", "base": f"h{seed}-{i}", "servers": 30, "length": 4000, "off": "none"})
    for i in range(4):
        out.append({"mode": "history", "base": f"s{seed}-{i}", "servers": 18, "length": 3000, "off": "single"})
    for i in range(8):
        out.append({"mode": "history", "base": f"m{seed}-{i}", "servers": 64, "length": 600, "off": "subsets"})
    return out


def required_reach(tier: str) -> dict[str, int]:
    return {
        "rule:1:service-not-supported": 1000, "rule:2:missing-sub-function": 10, "rule:3:sub-function-not-supported": 500,
        "rule:4:incorrect-format": 500, "rule:5:session-change": 50, "rule:5:session-read": 5, "rule:5:tester-present": 5,
        "rule:6:ecu-reset": 5, "rule:6:request-seed": 5, "rule:6:send-key-ok": 1, "suppressed-positive": 10,
        "nrc.7f": 50, "nrc.7e": 10, "state.non-default-session": 100, "state.security-level-set": 1,
        "#off:": 9, "switch-subsets": 10, "state-checks": 1000, "inactivity-pause": 10,
    }


async def drive(ctx: Any, d: vecu.Driver, requests: Any, tag: str, cfg: dict[str, Any]) -> bool:
    """feed requests; returns False if the server raised (driver unusable afterwards)"""
    m = d.model
    assert m is not None
    last_seed = None
    hist: list[bytes] = []
    for q in requests:
        if isinstance(q, tuple):  # ("PAUSE", seconds): the tester falls silent; > 10 s of inactivity reset the ECU state
            vecu.CLOCK.advance(q[1])
            if q[1] > 10:
                m.reset()
                ctx.reach("inactivity-pause")
            hist.append(b"\x00PAUSE")
            continue
        hist.append(q)
        raw = d.is_raw(q)
        if raw and iso.request_wellformed(q):
            ctx.violation(f"parse/wellformed-request-treated-as-unparsable/sid-{q[0]:02x}" + (f".{q[1] & 0x7F:02x}" if q[0] in (0x19, 0x2C, 0x31) and len(q) > 1 else "") + ("/suppress-bit" if iso.suppress_requested(q) else ""),
                          "a request that is well-formed by ISO 14229-1 is not parsed by the ECU, so the 'unparsable request' rule would answer it", {**cfg, "request": q})
        if not raw and not iso.request_wellformed(q):
            if q[0] == 0x3D:
                # WriteMemoryByAddress: gallia does not compare the data record with memorySize (a tester may want to send such a request)
                ctx.reach("parse.lenient-3d")
            else:
                ctx.violation(f"parse/malformed-request-treated-as-parsable/sid-{q[0]:02x}", "a request with an incorrect length / format by ISO 14229-1 is parsed as a typed request, so the "
                              "'incorrect message length or invalid format' rule never answers it", {**cfg, "request": q})
        ctx.reach("parse.compared-with-reference")
        before = (m.S, m.sec)
        try:
            reply, _ = await d.transport.handle_request(q)
        except Exception as e:
            ctx.violation(f"raises/{type(e).__name__}/{tag}", f"virtual ECU raises {type(e).__name__} while answering a request", {**cfg, "history": [h for h in hist[-30:]], "request": q, "error": repr(e)})
            return False
        v = m.check(q, raw, reply)
        ctx.evals()
        ctx.reach(f"rule:{v.rule.split('+')[0]}")
        if v.rule.endswith("+suppressed") and v.ok:
            ctx.reach("suppressed-positive")
        if reply is not None and reply[0] == 0x7F and len(reply) == 3:
            if reply[2] == 0x7F:
                ctx.reach("nrc.7f")
            elif reply[2] == 0x7E:
                ctx.reach("nrc.7e")
        nontrivial = not (v.rule.startswith("1:") and reply is not None and reply[-1] == 0x11)
        if nontrivial and len(q) <= 6:
            ctx.case((cfg["server_seed"], cfg["rp"], tag, before, q), nontrivial=True, n=0)
        if not v.ok:
            ctx.violation(f"reply/{v.rule}/{tag}/sid-{q[0]:02x}", f"reply contradicts the default response chain ({v.why})",
                          {**cfg, "history": hist[-30:], "request": q, "reply": reply, "expected": v.expected, "raw": raw, "state_before": list(map(str, before))})
        # state after the request
        st = d.server.state
        ctx.reach("state-checks")
        if st.session != m.S:
            ctx.violation(f"state/session/{v.rule}/{tag}", "server session differs from the session ISO prescribes after this exchange",
                          {**cfg, "history": hist[-30:], "request": q, "reply": reply, "server_session": st.session, "model_session": m.S})
            m.S = st.session
        if m.sec is not vecu.UNKNOWN and st.security_access_level != m.sec:
            ctx.violation(f"state/security-level/{v.rule}/{tag}", "server security level differs from what the exchange implies",
                          {**cfg, "history": hist[-30:], "request": q, "reply": reply, "server_level": st.security_access_level, "model_level": m.sec})
        if m.sec is vecu.UNKNOWN:
            m.sec = st.security_access_level
        if m.S != 1:
            ctx.reach("state.non-default-session")
        if m.sec is not None:
            ctx.reach("state.security-level-set")
        if m.S not in m.M:
            # outside the model (only possible with the sub-function rule switched off): stop this history
            return True
    return True


def history(ctx: Any, d: vecu.Driver, n: int, restrict_dsc: bool) -> Any:
    rng = ctx.rng
    m = d.model
    assert m is not None
    last_seed: tuple[int, bytes] | None = None
    remembered: tuple[int, bytes] | None = None  # the last seed the tester saw, even if the ECU has forgotten it meanwhile
    for _ in range(n):
        if last_seed is not None:
            remembered = last_seed
            if rng.random() < 0.2:
                # something in between: tester present keeps the seed valid iff it is answered positively
                yield rng.choice([b"\x3e\x00", b"\x3e\x00", b"\x3e\x80", b"\x3e\x00\x00"])
                last_seed = (m.last_sa[0], m.last_sa[1]) if m.last_sa is not None and m.last_sa[1] is not vecu.UNKNOWN else None
        if last_seed is None and remembered is not None and rng.random() < 0.3:
            # a key for a seed the ECU may no longer remember
            yield bytes([0x27, remembered[0] + 1]) + remembered[1]
            remembered = None
            last_seed = (m.last_sa[0], m.last_sa[1]) if m.last_sa is not None and m.last_sa[1] is not vecu.UNKNOWN else None
            continue
        if rng.random() < 0.01:
            yield ("PAUSE", rng.choice([3.0, 30.0, 600.0]))
            last_seed = None if m.last_sa is None else last_seed
        q = vecu.gen_request(rng, m, last_seed)
        if restrict_dsc and q[0] == 0x10 and len(q) >= 2 and (q[1] & 0x7F) not in (m.M.get(m.S, {}).get(0x10) or []):
            continue
        yield q
        last_seed = (m.last_sa[0], m.last_sa[1]) if m.last_sa is not None and m.last_sa[1] is not vecu.UNKNOWN else None


def sweep(ctx: Any, len3: int) -> Any:
    rng = ctx.rng
    for sid in range(256):
        yield bytes([sid])
    for sid in range(256):
        for x in range(256):
            yield bytes([sid, x])
    for _ in range(len3):
        yield bytes([rng.randrange(256), rng.randrange(256), rng.randrange(256)])


async def arun(ctx: Any, params: dict[str, Any]) -> None:
    rng = ctx.rng
    if params["mode"] == "sweep":
        cfg = {"server_seed": params["server_seed"], "rp": params["rp"], "off": []}
        d = vecu.Driver(params["server_seed"], vecu.PARAM_SETS[params["rp"]], vecu.all_switches())
        await d.setup()
        assert d.model is not None
        ctx.sample({"model": {f"{s:02x}": {f"{k:02x}": v for k, v in dd.items()} for s, dd in list(d.model.M.items())[:3]}, **cfg})
        sessions = [1] + [s for s in sorted(d.model.M) if s != 1]
        done = 0
        for target in sessions:
            if done >= params["sessions"] or ctx.out_of_time():
                break
            # walk to the target session through offered transitions (BFS on the model)
            path = bfs(d.model.M, 1, target)
            if path is None:
                continue
            ok = await drive(ctx, d, [b"\x10\x01"] + [bytes([0x10, s]) for s in path], "defaults", cfg)
            if not ok or d.model.S != target:
                continue
            ctx.reach("sweep.sessions")
            if not await drive(ctx, d, sweep(ctx, params["len3"]), "defaults", cfg):
                return
            done += 1
        return
    # histories
    offsets: list[frozenset[str]] = []
    if params["off"] == "none":
        offsets = [frozenset()] * params["servers"]
    elif params["off"] == "single":
        offsets = [frozenset([s]) for s in vecu.SWITCHES] * max(1, params["servers"] // 9)
    else:
        allsub = [frozenset(c) for r in range(2, 10) for c in itertools.combinations(vecu.SWITCHES, r)]
        offsets = rng.sample(allsub, params["servers"])
    for i, off in enumerate(offsets):
        if ctx.out_of_time():
            break
        rp = rng.randrange(len(vecu.PARAM_SETS))
        sseed = f"{params['base']}-{i}"
        cfg = {"server_seed": sseed, "rp": rp, "off": sorted(off)}
        d = vecu.Driver(sseed, vecu.PARAM_SETS[rp], vecu.all_switches(off))
        await d.setup()
        tag = "defaults" if not off else ("off:" + "+".join(sorted(s[len("default_response_if_"):] for s in off)) if len(off) == 1 else "off:subset")
        if len(off) == 1:
            ctx.reach("off:" + next(iter(off)))
        elif len(off) > 1:
            ctx.reach("switch-subsets")
        restrict = "default_response_if_sub_function_not_supported" in off
        await drive(ctx, d, history(ctx, d, params["length"], restrict), tag, cfg)
        if off and not ctx.out_of_time():
            # the short requests under this switch setting (one byte exhaustively, two bytes sampled)
            d2 = vecu.Driver(sseed, vecu.PARAM_SETS[rp], vecu.all_switches(off))
            await d2.setup()
            short = [bytes([s]) for s in range(256)] + [bytes([rng.randrange(256), rng.randrange(256)]) for _ in range(1500)]
            if restrict:
                m2 = d2.model
                assert m2 is not None
                short = [q for q in short if not (q[0] == 0x10 and len(q) == 2)]
            await drive(ctx, d2, short, tag, cfg)


def bfs(M: dict[int, dict[int, list[int] | None]], src: int, dst: int) -> list[int] | None:
    if src == dst:
        return []
    prev: dict[int, int] = {src: src}
    queue = [src]
    while queue:
        s = queue.pop(0)
        for t in M.get(s, {}).get(0x10) or []:
            if t in M and t not in prev:
                prev[t] = s
                queue.append(t)
    if dst not in prev:
        return None
    path = [dst]
    while path[-1] != src:
        path.append(prev[path[-1]])
    return list(reversed(path))[1:]


def run(ctx: Any, params: dict[str, Any]) -> None:
    asyncio.run(arun(ctx, params))


def replay(ctx: Any, witness: dict[str, Any]) -> None:
    def ux(x: Any) -> bytes:
        return bytes.fromhex(x[4:]) if isinstance(x, str) and x.startswith("hex:") else x

    async def go() -> None:
        off = frozenset(witness.get("off", []))
        d = vecu.Driver(witness["server_seed"], vecu.PARAM_SETS[witness["rp"]], vecu.all_switches(off))
        await d.setup()
        cfg = {"server_seed": witness["server_seed"], "rp": witness["rp"], "off": sorted(off)}
        # the stored history is a suffix; replay it from the default state (sufficient when the witness state is reachable from it)
        await drive(ctx, d, [("PAUSE", 30.0) if ux(h) == b"\x00PAUSE" else ux(h) for h in witness.get("history", [])], "replay", cfg)

    asyncio.run(go())
